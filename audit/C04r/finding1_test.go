package connect_test

import (
	"bytes"
	"context"
	"encoding/binary"
	"errors"
	"io"
	"net/http"
	"testing"

	connect "github.com/bufbuild/connect-go"
	pingv1 "github.com/bufbuild/connect-go/internal/gen/connect/ping/v1"
	"google.golang.org/protobuf/proto"
)

// auditC04rF1Client is an HTTPClient that answers every request with a canned
// response head and a body that ends (cleanly) after the given bytes. No HTTP
// trailers are ever delivered.
type auditC04rF1Client struct {
	header http.Header
	body   []byte
}

func (c *auditC04rF1Client) Do(req *http.Request) (*http.Response, error) {
	_, _ = io.Copy(io.Discard, req.Body)
	_ = req.Body.Close()
	return &http.Response{
		Status:        "200 OK",
		StatusCode:    http.StatusOK,
		Proto:         "HTTP/2.0",
		ProtoMajor:    2,
		Header:        c.header.Clone(),
		Body:          io.NopCloser(bytes.NewReader(c.body)),
		Trailer:       http.Header{}, // the cut came before any trailers
		ContentLength: -1,
		Request:       req,
	}, nil
}

func auditC04rF1Envelope(t *testing.T, msg proto.Message) []byte {
	t.Helper()
	payload, err := proto.Marshal(msg)
	if err != nil {
		t.Fatal(err)
	}
	prefix := make([]byte, 5)
	binary.BigEndian.PutUint32(prefix[1:], uint32(len(payload)))
	return append(prefix, payload...)
}

// The peer sends response headers that (besides the usual ones) carry
// "Grpc-Status: 0", then four messages, then - in the full response - the
// protocol's terminator (HTTP trailers for gRPC, the trailers frame for
// gRPC-Web). The response is cut at a message boundary before the terminator.
// C04: the client may report success only after receiving the terminator, so
// every one of these calls must fail with a coded error.
func TestAuditC04rFinding1(t *testing.T) {
	var twoOfFour []byte
	for i := int64(1); i <= 2; i++ {
		twoOfFour = append(twoOfFour, auditC04rF1Envelope(t, &pingv1.CountUpResponse{Number: i})...)
	}
	oneUnary := auditC04rF1Envelope(t, &pingv1.PingResponse{Number: 42})

	for _, web := range []bool{false, true} {
		name, contentType, opt := "gRPC", "application/grpc+proto", connect.WithGRPC()
		if web {
			name, contentType, opt = "gRPC-Web", "application/grpc-web+proto", connect.WithGRPCWeb()
		}
		for _, statusInHeader := range []bool{false, true} {
			header := http.Header{"Content-Type": {contentType}}
			if statusInHeader {
				header.Set("Grpc-Status", "0")
			}

			// Server stream, cut after 2 of 4 messages, no terminator.
			streamClient := connect.NewClient[pingv1.CountUpRequest, pingv1.CountUpResponse](
				&auditC04rF1Client{header: header, body: twoOfFour},
				"http://example.com/connect.ping.v1.PingService/CountUp", opt,
			)
			stream, err := streamClient.CallServerStream(context.Background(), connect.NewRequest(&pingv1.CountUpRequest{Number: 4}))
			if err != nil {
				t.Fatalf("%s: CallServerStream: %v", name, err)
			}
			var got []int64
			for stream.Receive() {
				got = append(got, stream.Msg().Number)
			}
			streamErr := stream.Err()
			_ = stream.Close()
			switch {
			case streamErr == nil:
				t.Errorf("%s server stream, Grpc-Status:0 in response headers=%v, body cut after 2 of 4 messages, "+
					"no trailers / trailers frame received: C04 expects a coded error, observed SUCCESS "+
					"(Receive()==false, Err()==nil, delivered %v)", name, statusInHeader, got)
			default:
				var connectErr *connect.Error
				if !errors.As(streamErr, &connectErr) {
					t.Errorf("%s: uncoded error %v", name, streamErr)
				}
				t.Logf("%s server stream, Grpc-Status:0 in headers=%v: fails as expected: %v", name, statusInHeader, streamErr)
			}

			if !web {
				continue
			}
			// gRPC-Web unary: the message arrived, the trailers frame did not.
			unaryClient := connect.NewClient[pingv1.PingRequest, pingv1.PingResponse](
				&auditC04rF1Client{header: header, body: oneUnary},
				"http://example.com/connect.ping.v1.PingService/Ping", opt,
			)
			res, err := unaryClient.CallUnary(context.Background(), connect.NewRequest(&pingv1.PingRequest{Number: 42}))
			if err == nil {
				t.Errorf("%s unary, Grpc-Status:0 in response headers=%v, body cut after the message and before the "+
					"trailers frame: C04 expects a coded error, observed SUCCESS (response %v)", name, statusInHeader, res.Msg)
			} else {
				t.Logf("%s unary, Grpc-Status:0 in headers=%v: fails as expected: %v", name, statusInHeader, err)
			}
		}
	}
}
