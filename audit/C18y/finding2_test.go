package connect

import "testing"

// C18: "text that is neither a defined name nor of the form code_<number> is
// rejected". The text form of a code is "code_" followed by the decimal digits
// of an unsigned 32-bit value (Code.String prints %d of a uint32). UnmarshalText
// parses with strconv.ParseInt, which also accepts a sign, so "code_-5" and
// "code_+17" are accepted; the negative ones are then converted to Code by
// wrapping mod 2^32.
func TestAuditC18yFinding2(t *testing.T) {
	for _, text := range []string{
		"code_-5",                   // -> Code(4294967291)
		"code_-1",                   // -> Code(4294967295)
		"code_-0",                   // -> Code(0)
		"code_+17",                  // -> Code(17)
		"code_+0",                   // -> Code(0)
		"code_-4294967295",          // -> Code(1) = canceled
		"code_-9223372036854775808", // -> Code(0)
	} {
		var code Code = 99
		err := code.UnmarshalText([]byte(text))
		if err == nil {
			back, _ := code.MarshalText()
			t.Errorf("UnmarshalText(%q): expected an error (neither a defined name nor code_<number>: a signed string is the text form of no Code); observed err=nil and Code=%d, whose text form is %q",
				text, uint32(code), back)
		}
	}
}
