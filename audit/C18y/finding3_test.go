package connect

import (
	"net/http"
	"testing"
)

// C18: the wire form of an error code is lossless "for every 32-bit code
// value". On the gRPC and gRPC-Web wire the code is written as the decimal
// text of the grpc-status trailer. grpcErrorToTrailer converts the Code to
// int32 first, so every code >= 2^31 is written as a negative number, which
// grpcErrorFromTrailer (ParseUint) then refuses: the peer receives
// CodeInternal "invalid error code" instead of the code, and the message and
// details are lost with it.
func TestAuditC18yFinding3(t *testing.T) {
	pool := newBufferPool()
	codec := &protoBinaryCodec{}
	for _, code := range []Code{1<<31 - 1, 1 << 31, 1<<31 + 1, 3000000000, 1<<32 - 1} {
		trailer := make(http.Header)
		grpcErrorToTrailer(pool, trailer, codec, NewError(code, nil))
		got := grpcErrorFromTrailer(pool, codec, trailer)
		if got == nil || got.Code() != code {
			t.Errorf("gRPC trailers for Code %d: expected the code to round-trip through grpcErrorToTrailer/grpcErrorFromTrailer; observed grpc-status=%q decoded as %v",
				uint32(code), trailer.Get(grpcHeaderStatus), got)
		}
	}
}
