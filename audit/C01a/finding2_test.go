package connect_test

import (
	"bytes"
	"context"
	"fmt"
	"net/http"
	"net/http/httptest"
	"testing"

	connect "github.com/bufbuild/connect-go"
)

// auditC01aRawMessage and auditC01aRawCodec are a minimal pass-through codec of
// the kind used by proxies and by callers that pre-serialize messages: the
// message already holds its encoding, and Marshal returns it as-is. Nothing in
// the Codec interface documentation says that the library takes ownership of
// (and later overwrites) the slice returned by Marshal.
type auditC01aRawMessage struct{ Data []byte }

type auditC01aRawCodec struct{}

func (auditC01aRawCodec) Name() string { return "raw" }

func (auditC01aRawCodec) Marshal(message any) ([]byte, error) {
	raw, ok := message.(*auditC01aRawMessage)
	if !ok {
		return nil, fmt.Errorf("unexpected type %T", message)
	}
	return raw.Data, nil
}

func (auditC01aRawCodec) Unmarshal(data []byte, message any) error {
	raw, ok := message.(*auditC01aRawMessage)
	if !ok {
		return fmt.Errorf("unexpected type %T", message)
	}
	raw.Data = append([]byte(nil), data...) // copy: don't retain the library's buffer
	return nil
}

// C01: the sequence of messages the receiving side yields equals the sequence
// the sending side passed in, for every codec, and regardless of what earlier
// messages contained.
//
// A client makes five unary calls, passing the same 600-byte message (600 x
// 'A') each time; the handler answers each with 300 x 'B'. The handler must
// receive 600 x 'A' five times, and the library must not rewrite the message
// the sender passed in.
func TestAuditC01aFinding2(t *testing.T) {
	payload := bytes.Repeat([]byte("A"), 600)
	var received [][]byte
	mux := http.NewServeMux()
	mux.Handle("/audit.v1.Audit/Echo", connect.NewUnaryHandler(
		"/audit.v1.Audit/Echo",
		func(_ context.Context, request *connect.Request[auditC01aRawMessage]) (*connect.Response[auditC01aRawMessage], error) {
			received = append(received, request.Msg.Data)
			return connect.NewResponse(&auditC01aRawMessage{Data: bytes.Repeat([]byte("B"), 300)}), nil
		},
		connect.WithCodec(auditC01aRawCodec{}),
	))
	server := httptest.NewServer(mux)
	defer server.Close()

	client := connect.NewClient[auditC01aRawMessage, auditC01aRawMessage](
		server.Client(),
		server.URL+"/audit.v1.Audit/Echo",
		connect.WithCodec(auditC01aRawCodec{}),
	)
	const count = 5
	message := &auditC01aRawMessage{Data: append([]byte(nil), payload...)}
	for i := 0; i < count; i++ {
		if _, err := client.CallUnary(context.Background(), connect.NewRequest(message)); err != nil {
			t.Errorf("call %d: property C01 expects the message to be delivered and the call to succeed; observed error: %v", i, err)
		}
		if !bytes.Equal(message.Data, payload) {
			t.Errorf("after call %d: the message the sender passed in was overwritten by the library: expected 600 x 'A', observed %q...",
				i, message.Data[:16])
			copy(message.Data, payload) // restore, so that later iterations are judged independently
		}
	}
	if len(received) != count {
		t.Errorf("property C01 expects the handler to receive %d messages; observed %d", count, len(received))
	}
	for i, data := range received {
		if !bytes.Equal(data, payload) {
			prefix := data
			if len(prefix) > 16 {
				prefix = prefix[:16]
			}
			t.Errorf("message %d: property C01 expects the handler to receive 600 x 'A'; observed %d bytes starting %q",
				i, len(data), prefix)
		}
	}
}
