package connect_test

import (
	"context"
	"net/http"
	"net/http/httptest"
	"strings"
	"testing"

	connect "github.com/bufbuild/connect-go"
	pingv1 "github.com/bufbuild/connect-go/internal/gen/connect/ping/v1"
)

// C01: every message sent is received intact, for every compression setting
// (send-compression on, compress-min-bytes) and regardless of what earlier
// messages contained.
//
// A Connect unary client is configured with WithSendGzip and
// WithCompressMinBytes(1024). The caller re-uses one *connect.Request for two
// calls (Request.Msg is an exported field, and the library itself documents
// that "the header map may be the caller's Request.Header(), which outlives
// this call"). The first message is large (compressed), the second is small
// (below the threshold, so sent uncompressed). The second message must arrive
// at the handler intact.
func TestAuditC01aFinding1(t *testing.T) {
	var received []string
	mux := http.NewServeMux()
	mux.Handle("/audit.v1.Audit/Echo", connect.NewUnaryHandler(
		"/audit.v1.Audit/Echo",
		func(_ context.Context, req *connect.Request[pingv1.PingRequest]) (*connect.Response[pingv1.PingResponse], error) {
			received = append(received, req.Msg.Text)
			return connect.NewResponse(&pingv1.PingResponse{Text: req.Msg.Text}), nil
		},
	))
	server := httptest.NewServer(mux)
	defer server.Close()

	client := connect.NewClient[pingv1.PingRequest, pingv1.PingResponse](
		server.Client(),
		server.URL+"/audit.v1.Audit/Echo",
		connect.WithSendGzip(),
		connect.WithCompressMinBytes(1024),
	)
	large := strings.Repeat("a", 4096) // >= compress-min-bytes: sent gzipped
	small := "small"                    // < compress-min-bytes: sent as-is
	sent := []string{large, small}

	request := connect.NewRequest(&pingv1.PingRequest{})
	for i, text := range sent {
		request.Msg.Text = text
		response, err := client.CallUnary(context.Background(), request)
		if err != nil {
			t.Errorf("message %d (%d bytes): property C01 expects the handler to receive it and the call to succeed; observed error: %v",
				i, len(text), err)
			continue
		}
		if response.Msg.Text != text {
			t.Errorf("message %d: property C01 expects echoed text of %d bytes, observed %d bytes", i, len(text), len(response.Msg.Text))
		}
	}
	if len(received) != len(sent) {
		t.Fatalf("property C01 expects the handler to receive %d messages (same count, order and content as sent); observed %d",
			len(sent), len(received))
	}
	for i := range sent {
		if received[i] != sent[i] {
			t.Errorf("message %d: handler received %d bytes, expected %d bytes", i, len(received[i]), len(sent[i]))
		}
	}
}
