package connect_test

import (
	"bytes"
	"context"
	"encoding/binary"
	"io"
	"net/http"
	"net/http/httptest"
	"strings"
	"testing"

	"github.com/bufbuild/connect-go"
	pingv1 "github.com/bufbuild/connect-go/internal/gen/connect/ping/v1"
)

// C07: "undecodable payloads [...] reach the peer as the documented error
// codes". For the gRPC protocols the handler copies the decoder's error text -
// which quotes the offending part of the payload, of any length - into the
// Grpc-Message and Grpc-Status-Details-Bin fields of the HTTP headers
// (gRPC-Web, trailers-only response) or HTTP trailers (gRPC). Nothing bounds
// them: an undecodable payload of a few megabytes yields a header block of
// more than twice its size, which no HTTP peer accepts (net/http's own client
// gives up at 10 MiB, proxies and other gRPC implementations far earlier), so
// the invalid_argument (grpc-status 3) never arrives. The same payload over
// the Connect protocol, where the error travels in the body, arrives fine.
func TestAuditC07wFinding2(t *testing.T) {
	calls := 0
	handler := connect.NewUnaryHandler(
		"/connect.ping.v1.PingService/Ping",
		func(_ context.Context, r *connect.Request[pingv1.PingRequest]) (*connect.Response[pingv1.PingResponse], error) {
			calls++
			return connect.NewResponse(&pingv1.PingResponse{Number: r.Msg.Number}), nil
		},
	)
	server := httptest.NewUnstartedServer(handler)
	server.EnableHTTP2 = true
	server.StartTLS()
	defer server.Close()

	for _, testCase := range []struct {
		name        string
		contentType string
		fieldLength int
	}{
		{name: "connect unary (control)", contentType: "application/json", fieldLength: 11_000_000},
		{name: "grpc-web, short field name (control)", contentType: "application/grpc-web+json", fieldLength: 1000},
		{name: "grpc, short field name (control)", contentType: "application/grpc+json", fieldLength: 1000},
		{name: "grpc-web", contentType: "application/grpc-web+json", fieldLength: 5_000_000},
		{name: "grpc", contentType: "application/grpc+json", fieldLength: 11_000_000},
	} {
		// Valid JSON, but not a PingRequest: one unknown field with a long name.
		payload := []byte(`{"` + strings.Repeat("a", testCase.fieldLength) + `":1}`)
		body := payload
		if testCase.contentType != "application/json" {
			var prefix [5]byte
			binary.BigEndian.PutUint32(prefix[1:], uint32(len(payload)))
			body = append(prefix[:], payload...)
		}
		request, err := http.NewRequest(http.MethodPost, server.URL+"/connect.ping.v1.PingService/Ping", bytes.NewReader(body))
		if err != nil {
			t.Fatal(err)
		}
		request.Header.Set("Content-Type", testCase.contentType)
		response, err := server.Client().Do(request) // net/http's default limits
		if err != nil {
			t.Errorf("%s: property C07 expects the undecodable payload to reach the peer as invalid_argument (grpc-status 3); "+
				"observed no usable response at all: %v", testCase.name, err)
			continue
		}
		responseBody, readErr := io.ReadAll(response.Body)
		response.Body.Close()
		var got string
		if testCase.contentType == "application/json" {
			if response.StatusCode == http.StatusBadRequest && bytes.HasPrefix(responseBody, []byte(`{"code":"invalid_argument"`)) {
				got = "3"
			}
		} else {
			got = response.Header.Get("Grpc-Status") + response.Trailer.Get("Grpc-Status")
		}
		if got != "3" {
			t.Errorf("%s: property C07 expects the undecodable payload to reach the peer as invalid_argument (grpc-status 3); "+
				"observed HTTP %d, grpc-status %q in headers, %q in trailers, error reading the body: %v",
				testCase.name, response.StatusCode, response.Header.Get("Grpc-Status"), response.Trailer.Get("Grpc-Status"), readErr)
		}
	}
	if calls != 0 {
		t.Errorf("user code ran %d times", calls)
	}
}
