package connect_test

import (
	"context"
	"fmt"
	"io"
	"net"
	"net/http/httptest"
	"strings"
	"testing"
	"time"

	"github.com/bufbuild/connect-go"
	pingv1 "github.com/bufbuild/connect-go/internal/gen/connect/ping/v1"
)

// C07: "For any HTTP request whatsoever [...] (method, HTTP version, header
// multimap, body bytes) [...] serving it [...] yields a response that is
// well-formed for the protocol selected by its Content-Type (or a bare
// 405/415/505 when none is selected) [...] invalid timeouts [...] reach the
// peer as the documented error codes, never as success."
//
// A gRPC (application/grpc) request that arrives over HTTP/1.0 is accepted by
// Handler.ServeHTTP (only bidi streams are refused below HTTP/2), but the gRPC
// status is only ever written as HTTP trailers, which net/http can't send on
// an HTTP/1.0 response (no chunked encoding). The peer gets "HTTP/1.0 200 OK"
// with Content-Type application/grpc and no Grpc-Status anywhere: neither a
// well-formed gRPC response nor a bare 405/415/505, and the invalid_argument
// for the invalid timeout never reaches it.
func TestAuditC07wFinding1(t *testing.T) {
	calls := 0
	handler := connect.NewUnaryHandler(
		"/connect.ping.v1.PingService/Ping",
		func(_ context.Context, r *connect.Request[pingv1.PingRequest]) (*connect.Response[pingv1.PingResponse], error) {
			calls++
			return connect.NewResponse(&pingv1.PingResponse{Number: r.Msg.Number}), nil
		},
	)
	server := httptest.NewServer(handler)
	defer server.Close()

	exchange := func(request string) string {
		conn, err := net.Dial("tcp", server.Listener.Addr().String())
		if err != nil {
			t.Fatal(err)
		}
		defer conn.Close()
		_ = conn.SetDeadline(time.Now().Add(5 * time.Second))
		if _, err := io.WriteString(conn, request); err != nil {
			t.Fatal(err)
		}
		response, _ := io.ReadAll(conn)
		return string(response)
	}

	body := "\x00\x00\x00\x00\x00" // one empty (valid) PingRequest
	for _, testCase := range []struct {
		name    string
		version string
		timeout string
	}{
		{name: "HTTP/1.1 invalid timeout (control)", version: "1.1", timeout: "bogus"},
		{name: "HTTP/1.0 invalid timeout", version: "1.0", timeout: "bogus"},
		{name: "HTTP/1.0 valid request", version: "1.0", timeout: "10S"},
	} {
		request := fmt.Sprintf(
			"POST /connect.ping.v1.PingService/Ping HTTP/%s\r\n"+
				"Host: example.com\r\n"+
				"Content-Type: application/grpc\r\n"+
				"Grpc-Timeout: %s\r\n"+
				"Connection: close\r\n"+
				"Content-Length: %d\r\n\r\n%s",
			testCase.version, testCase.timeout, len(body), body,
		)
		response := exchange(request)
		statusLine, _, _ := strings.Cut(response, "\r\n")
		bare := strings.Contains(statusLine, " 405 ") || strings.Contains(statusLine, " 415 ") || strings.Contains(statusLine, " 505 ")
		hasStatus := strings.Contains(strings.ToLower(response), "\r\ngrpc-status: ")
		if !bare && !hasStatus {
			t.Errorf("%s: property C07 expects a well-formed gRPC response (one that carries a grpc-status; "+
				"for the invalid timeout, grpc-status 3 = invalid_argument) or a bare 405/415/505; "+
				"observed a response with status line %q and no grpc-status at all:\n%q",
				testCase.name, statusLine, response)
		}
		if testCase.timeout == "bogus" && hasStatus && !strings.Contains(strings.ToLower(response), "\r\ngrpc-status: 3\r\n") {
			t.Errorf("%s: expected grpc-status 3 for the invalid timeout, got:\n%q", testCase.name, response)
		}
	}
	if calls > 1 {
		t.Errorf("user code ran %d times for one valid request", calls)
	}
}
