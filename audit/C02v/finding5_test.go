package connect_test

import (
	"context"
	"errors"
	"net/http"
	"net/http/httptest"
	"strings"
	"testing"

	connect "github.com/bufbuild/connect-go"
	pingv1 "github.com/bufbuild/connect-go/internal/gen/connect/ping/v1"
)

// C02: "... same code, byte-identical message ... in every protocol ...
// (messages: ... long)". The library serves and calls gRPC over HTTP/1.1 too
// (its own TestServer/http1 matrix does), sending the status as chunked-encoding
// trailers. grpcErrorToTrailer puts the message there twice (percent-encoded in
// Grpc-Message and again, base64-encoded, inside Grpc-Status-Details-Bin), and
// net/http's HTTP/1.1 client refuses a trailer block that doesn't fit its 4 KiB
// read buffer ("http: suspiciously long trailer after chunked body"). So an
// error message of about 1.7 KiB or more (less with details or metadata) never
// reaches a gRPC client over HTTP/1.1: it gets "invalid_argument: protocol
// error: incomplete envelope" instead. Connect and gRPC-Web deliver the same
// error over the same server; so does gRPC over HTTP/2.
func TestAuditC02vFinding5(t *testing.T) {
	message := strings.Repeat("the quota for project 1234 is exhausted; ", 50) // 2050 bytes
	newErr := func() error {
		return connect.NewError(connect.CodeAborted, errors.New(message))
	}
	mux := http.NewServeMux()
	mux.Handle("/unary", connect.NewUnaryHandler("/unary",
		func(context.Context, *connect.Request[pingv1.PingRequest]) (*connect.Response[pingv1.PingResponse], error) {
			return nil, newErr()
		}))
	mux.Handle("/stream", connect.NewServerStreamHandler("/stream",
		func(_ context.Context, _ *connect.Request[pingv1.PingRequest], stream *connect.ServerStream[pingv1.PingResponse]) error {
			if err := stream.Send(&pingv1.PingResponse{Number: 1}); err != nil {
				return err
			}
			return newErr()
		}))
	http1 := httptest.NewServer(mux)
	defer http1.Close()
	http2 := httptest.NewUnstartedServer(mux)
	http2.EnableHTTP2 = true
	http2.StartTLS()
	defer http2.Close()

	check := func(t *testing.T, err error) {
		t.Helper()
		var connectErr *connect.Error
		if !errors.As(err, &connectErr) {
			t.Fatalf("expected a *connect.Error, got %v", err)
		}
		if connectErr.Code() != connect.CodeAborted {
			t.Errorf("C02 violated: handler returned code %v, client received code %v (%.160s)",
				connect.CodeAborted, connectErr.Code(), connectErr.Error())
		}
		if connectErr.Message() != message {
			t.Errorf("C02 violated: handler returned a %d-byte message %.40q..., client received message %.160q",
				len(message), message, connectErr.Message())
		}
	}
	servers := []struct {
		name   string
		server *httptest.Server
	}{
		{"http2", http2},
		{"http1", http1},
	}
	protocols := []struct {
		name string
		opts []connect.ClientOption
	}{
		{"connect", nil},
		{"grpcweb", []connect.ClientOption{connect.WithGRPCWeb()}},
		{"grpc", []connect.ClientOption{connect.WithGRPC()}},
	}
	for _, srv := range servers {
		for _, protocol := range protocols {
			srv, protocol := srv, protocol
			t.Run(srv.name+"/"+protocol.name+"/unary", func(t *testing.T) {
				client := connect.NewClient[pingv1.PingRequest, pingv1.PingResponse](srv.server.Client(), srv.server.URL+"/unary", protocol.opts...)
				_, err := client.CallUnary(context.Background(), connect.NewRequest(&pingv1.PingRequest{}))
				check(t, err)
			})
			t.Run(srv.name+"/"+protocol.name+"/server_stream_after_one_message", func(t *testing.T) {
				client := connect.NewClient[pingv1.PingRequest, pingv1.PingResponse](srv.server.Client(), srv.server.URL+"/stream", protocol.opts...)
				stream, err := client.CallServerStream(context.Background(), connect.NewRequest(&pingv1.PingRequest{}))
				if err != nil {
					t.Fatal(err)
				}
				defer stream.Close()
				for stream.Receive() {
				}
				check(t, stream.Err())
			})
		}
	}
}
