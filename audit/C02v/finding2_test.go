package connect_test

import (
	"context"
	"errors"
	"net/http"
	"net/http/httptest"
	"testing"

	connect "github.com/bufbuild/connect-go"
	pingv1 "github.com/bufbuild/connect-go/internal/gen/connect/ping/v1"
	"google.golang.org/protobuf/proto"
	"google.golang.org/protobuf/types/known/anypb"
	"google.golang.org/protobuf/types/known/durationpb"
)

// C02: "... the client receives an error with the same code, byte-identical
// message, equal details in the same order ... in every protocol ...". The
// Connect protocol (unary and streaming) re-encodes every detail through
// protojson on the handler side. A detail that protojson can't render - an Any
// whose type isn't linked into the server (an error passed on from another
// service), or a linked-in message that has no JSON form (a Duration out of
// JSON's range) - makes the handler replace the whole error: the client gets
// code internal and a "marshal error" message instead of the handler's code and
// message. A detail carrying unknown fields arrives without them. gRPC and
// gRPC-Web deliver all three unchanged.
func TestAuditC02vFinding2(t *testing.T) {
	opaque, err := proto.Marshal(&pingv1.PingRequest{Number: 7, Text: "opaque"})
	if err != nil {
		t.Fatal(err)
	}
	notLinkedIn := &anypb.Any{TypeUrl: "type.googleapis.com/acme.user.v1.NotLinkedIn", Value: opaque}
	hugeDuration, err := anypb.New(&durationpb.Duration{Seconds: 1 << 50})
	if err != nil {
		t.Fatal(err)
	}
	inner := &pingv1.PingRequest{Number: 7}
	inner.ProtoReflect().SetUnknown([]byte{0x98, 0x06, 0x01}) // field 99, varint 1
	withUnknownFields, err := anypb.New(inner)
	if err != nil {
		t.Fatal(err)
	}
	cases := []struct {
		name   string
		detail *anypb.Any
	}{
		{"detail_type_not_linked_in", notLinkedIn},
		{"detail_without_json_form", hugeDuration},
		{"detail_with_unknown_fields", withUnknownFields},
	}
	protocols := []struct {
		name string
		opts []connect.ClientOption
	}{
		{"grpc", []connect.ClientOption{connect.WithGRPC()}},
		{"grpcweb", []connect.ClientOption{connect.WithGRPCWeb()}},
		{"connect", nil},
		{"connect_json", []connect.ClientOption{connect.WithProtoJSON()}},
	}
	for _, testCase := range cases {
		testCase := testCase
		newErr := func() error {
			err := connect.NewError(connect.CodeNotFound, errors.New("no such user"))
			err.AddDetail(testCase.detail)
			return err
		}
		mux := http.NewServeMux()
		mux.Handle("/unary", connect.NewUnaryHandler("/unary",
			func(context.Context, *connect.Request[pingv1.PingRequest]) (*connect.Response[pingv1.PingResponse], error) {
				return nil, newErr()
			}))
		mux.Handle("/stream", connect.NewServerStreamHandler("/stream",
			func(_ context.Context, _ *connect.Request[pingv1.PingRequest], stream *connect.ServerStream[pingv1.PingResponse]) error {
				if err := stream.Send(&pingv1.PingResponse{Number: 1}); err != nil {
					return err
				}
				return newErr()
			}))
		server := httptest.NewUnstartedServer(mux)
		server.EnableHTTP2 = true
		server.StartTLS()
		defer server.Close()

		check := func(t *testing.T, err error) {
			t.Helper()
			var connectErr *connect.Error
			if !errors.As(err, &connectErr) {
				t.Fatalf("expected a *connect.Error, got %v", err)
			}
			if connectErr.Code() != connect.CodeNotFound {
				t.Errorf("C02 violated: handler returned code %v, client received code %v (%v)",
					connect.CodeNotFound, connectErr.Code(), err)
			}
			if connectErr.Message() != "no such user" {
				t.Errorf("C02 violated: handler returned message %q, client received message %q",
					"no such user", connectErr.Message())
			}
			if len(connectErr.Details()) != 1 {
				t.Errorf("C02 violated: handler attached 1 detail, client received %d", len(connectErr.Details()))
				return
			}
			got, ok := connectErr.Details()[0].(*anypb.Any)
			if !ok {
				t.Fatalf("detail is a %T", connectErr.Details()[0])
			}
			if got.TypeUrl != testCase.detail.TypeUrl {
				t.Errorf("C02 violated: detail type %q, received %q", testCase.detail.TypeUrl, got.TypeUrl)
			}
			// Compare the wrapped messages, not their serializations.
			wantMsg, wantErr := testCase.detail.UnmarshalNew()
			gotMsg, gotErr := got.UnmarshalNew()
			if wantErr == nil && gotErr == nil {
				if !proto.Equal(wantMsg, gotMsg) {
					t.Errorf("C02 violated: handler attached detail %v, client received detail %v", wantMsg, gotMsg)
				}
			} else if !proto.Equal(testCase.detail, got) {
				t.Errorf("C02 violated: handler attached detail %v, client received detail %v", testCase.detail, got)
			}
		}
		for _, protocol := range protocols {
			protocol := protocol
			t.Run(testCase.name+"/"+protocol.name+"/unary", func(t *testing.T) {
				client := connect.NewClient[pingv1.PingRequest, pingv1.PingResponse](server.Client(), server.URL+"/unary", protocol.opts...)
				_, err := client.CallUnary(context.Background(), connect.NewRequest(&pingv1.PingRequest{}))
				check(t, err)
			})
			t.Run(testCase.name+"/"+protocol.name+"/server_stream_after_one_message", func(t *testing.T) {
				client := connect.NewClient[pingv1.PingRequest, pingv1.PingResponse](server.Client(), server.URL+"/stream", protocol.opts...)
				stream, err := client.CallServerStream(context.Background(), connect.NewRequest(&pingv1.PingRequest{}))
				if err != nil {
					t.Fatal(err)
				}
				defer stream.Close()
				for stream.Receive() {
				}
				check(t, stream.Err())
			})
		}
	}
}
