package connect_test

import (
	"context"
	"errors"
	"net/http"
	"net/http/httptest"
	"testing"

	connect "github.com/bufbuild/connect-go"
	pingv1 "github.com/bufbuild/connect-go/internal/gen/connect/ping/v1"
)

// C02: "... the client receives an error with the same code, byte-identical
// message ... whether or not response messages were already sent." In gRPC-Web,
// once a message has been sent, the error travels in an in-body trailers block
// that grpcMarshaler.MarshalWebTrailers renders with http.Header.Write (which
// only replaces CR and LF) and that grpcUnmarshaler.Unmarshal parses with
// textproto.ReadMIMEHeader (which rejects the whole block if any value has a
// control character). One such metadata value (a DEL, an ESC from colored
// terminal output, a NUL) therefore costs the client the code, the message and
// all other metadata: it sees "internal: gRPC-Web protocol error: trailers
// invalid". In every other protocol and position (HTTP headers, HTTP trailers,
// Connect's JSON end-of-stream message) only that one value is affected.
func TestAuditC02vFinding3(t *testing.T) {
	newErr := func() error {
		err := connect.NewError(connect.CodeFailedPrecondition, errors.New("quota exceeded"))
		err.Meta().Set("X-Ok", "fine")
		err.Meta().Set("X-Console", "\x1b[31mred\x1b[0m") // ESC: not a valid header byte
		return err
	}
	mux := http.NewServeMux()
	mux.Handle("/stream", connect.NewServerStreamHandler("/stream",
		func(_ context.Context, req *connect.Request[pingv1.PingRequest], stream *connect.ServerStream[pingv1.PingResponse]) error {
			for i := int64(0); i < req.Msg.Number; i++ {
				if err := stream.Send(&pingv1.PingResponse{Number: i}); err != nil {
					return err
				}
			}
			return newErr()
		}))
	server := httptest.NewUnstartedServer(mux)
	server.EnableHTTP2 = true
	server.StartTLS()
	defer server.Close()

	protocols := []struct {
		name string
		opts []connect.ClientOption
	}{
		{"connect", nil},
		{"grpc", []connect.ClientOption{connect.WithGRPC()}},
		{"grpcweb", []connect.ClientOption{connect.WithGRPCWeb()}},
	}
	for _, protocol := range protocols {
		for _, sentBefore := range []int64{0, 1} {
			protocol, sentBefore := protocol, sentBefore
			name := protocol.name + "/error_first"
			if sentBefore > 0 {
				name = protocol.name + "/error_after_one_message"
			}
			t.Run(name, func(t *testing.T) {
				client := connect.NewClient[pingv1.PingRequest, pingv1.PingResponse](server.Client(), server.URL+"/stream", protocol.opts...)
				stream, err := client.CallServerStream(context.Background(), connect.NewRequest(&pingv1.PingRequest{Number: sentBefore}))
				if err != nil {
					t.Fatal(err)
				}
				defer stream.Close()
				for stream.Receive() {
				}
				var connectErr *connect.Error
				if !errors.As(stream.Err(), &connectErr) {
					t.Fatalf("expected a *connect.Error, got %v", stream.Err())
				}
				if connectErr.Code() != connect.CodeFailedPrecondition {
					t.Errorf("C02 violated: handler returned code %v, client received code %v (%v)",
						connect.CodeFailedPrecondition, connectErr.Code(), connectErr)
				}
				if connectErr.Message() != "quota exceeded" {
					t.Errorf("C02 violated: handler returned message %q, client received message %q",
						"quota exceeded", connectErr.Message())
				}
				if got := connectErr.Meta().Get("X-Ok"); got != "fine" {
					t.Errorf("C02 violated: handler attached metadata X-Ok: %q, client received X-Ok: %q", "fine", got)
				}
			})
		}
	}
}
