package connect_test

import (
	"context"
	"errors"
	"net/http"
	"net/http/httptest"
	"strings"
	"testing"

	connect "github.com/bufbuild/connect-go"
	pingv1 "github.com/bufbuild/connect-go/internal/gen/connect/ping/v1"
)

// C02: "... the client receives an error with the same code, byte-identical
// message ... in every protocol ... (messages: ... long)". A client created
// with WithReadMaxBytes(n) applies n - a limit on *messages* - to the
// serialized *error* too, in the protocols that carry the error in the body:
//   - Connect unary: connectUnaryClientConn.validateResponse reads the JSON
//     error body with readMaxBytes; when it is longer, the size error is thrown
//     away and the client reports the code derived from the HTTP status and the
//     status line as message ("unknown: 409 Conflict" for a handler's aborted);
//   - Connect streaming (end-of-stream envelope) and gRPC-Web after a message
//     (trailers envelope): envelopeReader.Read rejects the envelope, the client
//     reports "invalid_argument: message size ... is larger than configured max".
// gRPC (HTTP trailers) and gRPC-Web trailers-only (HTTP headers) deliver the
// same error unchanged, so the limit isn't what protects the client here.
func TestAuditC02vFinding4(t *testing.T) {
	const readMaxBytes = 1024
	message := strings.Repeat("the quota for project 1234 is exhausted; ", 50) // 2050 bytes
	newErr := func() error {
		return connect.NewError(connect.CodeAborted, errors.New(message))
	}
	mux := http.NewServeMux()
	mux.Handle("/unary", connect.NewUnaryHandler("/unary",
		func(context.Context, *connect.Request[pingv1.PingRequest]) (*connect.Response[pingv1.PingResponse], error) {
			return nil, newErr()
		}))
	mux.Handle("/stream", connect.NewServerStreamHandler("/stream",
		func(_ context.Context, _ *connect.Request[pingv1.PingRequest], stream *connect.ServerStream[pingv1.PingResponse]) error {
			if err := stream.Send(&pingv1.PingResponse{Number: 1}); err != nil {
				return err
			}
			return newErr()
		}))
	server := httptest.NewUnstartedServer(mux)
	server.EnableHTTP2 = true
	server.StartTLS()
	defer server.Close()

	check := func(t *testing.T, err error) {
		t.Helper()
		var connectErr *connect.Error
		if !errors.As(err, &connectErr) {
			t.Fatalf("expected a *connect.Error, got %v", err)
		}
		if connectErr.Code() != connect.CodeAborted {
			t.Errorf("C02 violated: handler returned code %v, client (WithReadMaxBytes(%d)) received code %v (%.120s)",
				connect.CodeAborted, readMaxBytes, connectErr.Code(), connectErr.Error())
		}
		if connectErr.Message() != message {
			t.Errorf("C02 violated: handler returned a %d-byte message %.40q..., client received message %.120q",
				len(message), message, connectErr.Message())
		}
	}
	protocols := []struct {
		name string
		opts []connect.ClientOption
	}{
		{"grpc", []connect.ClientOption{connect.WithGRPC()}},
		{"grpcweb", []connect.ClientOption{connect.WithGRPCWeb()}},
		{"connect", nil},
	}
	for _, protocol := range protocols {
		protocol := protocol
		opts := append([]connect.ClientOption{connect.WithReadMaxBytes(readMaxBytes)}, protocol.opts...)
		t.Run(protocol.name+"/unary", func(t *testing.T) {
			client := connect.NewClient[pingv1.PingRequest, pingv1.PingResponse](server.Client(), server.URL+"/unary", opts...)
			_, err := client.CallUnary(context.Background(), connect.NewRequest(&pingv1.PingRequest{}))
			check(t, err)
		})
		t.Run(protocol.name+"/server_stream_after_one_message", func(t *testing.T) {
			client := connect.NewClient[pingv1.PingRequest, pingv1.PingResponse](server.Client(), server.URL+"/stream", opts...)
			stream, err := client.CallServerStream(context.Background(), connect.NewRequest(&pingv1.PingRequest{}))
			if err != nil {
				t.Fatal(err)
			}
			defer stream.Close()
			for stream.Receive() {
			}
			check(t, stream.Err())
		})
	}
}
