package connect_test

import (
	"context"
	"errors"
	"io"
	"net/http"
	"net/http/httptest"
	"testing"

	connect "github.com/bufbuild/connect-go"
	pingv1 "github.com/bufbuild/connect-go/internal/gen/connect/ping/v1"
)

// C02: "... same code, byte-identical message ...; an error is never delivered
// as success". The library shields its own framing from what an error's
// metadata says (isFramingHeader in mergeMetadataHeaders, Header().Del of
// Content-Encoding in connectUnaryHandlerConn.Close, trailer.Set of Grpc-Status
// in grpcErrorToTrailer) - but all of these compare or overwrite the canonical
// spelling only. Error.Meta() is an http.Header, whose keys a handler may set
// directly in any case (metadata copied from a lower-case source: grpc-go's
// metadata.MD, Envoy-style header lists, HTTP/2 logs). On the wire the case is
// gone, so a lower-case key gets past the shields:
//   - Connect unary, Meta()["content-encoding"] = gzip: the uncompressed JSON
//     error is labelled gzip, the client can't decode it and reports the HTTP
//     status instead ("unknown: 409 Conflict" for a handler's aborted);
//   - gRPC-Web after a message, Meta()["grpc-status"] = 0: the trailers block
//     says "grpc-status: 0" before "grpc-status: 10", and the client reports a
//     clean end of the stream - the handler's error is delivered as success.
//     (Plain gRPC does the same, depending on map iteration order.)
// The same values under the canonical keys are handled (the subtests named
// "canonical" pass).
func TestAuditC02vFinding6(t *testing.T) {
	newHandler := func(key, value string) http.Handler {
		newErr := func() error {
			err := connect.NewError(connect.CodeAborted, errors.New("try again"))
			err.Meta()[key] = []string{value}
			return err
		}
		mux := http.NewServeMux()
		mux.Handle("/unary", connect.NewUnaryHandler("/unary",
			func(context.Context, *connect.Request[pingv1.PingRequest]) (*connect.Response[pingv1.PingResponse], error) {
				return nil, newErr()
			}))
		mux.Handle("/stream", connect.NewServerStreamHandler("/stream",
			func(_ context.Context, _ *connect.Request[pingv1.PingRequest], stream *connect.ServerStream[pingv1.PingResponse]) error {
				if err := stream.Send(&pingv1.PingResponse{Number: 1}); err != nil {
					return err
				}
				return newErr()
			}))
		return mux
	}
	check := func(t *testing.T, err error) {
		t.Helper()
		if err == nil || errors.Is(err, io.EOF) {
			t.Fatalf("C02 violated: handler returned aborted/%q, client saw success (err = %v)", "try again", err)
		}
		var connectErr *connect.Error
		if !errors.As(err, &connectErr) {
			t.Fatalf("expected a *connect.Error, got %v", err)
		}
		if connectErr.Code() != connect.CodeAborted || connectErr.Message() != "try again" {
			t.Errorf("C02 violated: handler returned %v/%q, client received %v/%q",
				connect.CodeAborted, "try again", connectErr.Code(), connectErr.Message())
		}
	}
	unary := func(key, value string, opts ...connect.ClientOption) func(*testing.T) {
		return func(t *testing.T) {
			server := httptest.NewUnstartedServer(newHandler(key, value))
			server.EnableHTTP2 = true
			server.StartTLS()
			defer server.Close()
			client := connect.NewClient[pingv1.PingRequest, pingv1.PingResponse](server.Client(), server.URL+"/unary", opts...)
			_, err := client.CallUnary(context.Background(), connect.NewRequest(&pingv1.PingRequest{}))
			check(t, err)
		}
	}
	stream := func(key, value string, opts ...connect.ClientOption) func(*testing.T) {
		return func(t *testing.T) {
			server := httptest.NewUnstartedServer(newHandler(key, value))
			server.EnableHTTP2 = true
			server.StartTLS()
			defer server.Close()
			client := connect.NewClient[pingv1.PingRequest, pingv1.PingResponse](server.Client(), server.URL+"/stream", opts...)
			serverStream, err := client.CallServerStream(context.Background(), connect.NewRequest(&pingv1.PingRequest{}))
			if err != nil {
				t.Fatal(err)
			}
			defer serverStream.Close()
			for serverStream.Receive() {
			}
			check(t, serverStream.Err())
		}
	}
	t.Run("connect_unary/canonical_Content-Encoding", unary("Content-Encoding", "gzip"))
	t.Run("connect_unary/lower_case_content-encoding", unary("content-encoding", "gzip"))
	t.Run("grpcweb_stream/canonical_Grpc-Status", stream("Grpc-Status", "0", connect.WithGRPCWeb()))
	t.Run("grpcweb_stream/lower_case_grpc-status", stream("grpc-status", "0", connect.WithGRPCWeb()))
}
