package connect_test

import (
	"context"
	"errors"
	"net/http"
	"net/http/httptest"
	"testing"

	connect "github.com/bufbuild/connect-go"
	pingv1 "github.com/bufbuild/connect-go/internal/gen/connect/ping/v1"
)

// C02: "... metadata containing every key/value the handler attached - in
// every protocol ...". Over gRPC (HTTP/2) the handler's error metadata is sent
// as HTTP trailers through net/http's "Trailer:" prefix mechanism, which
// silently drops every field name that RFC 7230 doesn't allow in a trailer
// (Www-Authenticate, Cache-Control, Authorization, Proxy-Authenticate,
// Content-Range, If-*, ...). The same error over Connect or gRPC-Web keeps them.
func TestAuditC02vFinding1(t *testing.T) {
	attached := http.Header{
		"Www-Authenticate": {`Bearer realm="example", error="invalid_token"`},
		"Cache-Control":    {"no-store"},
		"X-Control":        {"kept"}, // control: an ordinary key
	}
	newErr := func() error {
		err := connect.NewError(connect.CodeUnauthenticated, errors.New("token expired"))
		for key, values := range attached {
			for _, value := range values {
				err.Meta().Add(key, value)
			}
		}
		return err
	}
	mux := http.NewServeMux()
	mux.Handle("/unary", connect.NewUnaryHandler("/unary",
		func(context.Context, *connect.Request[pingv1.PingRequest]) (*connect.Response[pingv1.PingResponse], error) {
			return nil, newErr()
		}))
	mux.Handle("/stream", connect.NewServerStreamHandler("/stream",
		func(_ context.Context, _ *connect.Request[pingv1.PingRequest], stream *connect.ServerStream[pingv1.PingResponse]) error {
			if err := stream.Send(&pingv1.PingResponse{Number: 1}); err != nil {
				return err
			}
			return newErr()
		}))
	server := httptest.NewUnstartedServer(mux)
	server.EnableHTTP2 = true
	server.StartTLS()
	defer server.Close()

	check := func(t *testing.T, err error) {
		t.Helper()
		var connectErr *connect.Error
		if !errors.As(err, &connectErr) {
			t.Fatalf("expected a *connect.Error, got %v", err)
		}
		if connectErr.Code() != connect.CodeUnauthenticated || connectErr.Message() != "token expired" {
			t.Fatalf("expected unauthenticated/%q, got %v/%q", "token expired", connectErr.Code(), connectErr.Message())
		}
		for key, values := range attached {
			got := connectErr.Meta().Values(key)
			for _, value := range values {
				found := false
				for _, g := range got {
					found = found || g == value
				}
				if !found {
					t.Errorf("C02 violated: handler attached metadata %s: %q to the error, "+
						"the client's error.Meta() has %s: %q (all metadata received: %v)",
						key, value, key, got, connectErr.Meta())
				}
			}
		}
	}
	protocols := []struct {
		name string
		opts []connect.ClientOption
	}{
		{"connect", nil},
		{"grpcweb", []connect.ClientOption{connect.WithGRPCWeb()}},
		{"grpc", []connect.ClientOption{connect.WithGRPC()}},
	}
	for _, protocol := range protocols {
		protocol := protocol
		t.Run(protocol.name+"/unary", func(t *testing.T) {
			client := connect.NewClient[pingv1.PingRequest, pingv1.PingResponse](server.Client(), server.URL+"/unary", protocol.opts...)
			_, err := client.CallUnary(context.Background(), connect.NewRequest(&pingv1.PingRequest{}))
			check(t, err)
		})
		t.Run(protocol.name+"/server_stream_after_one_message", func(t *testing.T) {
			client := connect.NewClient[pingv1.PingRequest, pingv1.PingResponse](server.Client(), server.URL+"/stream", protocol.opts...)
			stream, err := client.CallServerStream(context.Background(), connect.NewRequest(&pingv1.PingRequest{}))
			if err != nil {
				t.Fatal(err)
			}
			defer stream.Close()
			for stream.Receive() {
			}
			check(t, stream.Err())
		})
	}
}
