package connect_test

import (
	"context"
	"net/http"
	"net/http/httptest"
	"testing"

	connect "github.com/bufbuild/connect-go"
	pingv1 "github.com/bufbuild/connect-go/internal/gen/connect/ping/v1"
)

// C01: the sequence of messages the receiving side's API yields equals the
// sequence the sending side passed in - same count. Here the peer is not an
// RPC server at all (a catch-all page, a health endpoint, a proxy's answer, the
// target of a redirect): it answers 200 with a Content-Type that is none of
// the Connect unary ones and no body. Nobody sent a message, so the unary
// client must fail the call. Instead the Connect unary client never looks at
// the response's Content-Type and decodes the empty body as a (zero-valued)
// response message.
func TestAuditC01xFinding1(t *testing.T) {
	for _, contentType := range []string{"text/html; charset=utf-8", "application/json", ""} {
		contentType := contentType
		t.Run("content-type="+contentType, func(t *testing.T) {
			server := httptest.NewServer(http.HandlerFunc(func(w http.ResponseWriter, r *http.Request) {
				// Not a Connect handler: no message is ever sent.
				if contentType != "" {
					w.Header().Set("Content-Type", contentType)
				} else {
					w.Header()["Content-Type"] = nil
				}
				w.WriteHeader(http.StatusOK)
			}))
			defer server.Close()
			client := connect.NewClient[pingv1.PingRequest, pingv1.PingResponse](
				server.Client(),
				server.URL+"/connect.ping.v1.PingService/Ping",
			) // Connect protocol, binary codec: expects application/proto
			res, err := client.CallUnary(
				context.Background(),
				connect.NewRequest(&pingv1.PingRequest{Number: 42, Text: "ping"}),
			)
			if err == nil {
				t.Fatalf("C01 (same count, exactly once): the peer sent 0 messages "+
					"(200 response, Content-Type %q instead of application/proto, empty body), "+
					"expected CallUnary to fail; observed err=nil and a response message %v "+
					"(zero-valued) that nobody sent", contentType, res.Msg)
			}
		})
	}
}
