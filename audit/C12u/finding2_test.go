package connect_test

import (
	"context"
	"net/http"
	"net/http/httptest"
	"testing"

	connect "github.com/bufbuild/connect-go"
	pingv1 "github.com/bufbuild/connect-go/internal/gen/connect/ping/v1"
)

// C12: on an accepted request, user code and interceptors "observe a Spec
// carrying the procedure and stream type the handler was built with".
//
// Client.CallUnary overwrites the spec field of the *Request it is given
// (client.go: request.spec = unarySpec). A unary handler that forwards the
// Request it received to another service - the Request is the natural thing to
// pass, and the library elsewhere explicitly caters for forwarded Requests -
// thereby rewrites the Spec that its own interceptors and user code observe:
// from then on it names the downstream procedure and says IsClient.
func TestAuditC12uFinding2(t *testing.T) {
	const (
		frontProcedure = "/connect.ping.v1.PingService/Ping"
		backProcedure  = "/backend.v1.StoreService/Store"
	)
	mux := http.NewServeMux()
	server := httptest.NewServer(mux)
	defer server.Close()

	mux.Handle(backProcedure, connect.NewUnaryHandler(
		backProcedure,
		func(_ context.Context, req *connect.Request[pingv1.PingRequest]) (*connect.Response[pingv1.PingResponse], error) {
			return connect.NewResponse(&pingv1.PingResponse{Number: req.Msg.Number}), nil
		},
	))
	backend := connect.NewClient[pingv1.PingRequest, pingv1.PingResponse](server.Client(), server.URL+backProcedure)

	var interceptorBefore, interceptorAfter, userAfter, recovered connect.Spec
	observer := connect.UnaryInterceptorFunc(func(next connect.UnaryFunc) connect.UnaryFunc {
		return func(ctx context.Context, req connect.AnyRequest) (connect.AnyResponse, error) {
			interceptorBefore = req.Spec()
			res, err := next(ctx, req)
			interceptorAfter = req.Spec() // e.g. a logging or metrics interceptor
			return res, err
		}
	})
	mux.Handle(frontProcedure, connect.NewUnaryHandler(
		frontProcedure,
		func(ctx context.Context, req *connect.Request[pingv1.PingRequest]) (*connect.Response[pingv1.PingResponse], error) {
			res, err := backend.CallUnary(ctx, req) // forward the request as received
			userAfter = req.Spec()
			if err != nil {
				return nil, err
			}
			if res.Msg.Number == 13 {
				panic("unlucky") // reported by WithRecover together with the Spec
			}
			return connect.NewResponse(res.Msg), nil
		},
		connect.WithInterceptors(observer),
		connect.WithRecover(func(_ context.Context, spec connect.Spec, _ http.Header, _ any) error {
			recovered = spec
			return connect.NewError(connect.CodeInternal, nil)
		}),
	))

	want := connect.Spec{StreamType: connect.StreamTypeUnary, Procedure: frontProcedure, IsClient: false}
	front := connect.NewClient[pingv1.PingRequest, pingv1.PingResponse](server.Client(), server.URL+frontProcedure)

	if _, err := front.CallUnary(context.Background(), connect.NewRequest(&pingv1.PingRequest{Number: 1})); err != nil {
		t.Fatalf("call failed: %v", err)
	}
	if interceptorBefore != want {
		t.Fatalf("precondition: handler interceptor should see %+v on entry, saw %+v", want, interceptorBefore)
	}
	if interceptorAfter != want {
		t.Errorf("C12 expects the handler's interceptor to observe the Spec the handler was built with (%+v); "+
			"after the handler forwarded its Request with Client.CallUnary the same interceptor, on the same request, observed %+v",
			want, interceptorAfter)
	}
	if userAfter != want {
		t.Errorf("C12 expects user code to observe the Spec the handler was built with (%+v); "+
			"after forwarding its Request with Client.CallUnary it observed %+v", want, userAfter)
	}

	_, _ = front.CallUnary(context.Background(), connect.NewRequest(&pingv1.PingRequest{Number: 13}))
	if recovered != want {
		t.Errorf("C12 expects the library's own recover interceptor to report the Spec the handler was built with (%+v); "+
			"for a panic after the Request was forwarded it reported %+v", want, recovered)
	}
}
