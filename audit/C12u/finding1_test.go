package connect_test

import (
	"context"
	"net/http"
	"net/http/httptest"
	"strings"
	"sync/atomic"
	"testing"

	connect "github.com/bufbuild/connect-go"
	pingv1 "github.com/bufbuild/connect-go/internal/gen/connect/ping/v1"
	"google.golang.org/protobuf/proto"
)

// auditC12uCodec is an ordinary binary Protobuf codec registered under a
// caller-chosen name.
type auditC12uCodec struct{ name string }

func (c *auditC12uCodec) Name() string { return c.name }
func (c *auditC12uCodec) Marshal(m any) ([]byte, error) {
	return proto.Marshal(m.(proto.Message))
}
func (c *auditC12uCodec) Unmarshal(b []byte, m any) error {
	return proto.Unmarshal(b, m.(proto.Message))
}

// C12: a POST whose Content-Type is one the handler advertises (a protocol
// prefix crossed with a registered codec name, or a bare gRPC type) is
// dispatched, and user code and interceptors run exactly once.
//
// The advertised set is built per protocol but looked up as one flat set of
// strings, first protocol first. For a unary handler the Connect prefix is
// just "application/", so a registered codec whose name starts with "grpc"
// makes a Connect content type identical to a gRPC one. The gRPC type is still
// advertised in Accept-Post, but a gRPC request carrying it is handed to the
// Connect protocol, which cannot read its body: user code and interceptors
// never run.
func TestAuditC12uFinding1(t *testing.T) {
	for _, testCase := range []struct {
		codecName   string
		contentType string // what a gRPC client with the proto codec sends
		clientOpts  []connect.ClientOption
	}{
		// connect-go's own gRPC client, binary Protobuf codec.
		{codecName: "grpc+proto", contentType: "application/grpc+proto", clientOpts: []connect.ClientOption{connect.WithGRPC()}},
		// connect-go's own gRPC-Web client, binary Protobuf codec.
		{codecName: "grpc-web+proto", contentType: "application/grpc-web+proto", clientOpts: []connect.ClientOption{connect.WithGRPCWeb()}},
	} {
		testCase := testCase
		t.Run(testCase.codecName, func(t *testing.T) {
			var userRuns, interceptorRuns int32
			handler := connect.NewUnaryHandler(
				"/connect.ping.v1.PingService/Ping",
				func(_ context.Context, req *connect.Request[pingv1.PingRequest]) (*connect.Response[pingv1.PingResponse], error) {
					atomic.AddInt32(&userRuns, 1)
					return connect.NewResponse(&pingv1.PingResponse{Number: req.Msg.Number}), nil
				},
				connect.WithCodec(&auditC12uCodec{name: testCase.codecName}),
				connect.WithInterceptors(connect.UnaryInterceptorFunc(func(next connect.UnaryFunc) connect.UnaryFunc {
					return func(ctx context.Context, req connect.AnyRequest) (connect.AnyResponse, error) {
						atomic.AddInt32(&interceptorRuns, 1)
						return next(ctx, req)
					}
				})),
			)
			server := httptest.NewUnstartedServer(handler)
			server.EnableHTTP2 = true
			server.StartTLS()
			defer server.Close()

			// The handler advertises the gRPC type (proto is always registered).
			probe, err := http.NewRequest(http.MethodPost, server.URL+"/connect.ping.v1.PingService/Ping", strings.NewReader(""))
			if err != nil {
				t.Fatal(err)
			}
			probe.Header.Set("Content-Type", "text/plain")
			probeRes, err := server.Client().Do(probe)
			if err != nil {
				t.Fatal(err)
			}
			probeRes.Body.Close()
			advertised := false
			for _, ct := range strings.Split(probeRes.Header.Get("Accept-Post"), ", ") {
				if ct == testCase.contentType {
					advertised = true
				}
			}
			if probeRes.StatusCode != http.StatusUnsupportedMediaType || !advertised {
				t.Fatalf("precondition: expected 415 with Accept-Post listing %q, got %d %q",
					testCase.contentType, probeRes.StatusCode, probeRes.Header.Get("Accept-Post"))
			}

			// An ordinary gRPC / gRPC-Web client with the proto codec: its
			// Content-Type is exactly the advertised one.
			client := connect.NewClient[pingv1.PingRequest, pingv1.PingResponse](
				server.Client(),
				server.URL+"/connect.ping.v1.PingService/Ping",
				testCase.clientOpts...,
			)
			res, callErr := client.CallUnary(context.Background(), connect.NewRequest(&pingv1.PingRequest{Number: 42}))
			user, ic := atomic.LoadInt32(&userRuns), atomic.LoadInt32(&interceptorRuns)
			if user != 1 || ic != 1 {
				t.Errorf("C12 expects a POST with the advertised Content-Type %q (protocol prefix x registered codec \"proto\") "+
					"to be dispatched with user code and interceptors running exactly once; "+
					"observed user code runs = %d, interceptor runs = %d, client error = %v",
					testCase.contentType, user, ic, callErr)
			}
			if callErr != nil || res.Msg.Number != 42 {
				t.Errorf("C12 expects the call with advertised Content-Type %q to be served; observed response %v, error %v",
					testCase.contentType, res, callErr)
			}
		})
	}
}
