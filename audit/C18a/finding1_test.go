package connect

import (
	"strconv"
	"testing"
)

// Property C18: the text form of error codes round-trips for every 32-bit code
// value, and text that is not the text form of a code is rejected; the codecs
// are lossless.
//
// Code.UnmarshalText parses the number after "code_" as a signed 64-bit integer
// and converts it to the 32-bit Code without a range check, so numerals that no
// 32-bit code can have are accepted and silently wrapped modulo 2^32 - even
// onto the named codes 1..16, whose "code_<n>" spelling UnmarshalText is
// written to reject (code_1 is rejected, code_4294967297 yields "canceled").
func TestAuditC18aFinding1(t *testing.T) {
	inputs := []string{
		"code_4294967296",           // 2^32      -> Code(0)
		"code_4294967297",           // 2^32 + 1  -> CodeCanceled
		"code_4294967312",           // 2^32 + 16 -> CodeUnauthenticated
		"code_9223372036854775807",  // MaxInt64  -> Code(4294967295)
		"code_-1",                   // negative  -> Code(4294967295)
		"code_-4294967295",          // negative  -> CodeCanceled
		"code_-9223372036854775808", // MinInt64  -> Code(0)
	}
	// Sanity: the in-range spelling of a named code is rejected, as intended.
	var probe Code
	if err := probe.UnmarshalText([]byte("code_1")); err == nil {
		t.Fatalf("precondition: code_1 unexpectedly accepted")
	}
	for _, in := range inputs {
		var code Code
		err := code.UnmarshalText([]byte(in))
		if err != nil {
			continue // rejected: what the property expects
		}
		want := in[len("code_"):]
		got := strconv.FormatUint(uint64(code), 10)
		t.Errorf("C18 violated: UnmarshalText(%q): expected rejection (%s is not a 32-bit code value, "+
			"so this is not the text form of any code) or at least a lossless decode; "+
			"observed err=nil, Code=%s (text form %q) - the value was silently wrapped modulo 2^32",
			in, want, got, code.String())
	}
}
