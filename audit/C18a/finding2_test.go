package connect

import (
	"errors"
	"net/http"
	"testing"
)

// Property C18: the (wire) text form of error codes round-trips for every
// 32-bit code value; the small wire codecs are lossless.
//
// In the gRPC and gRPC-Web protocols the text form of a code on the wire is the
// decimal "grpc-status" trailer (plus the code in grpc-status-details-bin).
// grpcErrorToTrailer converts the uint32 Code to int32 before formatting it, so
// every code >= 2^31 is written as a negative number; grpcErrorFromTrailer
// parses the trailer with ParseUint and therefore rejects what the encoder
// wrote. Half of the 2^32 code values do not round-trip: the peer sees
// CodeInternal "invalid error code" instead.
func TestAuditC18aFinding2(t *testing.T) {
	pool := newBufferPool()
	codec := &protoBinaryCodec{}
	for _, code := range []Code{
		17,         // control: round-trips
		1<<31 - 1,  // control: round-trips
		1 << 31,    // fails
		1<<31 + 5,  // fails
		0xFFFFFFFF, // fails
	} {
		trailer := make(http.Header)
		grpcErrorToTrailer(pool, trailer, codec, NewError(code, errors.New("boom")))
		got := grpcErrorFromTrailer(pool, codec, trailer)
		if got == nil {
			t.Errorf("C18 violated: code %d: expected the code to round-trip through the gRPC trailer, observed no error at all (grpc-status=%q)",
				uint32(code), trailer.Get("Grpc-Status"))
			continue
		}
		if got.Code() != code {
			t.Errorf("C18 violated: code %d: expected the text form of the code to round-trip through the gRPC trailers; "+
				"observed grpc-status=%q on the wire, decoded as code %d (%v)",
				uint32(code), trailer.Get("Grpc-Status"), uint32(got.Code()), got)
		}
	}
}
