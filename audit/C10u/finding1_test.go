package connect_test

import (
	"context"
	"io"
	"net/http"
	"net/http/httptest"
	"strings"
	"sync/atomic"
	"testing"

	connect "github.com/bufbuild/connect-go"
	pingv1 "github.com/bufbuild/connect-go/internal/gen/connect/ping/v1"
	"github.com/bufbuild/connect-go/internal/gen/connect/ping/v1/pingv1connect"
)

type auditC10uF1Server struct {
	pingv1connect.UnimplementedPingServiceHandler
	ran atomic.Int32
}

func (s *auditC10uF1Server) Ping(context.Context, *connect.Request[pingv1.PingRequest]) (*connect.Response[pingv1.PingResponse], error) {
	s.ran.Add(1)
	return connect.NewResponse(&pingv1.PingResponse{}), nil
}

func (s *auditC10uF1Server) CountUp(context.Context, *connect.Request[pingv1.CountUpRequest], *connect.ServerStream[pingv1.CountUpResponse]) error {
	s.ran.Add(1)
	return nil
}

// C10: "a malformed [timeout] ... is rejected as invalid_argument without
// running user code." When the same request also names a request compression
// the handler doesn't know, Handler.ServeHTTP lets NewConn answer first
// (unimplemented) and never reports the malformed timeout.
func TestAuditC10uFinding1(t *testing.T) {
	srv := &auditC10uF1Server{}
	mux := http.NewServeMux()
	mux.Handle(pingv1connect.NewPingServiceHandler(srv))
	server := httptest.NewUnstartedServer(mux)
	server.EnableHTTP2 = true
	server.StartTLS()
	defer server.Close()

	const emptyEnvelope = "\x00\x00\x00\x00\x00"
	cases := []struct {
		name, path, contentType  string
		timeoutHeader, timeout   string
		encodingHeader, envelope string
	}{
		{"connect unary", "/connect.ping.v1.PingService/Ping", "application/proto", "Connect-Timeout-Ms", "12345678901", "Content-Encoding", ""},
		{"connect streaming", "/connect.ping.v1.PingService/CountUp", "application/connect+proto", "Connect-Timeout-Ms", "10s", "Connect-Content-Encoding", emptyEnvelope},
		{"grpc", "/connect.ping.v1.PingService/Ping", "application/grpc", "Grpc-Timeout", "123456789S", "Grpc-Encoding", emptyEnvelope},
		{"grpc-web", "/connect.ping.v1.PingService/Ping", "application/grpc-web", "Grpc-Timeout", "5", "Grpc-Encoding", emptyEnvelope},
	}
	// what the peer is told: the Connect code name, or the gRPC status number
	outcome := func(t *testing.T, withEncoding bool, name, path, contentType, timeoutHeader, timeout, encodingHeader, body string) string {
		t.Helper()
		req, err := http.NewRequest(http.MethodPost, server.URL+path, strings.NewReader(body))
		if err != nil {
			t.Fatal(err)
		}
		req.Header.Set("Content-Type", contentType)
		req.Header.Set(timeoutHeader, timeout)
		if withEncoding {
			req.Header.Set(encodingHeader, "snappy") // not registered with the handler
		}
		resp, err := server.Client().Do(req)
		if err != nil {
			t.Fatal(err)
		}
		defer resp.Body.Close()
		data, _ := io.ReadAll(resp.Body)
		if status := resp.Header.Get("Grpc-Status"); status != "" {
			return "grpc-status " + status + " (" + resp.Header.Get("Grpc-Message") + ")"
		}
		if status := resp.Trailer.Get("Grpc-Status"); status != "" {
			return "grpc-status " + status + " (" + resp.Trailer.Get("Grpc-Message") + ")"
		}
		return resp.Status + " " + string(data)
	}
	isInvalidArgument := func(got string) bool {
		return strings.Contains(got, `"code":"invalid_argument"`) || strings.HasPrefix(got, "grpc-status 3 ")
	}
	for _, c := range cases {
		c := c
		t.Run(c.name, func(t *testing.T) {
			// Control: the malformed timeout on its own is rejected as the property says.
			if got := outcome(t, false, c.name, c.path, c.contentType, c.timeoutHeader, c.timeout, c.encodingHeader, c.envelope); !isInvalidArgument(got) {
				t.Fatalf("control: %s: %q alone: expected invalid_argument, observed %s", c.timeoutHeader, c.timeout, got)
			}
			got := outcome(t, true, c.name, c.path, c.contentType, c.timeoutHeader, c.timeout, c.encodingHeader, c.envelope)
			if !isInvalidArgument(got) {
				t.Errorf("malformed timeout %s: %q (with %s: snappy): property C10 expects the call to be rejected as invalid_argument; observed %s",
					c.timeoutHeader, c.timeout, c.encodingHeader, got)
			}
			if n := srv.ran.Load(); n != 0 {
				t.Errorf("user code ran %d times for a malformed timeout", n)
			}
		})
	}
}
