package connect_test

import (
	"context"
	"errors"
	"fmt"
	"net/http"
	"net/http/httptest"
	"runtime"
	"sync"
	"testing"
	"time"

	"github.com/bufbuild/connect-go"
	pingv1 "github.com/bufbuild/connect-go/internal/gen/connect/ping/v1"
	"github.com/bufbuild/connect-go/internal/gen/connect/ping/v1/pingv1connect"
)

// A handler that ends its goroutine with runtime.Goexit (which is what
// testing.T's FailNow/Fatal/SkipNow do) does not panic.
type auditC19yF2Server struct {
	pingv1connect.UnimplementedPingServiceHandler
}

func (auditC19yF2Server) Ping(
	context.Context,
	*connect.Request[pingv1.PingRequest],
) (*connect.Response[pingv1.PingResponse], error) {
	runtime.Goexit()
	return nil, nil
}

func (auditC19yF2Server) CountUp(
	_ context.Context,
	_ *connect.Request[pingv1.CountUpRequest],
	stream *connect.ServerStream[pingv1.CountUpResponse],
) error {
	_ = stream.Send(&pingv1.CountUpResponse{Number: 1})
	runtime.Goexit()
	return nil
}

// The recover interceptor tells a panic from a normal return with a flag that
// is cleared after next returns, and calls recover() when the flag is still
// set. runtime.Goexit also leaves the flag set: recover() then returns nil and
// the recovery function is called with nil - indistinguishable from
// panic(nil) - although the call did not panic.
func TestAuditC19yFinding2(t *testing.T) {
	var mu sync.Mutex
	var calls []string
	handle := func(_ context.Context, spec connect.Spec, _ http.Header, r any) error {
		mu.Lock()
		calls = append(calls, fmt.Sprintf("%s recovered=%v", spec.Procedure, r))
		mu.Unlock()
		return connect.NewError(connect.CodeDataLoss, errors.New("recovered by WithRecover"))
	}
	mux := http.NewServeMux()
	mux.Handle(pingv1connect.NewPingServiceHandler(auditC19yF2Server{}, connect.WithRecover(handle)))
	server := httptest.NewServer(mux)
	defer server.Close()
	client := pingv1connect.NewPingServiceClient(server.Client(), server.URL)
	ctx, cancel := context.WithTimeout(context.Background(), 5*time.Second)
	defer cancel()

	_, err := client.Ping(ctx, connect.NewRequest(&pingv1.PingRequest{}))
	t.Logf("unary: client got: %v", err)
	mu.Lock()
	unaryCalls := calls
	calls = nil
	mu.Unlock()
	if len(unaryCalls) != 0 {
		t.Errorf("unary: the handler did not panic (it called runtime.Goexit), so property C19 expects 0 calls of the recovery function; observed %d: %v", len(unaryCalls), unaryCalls)
	}

	stream, err := client.CountUp(ctx, connect.NewRequest(&pingv1.CountUpRequest{Number: 1}))
	if err == nil {
		for stream.Receive() {
		}
		t.Logf("server stream: client got: %v", stream.Err())
		_ = stream.Close()
	}
	mu.Lock()
	streamCalls := calls
	calls = nil
	mu.Unlock()
	if len(streamCalls) != 0 {
		t.Errorf("server stream: the handler did not panic (it called runtime.Goexit), so property C19 expects 0 calls of the recovery function; observed %d: %v", len(streamCalls), streamCalls)
	}
}
