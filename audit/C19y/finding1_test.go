package connect_test

import (
	"context"
	"errors"
	"net/http"
	"net/http/httptest"
	"sync/atomic"
	"testing"
	"time"

	"github.com/bufbuild/connect-go"
	pingv1 "github.com/bufbuild/connect-go/internal/gen/connect/ping/v1"
	"github.com/bufbuild/connect-go/internal/gen/connect/ping/v1/pingv1connect"
)

type auditC19yF1Upstream struct {
	pingv1connect.UnimplementedPingServiceHandler
}

func (auditC19yF1Upstream) Ping(
	_ context.Context,
	req *connect.Request[pingv1.PingRequest],
) (*connect.Response[pingv1.PingResponse], error) {
	return connect.NewResponse(&pingv1.PingResponse{Number: req.Msg.Number}), nil
}

type auditC19yF1Panicker struct {
	pingv1connect.UnimplementedPingServiceHandler
}

func (auditC19yF1Panicker) Ping(
	context.Context,
	*connect.Request[pingv1.PingRequest],
) (*connect.Response[pingv1.PingResponse], error) {
	panic("boom") // nolint:forbidigo
}

// A unary handler panics. An interceptor that sits in front of the recover
// interceptor has passed the incoming request on to another server (mirroring,
// an authorization check, ...) with one of this library's clients before
// calling next. Client.CallUnary stamps its own Spec (IsClient: true) onto the
// *Request it is given (client.go), and the recover interceptor's WrapUnary
// skips recovery altogether for a request whose Spec says IsClient
// (recover.go) - so the panic is not recovered, the recovery function is not
// called and the client gets a dropped connection instead of the configured
// error. With the two interceptors in the other order the same call is
// recovered, so the result depends on the position of the recover interceptor
// among the other interceptors.
func TestAuditC19yFinding1(t *testing.T) {
	upstreamMux := http.NewServeMux()
	upstreamMux.Handle(pingv1connect.NewPingServiceHandler(auditC19yF1Upstream{}))
	upstream := httptest.NewServer(upstreamMux)
	defer upstream.Close()
	upstreamClient := pingv1connect.NewPingServiceClient(upstream.Client(), upstream.URL)

	var calls int32
	var recovered atomic.Value
	handle := func(_ context.Context, _ connect.Spec, _ http.Header, r any) error {
		atomic.AddInt32(&calls, 1)
		recovered.Store(r)
		return connect.NewError(connect.CodeDataLoss, errors.New("recovered by WithRecover"))
	}
	// Forwards the incoming request to the upstream server, then carries on.
	mirror := connect.UnaryInterceptorFunc(func(next connect.UnaryFunc) connect.UnaryFunc {
		return func(ctx context.Context, req connect.AnyRequest) (connect.AnyResponse, error) {
			if typed, ok := req.(*connect.Request[pingv1.PingRequest]); ok {
				if _, err := upstreamClient.Ping(ctx, typed); err != nil {
					return nil, err
				}
			}
			return next(ctx, req)
		}
	})

	orders := []struct {
		name string
		opts []connect.HandlerOption
	}{
		{"recover before mirror", []connect.HandlerOption{connect.WithRecover(handle), connect.WithInterceptors(mirror)}},
		{"mirror before recover", []connect.HandlerOption{connect.WithInterceptors(mirror), connect.WithRecover(handle)}},
	}
	for _, order := range orders {
		mux := http.NewServeMux()
		mux.Handle(pingv1connect.NewPingServiceHandler(auditC19yF1Panicker{}, order.opts...))
		server := httptest.NewServer(mux)
		client := pingv1connect.NewPingServiceClient(server.Client(), server.URL)
		ctx, cancel := context.WithTimeout(context.Background(), 5*time.Second)
		_, err := client.Ping(ctx, connect.NewRequest(&pingv1.PingRequest{Number: 1}))
		cancel()
		server.Close()
		got := atomic.SwapInt32(&calls, 0)
		if got != 1 {
			t.Errorf("%s: property C19 expects exactly 1 call of the recovery function for the handler's panic(\"boom\"), observed %d calls", order.name, got)
		} else if r := recovered.Load(); r != "boom" {
			t.Errorf("%s: expected the recovery function to get the recovered value \"boom\", observed %v", order.name, r)
		}
		if connect.CodeOf(err) != connect.CodeDataLoss {
			t.Errorf("%s: property C19 expects the client to receive the recovery function's error (data_loss: recovered by WithRecover), observed: %v", order.name, err)
		}
	}
}
