package connect_test

import (
	"context"
	"errors"
	"net/http"
	"net/http/httptest"
	"testing"
	"time"

	"github.com/bufbuild/connect-go"
	pingv1 "github.com/bufbuild/connect-go/internal/gen/connect/ping/v1"
)

// C15: a call whose context is cancelled (or whose deadline passes) while the
// client is receiving must fail with canceled / deadline_exceeded, never with
// another code.
//
// Here the Connect unary client is receiving the JSON error body of a non-200
// response over HTTP/1.1 when the context ends. The context carries a cause
// (context.WithCancelCause / context.WithTimeoutCause). net/http then fails the
// body read with the cause itself, not with context.Canceled /
// context.DeadlineExceeded; validateResponse reads that body bare (not through
// duplexHTTPCall.Read) and classifies the failure only by the error value, so
// the call is reported with the code derived from the HTTP status.
func TestAuditC15sFinding1(t *testing.T) {
	t.Parallel()
	run := func(t *testing.T, makeCtx func() (context.Context, func()), trigger func(), want connect.Code) {
		t.Helper()
		flushed := make(chan struct{})
		release := make(chan struct{})
		server := httptest.NewServer(http.HandlerFunc(func(w http.ResponseWriter, r *http.Request) {
			w.Header().Set("Content-Type", "application/json")
			w.Header().Set("Content-Length", "1000") // the rest never comes
			w.WriteHeader(http.StatusServiceUnavailable)
			_, _ = w.Write([]byte(`{"code":"unavailable",`))
			w.(http.Flusher).Flush()
			close(flushed)
			select {
			case <-release:
			case <-r.Context().Done():
			}
		}))
		defer server.Close()
		defer close(release)

		ctx, cleanup := makeCtx()
		defer cleanup()
		go func() {
			<-flushed
			// Give the client time to get the response headers and block in the
			// read of the error body.
			time.Sleep(100 * time.Millisecond)
			trigger()
		}()
		client := connect.NewClient[pingv1.PingRequest, pingv1.PingResponse](
			server.Client(),
			server.URL+"/connect.ping.v1.PingService/Ping",
		)
		_, err := client.CallUnary(ctx, connect.NewRequest(&pingv1.PingRequest{}))
		if err == nil {
			t.Fatalf("property C15 expects the call to fail with %v after its context ended; observed success", want)
		}
		if ctx.Err() == nil {
			t.Fatalf("test setup: context not done, call failed early with %v", err)
		}
		if got := connect.CodeOf(err); got != want {
			t.Errorf("property C15 expects code %v for a unary call whose context ended (ctx.Err() = %v, cause = %v) while the error body of a 503 response was being received; observed code %v (error: %v)",
				want, ctx.Err(), context.Cause(ctx), got, err)
		}
	}

	t.Run("cancel_with_cause", func(t *testing.T) {
		t.Parallel()
		var cancel context.CancelCauseFunc
		run(t,
			func() (context.Context, func()) {
				ctx, c := context.WithCancelCause(context.Background())
				cancel = c
				return ctx, func() { c(nil) }
			},
			func() { cancel(errors.New("operator gave up")) },
			connect.CodeCanceled,
		)
	})
	t.Run("timeout_with_cause", func(t *testing.T) {
		t.Parallel()
		run(t,
			func() (context.Context, func()) {
				ctx, c := context.WithTimeoutCause(context.Background(), 400*time.Millisecond, errors.New("budget spent"))
				return ctx, c
			},
			func() {},
			connect.CodeDeadlineExceeded,
		)
	})
}
