package connect_test

import (
	"context"
	"net/http"
	"net/http/httptest"
	"testing"
	"time"

	"github.com/bufbuild/connect-go"
	pingv1 "github.com/bufbuild/connect-go/internal/gen/connect/ping/v1"
)

// C15: if a call's context is cancelled during a blocked Receive (or between
// two operations), the operation fails with code canceled and the handler's
// context is cancelled as well.
//
// Bidi stream over HTTP/2, one message exchanged in each direction (so the
// response headers have arrived), the request side still open. The client then
// cancels the call's context
//   - while a Receive is blocked waiting for the next response message, or
//   - while no operation is in progress (and doesn't touch the stream again).
//
// A third variant lets the call's deadline pass during the blocked Receive; the
// handler's own timer (from the timeout header) then ends its context, but a
// handler that is itself blocked in Receive doesn't return, and the client's
// Receive stays blocked past the deadline.
//
// Nothing in the library reacts to the context at that point: it is consulted
// only at the start of duplexHTTPCall.Read / Write, and net/http's HTTP/2
// transport no longer watches it once RoundTrip has returned and the request
// body (the library's io.Pipe) is idle. The blocked Receive never returns and
// the handler's context is never cancelled.
func TestAuditC15sFinding2(t *testing.T) {
	t.Parallel()
	const patience = 2 * time.Second
	for _, tc := range []struct {
		name           string
		opts           []connect.ClientOption
		blockedReceive bool
		deadline       bool // the context ends by its deadline instead of by cancel()
	}{
		{"cancel/connect/blocked_receive", nil, true, false},
		{"cancel/grpc/blocked_receive", []connect.ClientOption{connect.WithGRPC()}, true, false},
		{"cancel/grpcweb/blocked_receive", []connect.ClientOption{connect.WithGRPCWeb()}, true, false},
		{"cancel/connect/between_operations", nil, false, false},
		{"cancel/grpc/between_operations", []connect.ClientOption{connect.WithGRPC()}, false, false},
		{"deadline/connect/blocked_receive", nil, true, true},
		{"deadline/grpc/blocked_receive", []connect.ClientOption{connect.WithGRPC()}, true, true},
	} {
		tc := tc
		t.Run(tc.name, func(t *testing.T) {
			t.Parallel()
			handlerCtxErr := make(chan error, 1)
			mux := http.NewServeMux()
			mux.Handle("/connect.ping.v1.PingService/CumSum", connect.NewBidiStreamHandler(
				"/connect.ping.v1.PingService/CumSum",
				func(ctx context.Context, stream *connect.BidiStream[pingv1.CumSumRequest, pingv1.CumSumResponse]) error {
					go func() {
						select {
						case <-ctx.Done():
						case <-time.After(2 * patience):
						}
						handlerCtxErr <- ctx.Err()
					}()
					// An ordinary echo loop.
					for {
						msg, err := stream.Receive()
						if err != nil {
							return err
						}
						if err := stream.Send(&pingv1.CumSumResponse{Sum: msg.Number}); err != nil {
							return err
						}
					}
				},
			))
			server := httptest.NewUnstartedServer(mux)
			server.EnableHTTP2 = true
			server.StartTLS()
			defer server.Close()
			defer server.CloseClientConnections()

			client := connect.NewClient[pingv1.CumSumRequest, pingv1.CumSumResponse](
				server.Client(),
				server.URL+"/connect.ping.v1.PingService/CumSum",
				tc.opts...,
			)
			ctx, cancel := context.WithCancel(context.Background())
			want := connect.CodeCanceled
			if tc.deadline {
				ctx, cancel = context.WithTimeout(context.Background(), 500*time.Millisecond)
				want = connect.CodeDeadlineExceeded
			}
			defer cancel()
			stream := client.CallBidiStream(ctx)
			if err := stream.Send(&pingv1.CumSumRequest{Number: 1}); err != nil {
				t.Fatalf("setup: send: %v", err)
			}
			if _, err := stream.Receive(); err != nil {
				t.Fatalf("setup: receive: %v", err)
			}
			receiveDone := make(chan error, 1)
			if tc.blockedReceive {
				go func() {
					_, err := stream.Receive()
					receiveDone <- err
				}()
				time.Sleep(100 * time.Millisecond) // let it block
			}
			if tc.deadline {
				<-ctx.Done()
			} else {
				cancel()
			}
			cancelledAt := time.Now()

			if tc.blockedReceive {
				select {
				case err := <-receiveDone:
					if got := connect.CodeOf(err); err == nil || got != want {
						t.Errorf("property C15 expects the Receive interrupted by the end of the context to fail with code %v; observed %v", want, err)
					}
				case <-time.After(patience):
					t.Errorf("property C15 expects a Receive that is blocked when the call's context ends (ctx.Err() = %q) to fail with code %v; observed: still blocked %v after the context ended", ctx.Err(), want, time.Since(cancelledAt).Round(time.Millisecond))
				}
			}
			select {
			case err := <-handlerCtxErr:
				if err == nil {
					t.Errorf("property C15 expects the handler's context to be cancelled once the call's context is; observed: handler ctx.Err() == nil %v after the call's context ended", time.Since(cancelledAt).Round(time.Millisecond))
				}
			case <-time.After(3 * patience):
				t.Errorf("handler never reported")
			}
		})
	}
}
