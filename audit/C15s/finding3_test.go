package connect_test

import (
	"context"
	"net/http"
	"net/http/httptest"
	"testing"
	"time"

	"github.com/bufbuild/connect-go"
	pingv1 "github.com/bufbuild/connect-go/internal/gen/connect/ping/v1"
)

// C15: when the call's context is cancelled while the handler has not finished,
// the handler's context is cancelled as well, and every operation on that call
// that fails afterwards fails with code canceled - never another code.
//
// The client cancels a client-streaming call while the handler is blocked in
// Receive (and, in a second variant, the handler then tries to Send).
func TestAuditC15sFinding3(t *testing.T) {
	t.Parallel()
	type result struct {
		receiveErr error
		ctxErr     error
		sendErr    error
	}
	for _, tc := range []struct {
		name string
		opts []connect.ClientOption
	}{
		{"connect", nil},
		{"grpc", []connect.ClientOption{connect.WithGRPC()}},
		{"grpcweb", []connect.ClientOption{connect.WithGRPCWeb()}},
	} {
		tc := tc
		t.Run(tc.name, func(t *testing.T) {
			t.Parallel()
			results := make(chan result, 1)
			gotFirst := make(chan struct{})
			mux := http.NewServeMux()
			mux.Handle("/connect.ping.v1.PingService/CumSum", connect.NewBidiStreamHandler(
				"/connect.ping.v1.PingService/CumSum",
				func(ctx context.Context, stream *connect.BidiStream[pingv1.CumSumRequest, pingv1.CumSumResponse]) error {
					if _, err := stream.Receive(); err != nil {
						return err
					}
					if err := stream.Send(&pingv1.CumSumResponse{Sum: 1}); err != nil {
						return err
					}
					close(gotFirst)
					var res result
					_, res.receiveErr = stream.Receive() // blocks until the client cancels
					select {
					case <-ctx.Done():
					case <-time.After(5 * time.Second):
					}
					res.ctxErr = ctx.Err()
					// keep sending until it fails (the first writes may be buffered)
					for i := 0; i < 1000 && res.sendErr == nil; i++ {
						res.sendErr = stream.Send(&pingv1.CumSumResponse{Sum: 2})
					}
					results <- res
					return res.receiveErr
				},
			))
			server := httptest.NewUnstartedServer(mux)
			server.EnableHTTP2 = true
			server.StartTLS()
			defer server.Close()
			defer server.CloseClientConnections()

			client := connect.NewClient[pingv1.CumSumRequest, pingv1.CumSumResponse](
				server.Client(),
				server.URL+"/connect.ping.v1.PingService/CumSum",
				tc.opts...,
			)
			ctx, cancel := context.WithCancel(context.Background())
			defer cancel()
			stream := client.CallBidiStream(ctx)
			if err := stream.Send(&pingv1.CumSumRequest{Number: 1}); err != nil {
				t.Fatalf("setup: send: %v", err)
			}
			if _, err := stream.Receive(); err != nil {
				t.Fatalf("setup: receive: %v", err)
			}
			<-gotFirst
			time.Sleep(50 * time.Millisecond)
			cancel() // the call's context is cancelled; the handler is blocked in Receive
			// Touch the stream once more so that the client tears the HTTP/2 stream
			// down; this Receive itself reports canceled, as it should.
			if _, err := stream.Receive(); connect.CodeOf(err) != connect.CodeCanceled {
				t.Fatalf("client Receive after cancel: %v", err)
			}

			var res result
			select {
			case res = <-results:
			case <-time.After(10 * time.Second):
				t.Fatal("handler did not finish")
			}
			if res.ctxErr == nil {
				t.Errorf("property C15 expects the handler's context to be cancelled after the call's context was; observed ctx.Err() == nil")
			}
			if res.receiveErr == nil {
				t.Errorf("property C15: handler Receive after cancellation must not succeed; observed success")
			} else if got := connect.CodeOf(res.receiveErr); got != connect.CodeCanceled {
				t.Errorf("property C15 expects the handler's Receive that fails after the call was cancelled (handler ctx.Err() = %v) to fail with code canceled; observed code %v (error: %v)",
					res.ctxErr, got, res.receiveErr)
			}
			if res.sendErr != nil {
				if got := connect.CodeOf(res.sendErr); got != connect.CodeCanceled {
					t.Errorf("property C15 expects the handler's Send that fails after the call was cancelled (handler ctx.Err() = %v) to fail with code canceled; observed code %v (error: %v)",
						res.ctxErr, got, res.sendErr)
				}
			} else {
				t.Logf("handler Send never failed")
			}
		})
	}
}
