package connect_test

import (
	"context"
	"net/http"
	"net/http/httptest"
	"testing"
	"time"

	"github.com/bufbuild/connect-go"
	pingv1 "github.com/bufbuild/connect-go/internal/gen/connect/ping/v1"
)

// C15: a call whose context is cancelled fails with canceled, a call whose
// deadline passes fails with deadline_exceeded ("respectively").
//
// The context's cause is a context error of the other kind:
//   - context.WithCancelCause + cancel(context.Cause(other)) where other timed
//     out - the merge pattern from the context.AfterFunc documentation. The
//     call's context is cancelled (ctx.Err() == context.Canceled, no deadline).
//   - context.WithTimeoutCause(..., context.Canceled): the deadline passes
//     (ctx.Err() == context.DeadlineExceeded).
//
// Over HTTP/1.1 net/http fails the round trip / body read with the cause.
// wrapIfContextDone classifies by that error first and looks at the call's
// context only if the error isn't a context error, so the call reports the
// code of the cause; operations that start after the context ended report
// the other code (duplexHTTPCall.Read / Write look at ctx.Err()).
func TestAuditC15sFinding4(t *testing.T) {
	t.Parallel()
	newServer := func(t *testing.T) *httptest.Server {
		t.Helper()
		mux := http.NewServeMux()
		mux.Handle("/connect.ping.v1.PingService/Ping", connect.NewUnaryHandler(
			"/connect.ping.v1.PingService/Ping",
			func(ctx context.Context, _ *connect.Request[pingv1.PingRequest]) (*connect.Response[pingv1.PingResponse], error) {
				select {
				case <-ctx.Done():
				case <-time.After(3 * time.Second):
				}
				return connect.NewResponse(&pingv1.PingResponse{}), nil
			},
		))
		mux.Handle("/connect.ping.v1.PingService/CountUp", connect.NewServerStreamHandler(
			"/connect.ping.v1.PingService/CountUp",
			func(ctx context.Context, _ *connect.Request[pingv1.CountUpRequest], stream *connect.ServerStream[pingv1.CountUpResponse]) error {
				if err := stream.Send(&pingv1.CountUpResponse{Number: 1}); err != nil {
					return err
				}
				select {
				case <-ctx.Done():
				case <-time.After(3 * time.Second):
				}
				return nil
			},
		))
		server := httptest.NewServer(mux) // HTTP/1.1
		t.Cleanup(server.Close)
		return server
	}
	type ctxMaker func() (context.Context, context.CancelFunc)
	cancelledWithDeadlineCause := func() (context.Context, context.CancelFunc) {
		// merge pattern: the other context timed out
		other, cancelOther := context.WithTimeout(context.Background(), 150*time.Millisecond)
		ctx, cancel := context.WithCancelCause(context.Background())
		stop := context.AfterFunc(other, func() { cancel(context.Cause(other)) })
		return ctx, func() { stop(); cancelOther(); cancel(nil) }
	}
	expiredWithCanceledCause := func() (context.Context, context.CancelFunc) {
		return context.WithTimeoutCause(context.Background(), 150*time.Millisecond, context.Canceled)
	}
	for _, tc := range []struct {
		name    string
		makeCtx ctxMaker
		want    connect.Code
		opts    []connect.ClientOption
	}{
		{"connect/cancelled_cause_deadline", cancelledWithDeadlineCause, connect.CodeCanceled, nil},
		{"connect/expired_cause_canceled", expiredWithCanceledCause, connect.CodeDeadlineExceeded, nil},
		{"grpcweb/cancelled_cause_deadline", cancelledWithDeadlineCause, connect.CodeCanceled, []connect.ClientOption{connect.WithGRPCWeb()}},
		{"grpcweb/expired_cause_canceled", expiredWithCanceledCause, connect.CodeDeadlineExceeded, []connect.ClientOption{connect.WithGRPCWeb()}},
	} {
		tc := tc
		t.Run(tc.name+"/unary_waiting_for_response", func(t *testing.T) {
			t.Parallel()
			server := newServer(t)
			client := connect.NewClient[pingv1.PingRequest, pingv1.PingResponse](
				server.Client(), server.URL+"/connect.ping.v1.PingService/Ping", tc.opts...)
			ctx, cancel := tc.makeCtx()
			defer cancel()
			_, err := client.CallUnary(ctx, connect.NewRequest(&pingv1.PingRequest{}))
			if err == nil {
				t.Fatalf("property C15 expects failure with %v; observed success", tc.want)
			}
			if got := connect.CodeOf(err); got != tc.want {
				t.Errorf("property C15 expects code %v for a unary call whose context ended with ctx.Err() = %q while waiting for the response; observed code %v (error: %v)",
					tc.want, ctx.Err(), got, err)
			}
		})
		t.Run(tc.name+"/server_stream_blocked_receive", func(t *testing.T) {
			t.Parallel()
			server := newServer(t)
			client := connect.NewClient[pingv1.CountUpRequest, pingv1.CountUpResponse](
				server.Client(), server.URL+"/connect.ping.v1.PingService/CountUp", tc.opts...)
			ctx, cancel := tc.makeCtx()
			defer cancel()
			stream, err := client.CallServerStream(ctx, connect.NewRequest(&pingv1.CountUpRequest{Number: 1}))
			if err != nil {
				t.Fatalf("setup: %v", err)
			}
			defer stream.Close()
			if !stream.Receive() {
				t.Fatalf("setup: first receive: %v", stream.Err())
			}
			if stream.Receive() { // blocks until the context ends
				t.Fatalf("property C15 expects failure with %v; observed a message", tc.want)
			}
			if got := connect.CodeOf(stream.Err()); got != tc.want {
				t.Errorf("property C15 expects code %v for a Receive that was blocked when the context ended with ctx.Err() = %q; observed code %v (error: %v)",
					tc.want, ctx.Err(), got, stream.Err())
			}
		})
	}
}
