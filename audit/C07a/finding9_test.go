package connect_test

import (
	"bytes"
	"context"
	"net/http"
	"net/http/httptest"
	"testing"
	"time"

	connect "github.com/bufbuild/connect-go"
	"google.golang.org/protobuf/types/known/anypb"
	"google.golang.org/protobuf/types/known/emptypb"
)

// C07: for any HTTP request whatsoever, serving it TERMINATES.
//
// With the JSON codec (registered by default on every handler) and a request
// message type that contains a google.protobuf.Any (here the request type is Any
// itself; a field of type Any anywhere in the message behaves the same), the
// 5-byte undecodable payload {"":} makes protoJSONCodec.Unmarshal spin forever
// inside protojson (the module pins google.golang.org/protobuf v1.28.0, whose
// skipJSONValue never sees the end of the object). ServeHTTP never returns and
// no response is produced; the goroutine burns a CPU until the process exits.
func TestAuditC07aFinding9(t *testing.T) {
	t.Parallel()
	handler := connect.NewUnaryHandler(
		"/audit.v1.AuditService/TakesAny",
		func(_ context.Context, _ *connect.Request[anypb.Any]) (*connect.Response[emptypb.Empty], error) {
			return connect.NewResponse(&emptypb.Empty{}), nil
		},
	)
	cases := []struct {
		name, contentType string
		body              []byte
	}{
		{"connect_unary_json", "application/json", []byte(`{"":}`)},
		{"grpc_json", "application/grpc+json", append([]byte{0, 0, 0, 0, 5}, `{"":}`...)},
	}
	for _, tc := range cases {
		tc := tc
		t.Run(tc.name, func(t *testing.T) {
			recorder := httptest.NewRecorder()
			done := make(chan struct{})
			go func() {
				defer close(done)
				request := httptest.NewRequest(http.MethodPost, "/audit.v1.AuditService/TakesAny", bytes.NewReader(tc.body))
				request.ProtoMajor, request.ProtoMinor, request.Proto = 2, 0, "HTTP/2.0"
				request.Header.Set("Content-Type", tc.contentType)
				handler.ServeHTTP(recorder, request)
			}()
			select {
			case <-done:
				t.Logf("terminated: status=%d header=%v body=%q", recorder.Code, recorder.Header(), recorder.Body.String())
			case <-time.After(3 * time.Second):
				t.Fatalf("C07 violated: expected ServeHTTP to terminate and report the undecodable payload %q as "+
					"invalid_argument; observed: ServeHTTP still running (spinning in protojson) after 3s, no response written",
					tc.body)
			}
		})
	}
}
