package connect_test

import (
	"bytes"
	"context"
	"io"
	"net/http"
	"net/http/httptest"
	"strings"
	"testing"

	connect "github.com/bufbuild/connect-go"
	pingv1 "github.com/bufbuild/connect-go/internal/gen/connect/ping/v1"
)

// C07: invalid timeouts reach the peer as the documented error code
// (invalid_argument), never as success.
//
// Connect:  Connect-Timeout-Ms is "a positive integer as an ASCII string of at
//
//	most 10 digits".
//
// gRPC:     grpc-timeout is TimeoutValue TimeoutUnit, TimeoutValue being "a
//
//	positive integer as an ASCII string of at most 8 digits".
//
// Both parsers hand the text to strconv.ParseInt, which also accepts a sign, and
// the gRPC parser bounds the numeric value instead of the number of digits. So
// signed values and over-long digit strings are accepted, user code runs, and
// the RPC succeeds.
func TestAuditC07aFinding5(t *testing.T) {
	t.Parallel()
	userCalls := 0
	handler := connect.NewClientStreamHandler(
		"/connect.ping.v1.PingService/Sum",
		func(_ context.Context, stream *connect.ClientStream[pingv1.SumRequest]) (*connect.Response[pingv1.SumResponse], error) {
			userCalls++
			for stream.Receive() {
			}
			if err := stream.Err(); err != nil {
				return nil, err
			}
			return connect.NewResponse(&pingv1.SumResponse{}), nil
		},
	)
	cases := []struct {
		name, contentType, header, value string
	}{
		{"connect_negative", "application/connect+proto", "Connect-Timeout-Ms", "-1"},
		{"connect_plus_sign", "application/connect+proto", "Connect-Timeout-Ms", "+1000"},
		{"grpc_plus_sign", "application/grpc", "Grpc-Timeout", "+5S"},
		{"grpc_minus_zero", "application/grpc", "Grpc-Timeout", "-0S"},
		{"grpc_ten_digits", "application/grpc", "Grpc-Timeout", "0000000005S"},
		{"grpc_web_plus_sign", "application/grpc-web", "Grpc-Timeout", "+5S"},
	}
	for _, tc := range cases {
		tc := tc
		t.Run(tc.name, func(t *testing.T) {
			before := userCalls
			request := httptest.NewRequest(http.MethodPost, "/connect.ping.v1.PingService/Sum", bytes.NewReader(nil))
			request.ProtoMajor, request.ProtoMinor, request.Proto = 2, 0, "HTTP/2.0"
			request.Header.Set("Content-Type", tc.contentType)
			request.Header.Set(tc.header, tc.value)
			recorder := httptest.NewRecorder()
			handler.ServeHTTP(recorder, request)
			response := recorder.Result()
			body, _ := io.ReadAll(response.Body) // must drain before reading trailers
			var outcome string
			if strings.HasPrefix(tc.contentType, "application/connect") {
				idx := bytes.LastIndex(body, []byte("\x02\x00\x00\x00"))
				if idx < 0 {
					t.Fatalf("no EndStream envelope in %q", body)
				}
				outcome = "EndStream " + string(body[idx+5:])
				if strings.Contains(outcome, `"invalid_argument"`) {
					return
				}
			} else {
				status := response.Header.Get("Grpc-Status")
				if status == "" {
					status = response.Trailer.Get("Grpc-Status")
				}
				if status == "" {
					lower := strings.ToLower(string(body))
					if i := strings.LastIndex(lower, "grpc-status: "); i >= 0 {
						status = strings.TrimSpace(strings.SplitN(lower[i+len("grpc-status: "):], "\r\n", 2)[0])
					}
				}
				outcome = "grpc-status " + status
				if status == "3" {
					return
				}
			}
			t.Fatalf("C07 violated: %s: %q is not a valid timeout; expected the call to be rejected with "+
				"invalid_argument without running user code; observed %s (user code ran %d time(s)), body %q",
				tc.header, tc.value, outcome, userCalls-before, body)
		})
	}
}
