package connect_test

import (
	"bytes"
	"context"
	"encoding/binary"
	"io"
	"net/http"
	"net/http/httptest"
	"strings"
	"testing"

	connect "github.com/bufbuild/connect-go"
	pingv1 "github.com/bufbuild/connect-go/internal/gen/connect/ping/v1"
)

// C07: the response must be well-formed for the protocol selected by the
// Content-Type. For gRPC-Web (PROTOCOL-WEB.md): "use lower-case header/trailer
// names" - the trailers block in the body is an HTTP/1-style header block whose
// names must be lower case (browser clients look up "grpc-status" verbatim).
// grpcMarshaler.MarshalWebTrailers serializes the trailers with
// http.Header.Write, i.e. with canonical MIME capitalisation.
func TestAuditC07aFinding8(t *testing.T) {
	t.Parallel()
	handler := connect.NewUnaryHandler(
		"/connect.ping.v1.PingService/Ping",
		func(_ context.Context, req *connect.Request[pingv1.PingRequest]) (*connect.Response[pingv1.PingResponse], error) {
			return connect.NewResponse(&pingv1.PingResponse{Number: req.Msg.Number}), nil
		},
	)
	request := httptest.NewRequest(http.MethodPost, "/connect.ping.v1.PingService/Ping", bytes.NewReader(make([]byte, 5)))
	request.Header.Set("Content-Type", "application/grpc-web+proto")
	recorder := httptest.NewRecorder()
	handler.ServeHTTP(recorder, request)
	body, _ := io.ReadAll(recorder.Result().Body)

	// Walk the envelopes and find the trailers frame (MSB of the flag byte set).
	var trailers []byte
	for rest := body; len(rest) >= 5; {
		size := int(binary.BigEndian.Uint32(rest[1:5]))
		if len(rest) < 5+size {
			t.Fatalf("truncated envelope in %q", body)
		}
		if rest[0]&0x80 != 0 {
			trailers = rest[5 : 5+size]
		}
		rest = rest[5+size:]
	}
	if trailers == nil {
		t.Fatalf("no gRPC-Web trailers frame in %q", body)
	}
	for _, line := range strings.Split(strings.TrimRight(string(trailers), "\r\n"), "\r\n") {
		name := strings.SplitN(line, ":", 2)[0]
		if name != strings.ToLower(name) {
			t.Fatalf("C07 violated: gRPC-Web requires lower-case trailer names in the body trailers frame "+
				"(expected e.g. \"grpc-status: 0\"); observed trailer name %q in frame %q", name, trailers)
		}
	}
}
