package connect_test

import (
	"bytes"
	"context"
	"io"
	"net/http"
	"net/http/httptest"
	"testing"

	connect "github.com/bufbuild/connect-go"
	pingv1 "github.com/bufbuild/connect-go/internal/gen/connect/ping/v1"
)

// C07: unknown compression must be rejected with a response that is well-formed
// for the selected protocol.
//
// When compression negotiation fails, negotiateCompression returns "" for the
// response compression; the protocol handlers only compare against "identity",
// so they emit the response-encoding header with an EMPTY value
// ("Grpc-Encoding: " / "Connect-Content-Encoding: "). An empty string is not a
// content-coding token in either protocol grammar.
func TestAuditC07aFinding7(t *testing.T) {
	t.Parallel()
	handler := connect.NewClientStreamHandler(
		"/connect.ping.v1.PingService/Sum",
		func(_ context.Context, stream *connect.ClientStream[pingv1.SumRequest]) (*connect.Response[pingv1.SumResponse], error) {
			for stream.Receive() {
			}
			return connect.NewResponse(&pingv1.SumResponse{}), stream.Err()
		},
	)
	cases := []struct {
		name, contentType, requestHeader, responseHeader string
	}{
		{"grpc", "application/grpc", "Grpc-Encoding", "Grpc-Encoding"},
		{"grpc_web", "application/grpc-web", "Grpc-Encoding", "Grpc-Encoding"},
		{"connect_streaming", "application/connect+proto", "Connect-Content-Encoding", "Connect-Content-Encoding"},
	}
	for _, tc := range cases {
		tc := tc
		t.Run(tc.name, func(t *testing.T) {
			request := httptest.NewRequest(http.MethodPost, "/connect.ping.v1.PingService/Sum", bytes.NewReader(nil))
			request.ProtoMajor, request.ProtoMinor, request.Proto = 2, 0, "HTTP/2.0"
			request.Header.Set("Content-Type", tc.contentType)
			request.Header.Set(tc.requestHeader, "zstd-not-registered")
			recorder := httptest.NewRecorder()
			handler.ServeHTTP(recorder, request)
			response := recorder.Result()
			_, _ = io.ReadAll(response.Body)
			values, present := response.Header[tc.responseHeader]
			t.Logf("response header: %v", response.Header)
			if present {
				for _, value := range values {
					if value == "" {
						t.Fatalf("C07 violated: the unknown-compression error response must be well-formed: %s must be "+
							"absent or name a content-coding (identity, gzip, ...); observed %s: %q (empty value)",
							tc.responseHeader, tc.responseHeader, values)
					}
				}
			}
		})
	}
}
