package connect_test

import (
	"bytes"
	"compress/gzip"
	"context"
	"encoding/json"
	"errors"
	"fmt"
	"io"
	"net/http"
	"net/http/httptest"
	"testing"

	connect "github.com/bufbuild/connect-go"
	pingv1 "github.com/bufbuild/connect-go/internal/gen/connect/ping/v1"
)

// auditC07vF3Decompressor is a gzip decompressor whose Close reports a problem
// with the compressed stream (the Decompressor interface documents that Close
// "may return an error") using an error that wraps io.EOF.
type auditC07vF3Decompressor struct {
	*gzip.Reader
}

func (d *auditC07vF3Decompressor) Close() error {
	return fmt.Errorf("checksum block missing: %w", io.EOF)
}

// compressionPool.Decompress passes the decompressor's Read and Reset errors
// through hideEOF, but wraps the error from Close with a bare %w ("recycle
// decompressor: %w"). A message whose decompression fails that way therefore
// reads as errors.Is(err, io.EOF), i.e. as the clean end of the request: the
// message is dropped silently and the peer is told the call succeeded.
func TestAuditC07vFinding3(t *testing.T) {
	option := connect.WithCompression(
		"gz2",
		func() connect.Decompressor { return &auditC07vF3Decompressor{&gzip.Reader{}} },
		func() connect.Compressor { return gzip.NewWriter(io.Discard) },
	)
	var compressed bytes.Buffer
	writer := gzip.NewWriter(&compressed)
	_, _ = writer.Write([]byte{0x08, 0x05}) // PingRequest{number: 5}
	_ = writer.Close()
	envelope := append([]byte{1, 0, 0, 0, byte(compressed.Len())}, compressed.Bytes()...)

	var received []int64
	handler := connect.NewBidiStreamHandler(
		"/connect.ping.v1.PingService/CumSum",
		func(_ context.Context, stream *connect.BidiStream[pingv1.PingRequest, pingv1.PingResponse]) error {
			for {
				msg, err := stream.Receive()
				if errors.Is(err, io.EOF) {
					return nil // documented way to detect the end of the request
				}
				if err != nil {
					return err
				}
				received = append(received, msg.Number)
			}
		},
		option,
	)
	request := httptest.NewRequest(http.MethodPost, "http://example.com/connect.ping.v1.PingService/CumSum", bytes.NewReader(envelope))
	request.ProtoMajor, request.ProtoMinor, request.Proto = 2, 0, "HTTP/2.0"
	request.Header.Set("Content-Type", "application/connect+proto")
	request.Header.Set("Connect-Content-Encoding", "gz2")
	recorder := httptest.NewRecorder()
	handler.ServeHTTP(recorder, request)
	body := recorder.Body.Bytes()
	if len(body) < 5 || body[0]&0b10 == 0 {
		t.Fatalf("expected a single end-of-stream envelope, got %q", body)
	}
	payload := body[5:]
	if body[0]&1 == 1 {
		reader, err := gzip.NewReader(bytes.NewReader(payload))
		if err != nil {
			t.Fatal(err)
		}
		payload, _ = io.ReadAll(reader)
	}
	var end struct {
		Error *struct {
			Code    string `json:"code"`
			Message string `json:"message"`
		} `json:"error"`
	}
	if err := json.Unmarshal(payload, &end); err != nil {
		t.Fatalf("end-of-stream message %q: %v", payload, err)
	}
	if end.Error == nil && len(received) == 0 {
		t.Errorf(
			"the only request message could not be decompressed (the decompressor reported an error): property expects an error code to reach the peer, never success; observed end-of-stream message %s without an error, and the handler received %v",
			payload, received,
		)
	}
}
