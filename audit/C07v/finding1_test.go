package connect_test

import (
	"bufio"
	"bytes"
	"context"
	"fmt"
	"io"
	"net"
	"net/http"
	"net/http/httptest"
	"testing"

	connect "github.com/bufbuild/connect-go"
	pingv1 "github.com/bufbuild/connect-go/internal/gen/connect/ping/v1"
)

// A gRPC (application/grpc) request made over HTTP/1.0 gets "200 OK" with no
// Grpc-Status anywhere: the handler puts the status into HTTP trailers, which
// net/http can only send with chunked encoding, i.e. from HTTP/1.1 on. The
// error code (here: unknown compression -> unimplemented, and an invalid
// timeout -> invalid_argument) never reaches the peer, and the response is not
// a well-formed gRPC response. The same request over HTTP/1.1 is answered
// correctly, which the test checks as a control.
func TestAuditC07vFinding1(t *testing.T) {
	handler := connect.NewUnaryHandler(
		"/connect.ping.v1.PingService/Ping",
		func(_ context.Context, _ *connect.Request[pingv1.PingRequest]) (*connect.Response[pingv1.PingResponse], error) {
			return connect.NewResponse(&pingv1.PingResponse{Number: 42}), nil
		},
	)
	server := httptest.NewServer(handler)
	defer server.Close()

	exchange := func(version, extraHeader string) (*http.Response, string) {
		t.Helper()
		conn, err := net.Dial("tcp", server.Listener.Addr().String())
		if err != nil {
			t.Fatal(err)
		}
		defer conn.Close()
		body := "\x00\x00\x00\x00\x00" // one empty, uncompressed message
		fmt.Fprintf(conn,
			"POST /connect.ping.v1.PingService/Ping %s\r\nHost: example.com\r\nContent-Type: application/grpc\r\n%sContent-Length: %d\r\nConnection: close\r\n\r\n%s",
			version, extraHeader, len(body), body,
		)
		raw, err := io.ReadAll(conn)
		if err != nil {
			t.Fatal(err)
		}
		response, err := http.ReadResponse(bufio.NewReader(bytes.NewReader(raw)), nil)
		if err != nil {
			t.Fatalf("%s: unreadable response %q: %v", version, raw, err)
		}
		_, _ = io.Copy(io.Discard, response.Body) // trailers are available after the body
		status := response.Trailer.Get("Grpc-Status")
		if status == "" {
			status = response.Header.Get("Grpc-Status")
		}
		t.Logf("%s %q -> %q", version, extraHeader, raw)
		return response, status
	}

	cases := []struct {
		name, header, want string
	}{
		{"unknown compression", "Grpc-Encoding: bogus\r\n", "12"},
		{"invalid timeout", "Grpc-Timeout: soon\r\n", "3"},
		{"valid call", "", "0"},
	}
	for _, version := range []string{"HTTP/1.1", "HTTP/1.0"} {
		for _, testCase := range cases {
			response, status := exchange(version, testCase.header)
			if status != testCase.want {
				t.Errorf(
					"%s, application/grpc, %s: property expects a well-formed gRPC response carrying grpc-status %s; observed HTTP %d with grpc-status %q (headers %v, trailers %v)",
					version, testCase.name, testCase.want, response.StatusCode, status, response.Header, response.Trailer,
				)
			}
		}
	}
}
