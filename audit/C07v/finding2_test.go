package connect_test

import (
	"context"
	"fmt"
	"io"
	"net/http"
	"net/http/httptest"
	"testing"

	connect "github.com/bufbuild/connect-go"
	pingv1 "github.com/bufbuild/connect-go/internal/gen/connect/ping/v1"
)

// auditC07vF2Body yields its data and then fails every Read with err.
type auditC07vF2Body struct {
	data []byte
	err  error
}

func (b *auditC07vF2Body) Read(p []byte) (int, error) {
	if len(b.data) == 0 {
		return 0, b.err
	}
	n := copy(p, b.data)
	b.data = b.data[n:]
	return n, nil
}

func (b *auditC07vF2Body) Close() error { return nil }

// The request body breaks off 3 bytes into the 5-byte prefix of an envelope,
// and the transport (or a body-wrapping middleware) reports that with an error
// that wraps io.EOF rather than with the bare sentinel. envelopeReader.Read
// wraps that error with %w ("protocol error: incomplete envelope: %w"), so the
// truncated envelope reads as errors.Is(err, io.EOF): ClientStream.Err(), the
// usual BidiStream loop and expectEndOfRequest all take it for the clean end
// of the request, and the peer is told the call succeeded.
func TestAuditC07vFinding2(t *testing.T) {
	brokenTransport := fmt.Errorf("read request body: connection lost: %w", io.EOF)
	// one good message {number: 5} followed by 3 bytes of the next prefix
	body := []byte{0, 0, 0, 0, 2, 0x08, 0x05, 0, 0, 0}

	serve := func(handler http.Handler, contentType string) *http.Response {
		request := httptest.NewRequest(http.MethodPost, "http://example.com/connect.ping.v1.PingService/X", nil)
		request.Body = &auditC07vF2Body{data: append([]byte(nil), body...), err: brokenTransport}
		request.ProtoMajor, request.ProtoMinor, request.Proto = 2, 0, "HTTP/2.0"
		request.Header.Set("Content-Type", contentType)
		recorder := httptest.NewRecorder()
		handler.ServeHTTP(recorder, request)
		return recorder.Result()
	}

	t.Run("client stream", func(t *testing.T) {
		var received []int64
		handler := connect.NewClientStreamHandler(
			"/connect.ping.v1.PingService/Sum",
			func(_ context.Context, stream *connect.ClientStream[pingv1.PingRequest]) (*connect.Response[pingv1.PingResponse], error) {
				for stream.Receive() {
					received = append(received, stream.Msg().Number)
				}
				if err := stream.Err(); err != nil {
					return nil, err
				}
				return connect.NewResponse(&pingv1.PingResponse{}), nil
			},
		)
		response := serve(handler, "application/grpc")
		if status := response.Trailer.Get("Grpc-Status"); status == "0" || status == "" {
			t.Errorf(
				"request ended 3 bytes into an envelope prefix (malformed framing): property expects an error status, never success; observed grpc-status %q, grpc-message %q, handler received %v",
				status, response.Trailer.Get("Grpc-Message"), received,
			)
		}
	})

	t.Run("unary", func(t *testing.T) {
		calls := 0
		handler := connect.NewUnaryHandler(
			"/connect.ping.v1.PingService/Ping",
			func(_ context.Context, _ *connect.Request[pingv1.PingRequest]) (*connect.Response[pingv1.PingResponse], error) {
				calls++
				return connect.NewResponse(&pingv1.PingResponse{}), nil
			},
		)
		response := serve(handler, "application/grpc-web")
		body, _ := io.ReadAll(response.Body)
		status := response.Header.Get("Grpc-Status")
		if calls != 0 || status == "" || status == "0" {
			t.Errorf(
				"unary request = one message + 3 stray bytes + transport failure (malformed framing): property expects an error status and user code not to run; observed user code ran %d time(s), grpc-status header %q, body %q",
				calls, status, body,
			)
		}
	})
}
