package connect_test

import (
	"context"
	"errors"
	"net/http"
	"net/http/httptest"
	"testing"

	connect "github.com/bufbuild/connect-go"
	pingv1 "github.com/bufbuild/connect-go/internal/gen/connect/ping/v1"
	"github.com/bufbuild/connect-go/internal/gen/connect/ping/v1/pingv1connect"
)

// auditC15yF7Codec decodes nothing: its Unmarshal ends the call's context and
// then fails, which pins the instant of cancellation to "inside Receive, after
// the message's bytes have been read".
type auditC15yF7Codec struct {
	cancel context.CancelFunc
}

func (c *auditC15yF7Codec) Name() string { return "proto" }

func (c *auditC15yF7Codec) Marshal(any) ([]byte, error) { return []byte{}, nil }

func (c *auditC15yF7Codec) Unmarshal([]byte, any) error {
	c.cancel()
	return errors.New("payload is damaged")
}

// TestAuditC15yFinding7: the call's context is cancelled while Receive is
// decoding a message, and the decoding fails. On the sending side the library
// reports canceled for that instant ("whatever went wrong, once the context is
// done that's why the call fails", Send wraps Marshal errors accordingly);
// Receive reports invalid_argument.
func TestAuditC15yFinding7(t *testing.T) {
	// A server that answers every request with one enveloped one-byte message
	// and leaves the stream at that.
	server := httptest.NewUnstartedServer(http.HandlerFunc(func(w http.ResponseWriter, r *http.Request) {
		w.Header().Set("Content-Type", r.Header.Get("Content-Type"))
		w.WriteHeader(http.StatusOK)
		_, _ = w.Write([]byte{0, 0, 0, 0, 1, 8})
	}))
	server.EnableHTTP2 = true
	server.StartTLS()
	defer server.Close()

	protocols := map[string][]connect.ClientOption{
		"connect": nil,
		"grpc":    {connect.WithGRPC()},
		"grpcweb": {connect.WithGRPCWeb()},
	}
	for protocol, opts := range protocols {
		opts := opts
		t.Run(protocol+"/server_stream", func(t *testing.T) {
			ctx, cancel := context.WithCancel(context.Background())
			defer cancel()
			opts := append(opts[:len(opts):len(opts)], connect.WithCodec(&auditC15yF7Codec{cancel: cancel}))
			client := pingv1connect.NewPingServiceClient(server.Client(), server.URL, opts...)
			stream, err := client.CountUp(ctx, connect.NewRequest(&pingv1.CountUpRequest{}))
			if err != nil {
				t.Fatalf("setup: CountUp: %v", err)
			}
			if stream.Receive() {
				t.Fatalf("setup: Receive succeeded")
			}
			if ctx.Err() == nil {
				t.Fatalf("setup: context should have been cancelled during Receive")
			}
			if code := connect.CodeOf(stream.Err()); code != connect.CodeCanceled {
				t.Errorf("C15 expects a Receive that fails after the call's context was cancelled (here: during the Receive, "+
					"while decoding) to fail with code canceled; observed code %v (%v), ctx.Err() = %v",
					code, stream.Err(), ctx.Err())
			}
		})
		t.Run(protocol+"/unary", func(t *testing.T) {
			ctx, cancel := context.WithCancel(context.Background())
			defer cancel()
			opts := append(opts[:len(opts):len(opts)], connect.WithCodec(&auditC15yF7Codec{cancel: cancel}))
			client := pingv1connect.NewPingServiceClient(server.Client(), server.URL, opts...)
			_, err := client.Ping(ctx, connect.NewRequest(&pingv1.PingRequest{}))
			if err == nil {
				t.Fatalf("setup: Ping succeeded")
			}
			if ctx.Err() == nil {
				t.Fatalf("setup: context should have been cancelled while the response was decoded")
			}
			if code := connect.CodeOf(err); code != connect.CodeCanceled {
				t.Errorf("C15 expects a unary call that fails after its context was cancelled (here: while decoding the "+
					"response) to fail with code canceled; observed code %v (%v), ctx.Err() = %v", code, err, ctx.Err())
			}
		})
	}
}
