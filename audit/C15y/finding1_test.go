package connect_test

import (
	"context"
	"errors"
	"io"
	"net/http"
	"net/http/httptest"
	"strings"
	"testing"
	"time"

	connect "github.com/bufbuild/connect-go"
	pingv1 "github.com/bufbuild/connect-go/internal/gen/connect/ping/v1"
	"github.com/bufbuild/connect-go/internal/gen/connect/ping/v1/pingv1connect"
)

// auditC15yF1Server answers the first request message with one response
// message (so that the client has the response headers while its request
// body is still open), then does nothing but watch its context.
type auditC15yF1Server struct {
	pingv1connect.UnimplementedPingServiceHandler

	ready     chan struct{} // handler has sent its first response
	cancelled chan error    // handler's ctx.Err() once the context is done
	release   chan struct{} // closed by the test to let the handler go
	// waitInReceive makes the handler wait for the next request message (as an
	// echo-style handler does) rather than watch its context.
	waitInReceive bool
}

func (s *auditC15yF1Server) CumSum(
	ctx context.Context,
	stream *connect.BidiStream[pingv1.CumSumRequest, pingv1.CumSumResponse],
) error {
	if _, err := stream.Receive(); err != nil {
		return err
	}
	if err := stream.Send(&pingv1.CumSumResponse{Sum: 1}); err != nil {
		return err
	}
	close(s.ready)
	if s.waitInReceive {
		_, err := stream.Receive()
		return err
	}
	select {
	case <-ctx.Done():
		s.cancelled <- ctx.Err()
	case <-s.release:
	}
	return ctx.Err()
}

// TestAuditC15yFinding1: on a bidi stream over HTTP/2, once the response
// headers have arrived and while the request side is still open, cancelling
// the call's context has no effect at all until the client starts another
// operation: a Receive or Send that is blocked at that moment stays blocked,
// and the handler's context is never cancelled.
func TestAuditC15yFinding1(t *testing.T) {
	const patience = time.Second
	protocols := map[string][]connect.ClientOption{
		"connect": nil,
		"grpc":    {connect.WithGRPC()},
		"grpcweb": {connect.WithGRPCWeb()},
	}
	// "control_request_closed" is the same as "blocked_receive", except that the
	// client has closed its request side first: there, cancellation works, which
	// shows that the harness can observe it. It passes.
	for _, instant := range []string{"control_request_closed", "between_ops", "between_ops_then_close_response", "blocked_receive", "blocked_send"} {
		for protocol, opts := range protocols {
			instant, opts := instant, opts
			t.Run(instant+"/"+protocol, func(t *testing.T) {
				srv := &auditC15yF1Server{
					ready:     make(chan struct{}),
					cancelled: make(chan error, 1),
					release:   make(chan struct{}),
				}
				mux := http.NewServeMux()
				mux.Handle(pingv1connect.NewPingServiceHandler(srv))
				server := httptest.NewUnstartedServer(mux)
				server.EnableHTTP2 = true
				server.StartTLS()
				defer server.Close()
				defer server.CloseClientConnections()
				defer close(srv.release)

				// The handler only ever decodes the first message, so a client with a
				// request type that has a string field can be used to send big
				// messages (field 1 is "number" in both).
				client := connect.NewClient[pingv1.PingRequest, pingv1.CumSumResponse](
					server.Client(),
					server.URL+"/connect.ping.v1.PingService/CumSum",
					opts...,
				)
				ctx, cancel := context.WithCancel(context.Background())
				defer cancel()
				stream := client.CallBidiStream(ctx)
				if err := stream.Send(&pingv1.PingRequest{Number: 1}); err != nil {
					t.Fatalf("setup: first Send: %v", err)
				}
				if _, err := stream.Receive(); err != nil {
					t.Fatalf("setup: first Receive: %v", err)
				}
				<-srv.ready

				blocked := make(chan error, 1)
				switch instant {
				case "control_request_closed", "blocked_receive":
					if instant == "control_request_closed" {
						if err := stream.CloseRequest(); err != nil {
							t.Fatalf("setup: CloseRequest: %v", err)
						}
					}
					go func() {
						_, err := stream.Receive() // the handler sends nothing more
						blocked <- err
					}()
				case "blocked_send":
					go func() {
						// The handler reads nothing more: this fills the flow-control
						// window and blocks.
						big := strings.Repeat("x", 1<<20)
						var err error
						for i := 0; i < 64 && err == nil; i++ {
							err = stream.Send(&pingv1.PingRequest{Text: big})
						}
						blocked <- err
					}()
				}
				time.Sleep(200 * time.Millisecond) // let the operation block

				cancel() // the call's context is cancelled here

				if instant == "between_ops_then_close_response" {
					// The natural clean-up after giving up on a stream.
					go func() { blocked <- stream.CloseResponse() }()
					select {
					case err := <-blocked:
						if err != nil && connect.CodeOf(err) != connect.CodeCanceled {
							t.Errorf("C15 expects CloseResponse after cancellation to succeed or fail with code canceled; observed %v", err)
						}
					case <-time.After(patience):
						t.Errorf("C15 expects CloseResponse, called after the call's context was cancelled, to return (nil or code canceled); "+
							"observed: still blocked %v after cancel()", patience)
					}
				} else if instant != "between_ops" {
					select {
					case err := <-blocked:
						code := connect.CodeOf(err)
						if err == nil || (code != connect.CodeCanceled && !errors.Is(err, io.EOF)) {
							t.Errorf("C15 expects the operation blocked at cancellation to fail with code canceled; observed %v", err)
						}
					case <-time.After(patience):
						t.Errorf("C15 expects the %s to fail with code canceled once the call's context is cancelled; "+
							"observed: still blocked %v after cancel()", instant, patience)
					}
				}
				select {
				case err := <-srv.cancelled:
					if !errors.Is(err, context.Canceled) {
						t.Errorf("handler context error: expected context.Canceled, observed %v", err)
					}
				case <-time.After(patience):
					t.Errorf("C15 expects the handler's context to be cancelled when the call's context is cancelled (%s); "+
						"observed: handler's ctx.Done() still open %v after cancel()", instant, patience)
				}
			})
		}
	}

	// The same state, with a deadline instead of a cancellation, and a handler
	// that waits for the next request message (an echo-style handler): the
	// client's blocked Receive isn't interrupted when the deadline passes.
	for protocol, opts := range protocols {
		opts := opts
		t.Run("blocked_receive_deadline/"+protocol, func(t *testing.T) {
			srv := &auditC15yF1Server{
				ready:         make(chan struct{}),
				cancelled:     make(chan error, 1),
				release:       make(chan struct{}),
				waitInReceive: true,
			}
			mux := http.NewServeMux()
			mux.Handle(pingv1connect.NewPingServiceHandler(srv))
			server := httptest.NewUnstartedServer(mux)
			server.EnableHTTP2 = true
			server.StartTLS()
			defer server.Close()
			defer server.CloseClientConnections()

			client := connect.NewClient[pingv1.PingRequest, pingv1.CumSumResponse](
				server.Client(),
				server.URL+"/connect.ping.v1.PingService/CumSum",
				opts...,
			)
			const timeout = 500 * time.Millisecond
			ctx, cancel := context.WithTimeout(context.Background(), timeout)
			defer cancel()
			stream := client.CallBidiStream(ctx)
			if err := stream.Send(&pingv1.PingRequest{Number: 1}); err != nil {
				t.Fatalf("setup: first Send: %v", err)
			}
			if _, err := stream.Receive(); err != nil {
				t.Fatalf("setup: first Receive: %v", err)
			}
			blocked := make(chan error, 1)
			go func() {
				_, err := stream.Receive()
				blocked <- err
			}()
			select {
			case err := <-blocked:
				if code := connect.CodeOf(err); code != connect.CodeDeadlineExceeded {
					t.Errorf("C15 expects deadline_exceeded, observed %v", err)
				}
			case <-time.After(timeout + patience):
				t.Errorf("C15 expects a Receive that is blocked when the call's deadline passes to fail with code deadline_exceeded; "+
					"observed: still blocked %v after the deadline", patience)
			}
		})
	}
}
