package connect_test

import (
	"context"
	"io"
	"net/http"
	"net/http/httptest"
	"testing"
	"time"

	connect "github.com/bufbuild/connect-go"
	pingv1 "github.com/bufbuild/connect-go/internal/gen/connect/ping/v1"
	"github.com/bufbuild/connect-go/internal/gen/connect/ping/v1/pingv1connect"
)

// TestAuditC15yFinding5: the response to a streaming call has arrived and is
// a failure the client hasn't looked at yet (here: HTTP 503). The call's
// context is then cancelled. Send, which checks the context first, fails with
// canceled; Receive, which checks the stored response error first, fails
// with unavailable.
func TestAuditC15yFinding5(t *testing.T) {
	server := httptest.NewUnstartedServer(http.HandlerFunc(func(w http.ResponseWriter, r *http.Request) {
		// Take the client's first message (a 5-byte prefix and 2 bytes of
		// payload) before answering, so that its first Send completes.
		var first [7]byte
		_, _ = io.ReadFull(r.Body, first[:])
		w.WriteHeader(http.StatusServiceUnavailable)
	}))
	server.EnableHTTP2 = true
	server.StartTLS()
	defer server.Close()

	protocols := map[string][]connect.ClientOption{
		"connect": nil,
		"grpc":    {connect.WithGRPC()},
		"grpcweb": {connect.WithGRPCWeb()},
	}
	for protocol, opts := range protocols {
		opts := opts
		t.Run(protocol, func(t *testing.T) {
			client := pingv1connect.NewPingServiceClient(server.Client(), server.URL, opts...)
			ctx, cancel := context.WithCancel(context.Background())
			defer cancel()
			stream := client.CumSum(ctx)
			if err := stream.Send(&pingv1.CumSumRequest{Number: 1}); err != nil {
				t.Fatalf("setup: first Send: %v", err)
			}
			time.Sleep(200 * time.Millisecond) // the 503 arrives; no operation reports it

			cancel() // the call's context is cancelled here, between two operations

			if err := stream.Send(&pingv1.CumSumRequest{Number: 2}); connect.CodeOf(err) != connect.CodeCanceled {
				t.Errorf("C15 expects a Send after the cancellation to fail with code canceled; observed %v", err)
			}
			_, err := stream.Receive()
			if err == nil {
				t.Fatalf("Receive succeeded after the cancellation")
			}
			if code := connect.CodeOf(err); code != connect.CodeCanceled {
				t.Errorf("C15 expects a Receive that fails after the call's context was cancelled to fail with code canceled; "+
					"observed code %v (%v), ctx.Err() = %v", code, err, ctx.Err())
			}
		})
	}
}
