package connect_test

import (
	"context"
	"net/http"
	"net/http/httptest"
	"testing"
	"time"

	connect "github.com/bufbuild/connect-go"
	pingv1 "github.com/bufbuild/connect-go/internal/gen/connect/ping/v1"
	"github.com/bufbuild/connect-go/internal/gen/connect/ping/v1/pingv1connect"
)

type auditC15yF4Server struct {
	pingv1connect.UnimplementedPingServiceHandler
}

// Ping waits for its context to end and returns the context's error.
func (auditC15yF4Server) Ping(
	ctx context.Context,
	_ *connect.Request[pingv1.PingRequest],
) (*connect.Response[pingv1.PingResponse], error) {
	<-ctx.Done()
	return nil, ctx.Err()
}

// TestAuditC15yFinding4: a unary Connect handler whose context is cancelled
// returns ctx.Err() (context.Canceled). The response is HTTP 408 with a JSON
// body naming the code "canceled". A client that can't decode that body (here:
// WithReadMaxBytes smaller than the error JSON) falls back to the HTTP status,
// and 408 maps to deadline_exceeded: the handler's "canceled" arrives as
// "deadline_exceeded".
func TestAuditC15yFinding4(t *testing.T) {
	mux := http.NewServeMux()
	mux.Handle(pingv1connect.NewPingServiceHandler(auditC15yF4Server{}))
	// The handler's context is cancelled (not timed out) 50ms into the call,
	// while the client is still there to see the outcome.
	server := httptest.NewUnstartedServer(http.HandlerFunc(func(w http.ResponseWriter, r *http.Request) {
		ctx, cancel := context.WithCancel(r.Context())
		defer cancel()
		time.AfterFunc(50*time.Millisecond, cancel)
		mux.ServeHTTP(w, r.WithContext(ctx))
	}))
	server.EnableHTTP2 = true
	server.StartTLS()
	defer server.Close()

	cases := []struct {
		name string
		opts []connect.ClientOption
	}{
		// Control: passes. The handler's classification reaches the client.
		{name: "control_default_client"},
		// PingResponse messages of up to 32 bytes are all this client wants to read.
		{name: "read_max_bytes_32", opts: []connect.ClientOption{connect.WithReadMaxBytes(32)}},
	}
	for _, testCase := range cases {
		testCase := testCase
		t.Run(testCase.name, func(t *testing.T) {
			client := pingv1connect.NewPingServiceClient(server.Client(), server.URL, testCase.opts...)
			_, err := client.Ping(context.Background(), connect.NewRequest(&pingv1.PingRequest{Number: 1}))
			if err == nil {
				t.Fatalf("expected an error")
			}
			if code := connect.CodeOf(err); code != connect.CodeCanceled {
				t.Errorf("C15 expects a handler that returns its context's error (context.Canceled) to convey that classification "+
					"(canceled) to the client; observed: client got code %v (%v)", code, err)
			}
		})
	}
}
