package connect_test

import (
	"context"
	"net/http"
	"testing"

	connect "github.com/bufbuild/connect-go"
	pingv1 "github.com/bufbuild/connect-go/internal/gen/connect/ping/v1"
	"github.com/bufbuild/connect-go/internal/gen/connect/ping/v1/pingv1connect"
)

// TestAuditC15yFinding6: the context is cancelled (or its deadline has passed)
// before the call. With a client whose construction failed (here: a URL
// without a scheme), every operation fails with the construction error's code
// (unavailable) instead of canceled / deadline_exceeded.
func TestAuditC15yFinding6(t *testing.T) {
	client := pingv1connect.NewPingServiceClient(http.DefaultClient, "example.com/api")

	canceled, cancel := context.WithCancel(context.Background())
	cancel()
	expired, cancelExpired := context.WithTimeout(context.Background(), -1)
	defer cancelExpired()

	cases := []struct {
		name string
		ctx  context.Context
		want connect.Code
	}{
		{"cancelled_before_call", canceled, connect.CodeCanceled},
		{"deadline_passed_before_call", expired, connect.CodeDeadlineExceeded},
	}
	for _, testCase := range cases {
		testCase := testCase
		t.Run(testCase.name, func(t *testing.T) {
			check := func(operation string, err error) {
				t.Helper()
				if err == nil {
					t.Errorf("%s succeeded with a context that is done", operation)
					return
				}
				if code := connect.CodeOf(err); code != testCase.want {
					t.Errorf("C15 expects %s with a context that ended before the call (ctx.Err() = %v) to fail with code %v; "+
						"observed code %v (%v)", operation, testCase.ctx.Err(), testCase.want, code, err)
				}
			}
			_, err := client.Ping(testCase.ctx, connect.NewRequest(&pingv1.PingRequest{}))
			check("CallUnary", err)
			_, err = client.CountUp(testCase.ctx, connect.NewRequest(&pingv1.CountUpRequest{}))
			check("CallServerStream", err)
			bidi := client.CumSum(testCase.ctx)
			check("BidiStreamForClient.Send", bidi.Send(&pingv1.CumSumRequest{}))
			_, err = bidi.Receive()
			check("BidiStreamForClient.Receive", err)
			clientStream := client.Sum(testCase.ctx)
			check("ClientStreamForClient.Send", clientStream.Send(&pingv1.SumRequest{}))
			_, err = clientStream.CloseAndReceive()
			check("ClientStreamForClient.CloseAndReceive", err)
		})
	}
}
