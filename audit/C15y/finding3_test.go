package connect_test

import (
	"context"
	"errors"
	"net/http"
	"net/http/httptest"
	"testing"
	"time"

	connect "github.com/bufbuild/connect-go"
	pingv1 "github.com/bufbuild/connect-go/internal/gen/connect/ping/v1"
	"github.com/bufbuild/connect-go/internal/gen/connect/ping/v1/pingv1connect"
)

type auditC15yF3Result struct {
	sendErr error
	sends   int
	ctxErr  error
}

type auditC15yF3Server struct {
	pingv1connect.UnimplementedPingServiceHandler

	results chan auditC15yF3Result
}

func (s *auditC15yF3Server) CountUp(
	ctx context.Context,
	_ *connect.Request[pingv1.CountUpRequest],
	stream *connect.ServerStream[pingv1.CountUpResponse],
) error {
	if err := stream.Send(&pingv1.CountUpResponse{Number: 1}); err != nil {
		return err
	}
	// Wait until the call is cancelled, then keep sending until Send fails.
	select {
	case <-ctx.Done():
	case <-time.After(5 * time.Second):
		s.results <- auditC15yF3Result{ctxErr: ctx.Err()}
		return nil
	}
	var result auditC15yF3Result
	for result.sends < 10000 && result.sendErr == nil {
		result.sendErr = stream.Send(&pingv1.CountUpResponse{Number: 2})
		result.sends++
	}
	result.ctxErr = ctx.Err()
	s.results <- result
	return ctx.Err()
}

// TestAuditC15yFinding3: the client cancels the call's context; the
// handler's context is cancelled, and the handler's next Sends fail - with
// code unknown ("write envelope: http2: stream closed" / "broken pipe")
// instead of canceled.
func TestAuditC15yFinding3(t *testing.T) {
	protocols := map[string][]connect.ClientOption{
		"connect": nil,
		"grpc":    {connect.WithGRPC()},
		"grpcweb": {connect.WithGRPCWeb()},
	}
	for _, httpVersion := range []string{"h2", "http1"} {
		for protocol, opts := range protocols {
			httpVersion, opts := httpVersion, opts
			t.Run(httpVersion+"/"+protocol, func(t *testing.T) {
				srv := &auditC15yF3Server{results: make(chan auditC15yF3Result, 1)}
				mux := http.NewServeMux()
				mux.Handle(pingv1connect.NewPingServiceHandler(srv))
				server := httptest.NewUnstartedServer(mux)
				server.EnableHTTP2 = httpVersion == "h2"
				server.StartTLS()
				defer server.Close()

				client := pingv1connect.NewPingServiceClient(server.Client(), server.URL, opts...)
				ctx, cancel := context.WithCancel(context.Background())
				defer cancel()
				stream, err := client.CountUp(ctx, connect.NewRequest(&pingv1.CountUpRequest{Number: 1}))
				if err != nil {
					t.Fatalf("setup: CountUp: %v", err)
				}
				if !stream.Receive() {
					t.Fatalf("setup: first Receive: %v", stream.Err())
				}

				cancel() // the call's context is cancelled here

				if stream.Receive() {
					t.Fatalf("client's Receive succeeded after cancellation")
				}
				if code := connect.CodeOf(stream.Err()); code != connect.CodeCanceled {
					t.Fatalf("client's Receive: expected canceled, got %v", stream.Err())
				}
				select {
				case result := <-srv.results:
					if !errors.Is(result.ctxErr, context.Canceled) {
						t.Fatalf("setup: handler's context should be cancelled, ctx.Err() = %v", result.ctxErr)
					}
					if result.sendErr == nil {
						t.Fatalf("setup: none of %d Sends after the cancellation failed", result.sends)
					}
					if code := connect.CodeOf(result.sendErr); code != connect.CodeCanceled {
						t.Errorf("C15 expects an operation that fails after the call's context was cancelled to fail with code canceled; "+
							"observed: handler's Send #%d after the cancellation failed with code %v (%v) while the handler's ctx.Err() = %v",
							result.sends, code, result.sendErr, result.ctxErr)
					}
				case <-time.After(10 * time.Second):
					t.Fatalf("handler didn't report within 10s of the cancellation")
				}
			})
		}
	}
}
