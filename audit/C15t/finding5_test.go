package connect_test

import (
	"context"
	"errors"
	"io"
	"net/http"
	"net/http/httptest"
	"testing"
	"time"

	connect "github.com/bufbuild/connect-go"
	pingv1 "github.com/bufbuild/connect-go/internal/gen/connect/ping/v1"
	"github.com/bufbuild/connect-go/internal/gen/connect/ping/v1/pingv1connect"
)

// C15: when the call's context is cancelled during a blocked Receive, Receive
// fails with canceled and the handler's context is cancelled as well. On a
// bidi stream whose response has started while the request side is still open
// (the ordinary ping-pong situation), nothing watches the context any more:
// net/http's HTTP/2 transport only does so until it has handed out the
// response, resp. once the request body has been written to its end, and
// duplexHTTPCall neither closes the request pipe nor aborts the body read. The
// blocked Receive never returns, no RST_STREAM is sent, and the handler's
// context is never cancelled.

type auditC15tF5Ping struct {
	pingv1connect.UnimplementedPingServiceHandler
	ctxDone chan error
}

func (a *auditC15tF5Ping) CumSum(ctx context.Context, s *connect.BidiStream[pingv1.CumSumRequest, pingv1.CumSumResponse]) error {
	finished := make(chan struct{})
	defer close(finished)
	go func() {
		select {
		case <-ctx.Done():
			a.ctxDone <- ctx.Err()
		case <-finished:
		}
	}()
	for { // the usual echo loop
		msg, err := s.Receive()
		if errors.Is(err, io.EOF) {
			return nil
		}
		if err != nil {
			return err
		}
		if err := s.Send(&pingv1.CumSumResponse{Sum: msg.Number}); err != nil {
			return err
		}
	}
}

func TestAuditC15tFinding5(t *testing.T) {
	for _, proto := range []struct {
		name string
		opts []connect.ClientOption
	}{
		{"connect", nil},
		{"grpc", []connect.ClientOption{connect.WithGRPC()}},
		{"grpcweb", []connect.ClientOption{connect.WithGRPCWeb()}},
	} {
		for _, mode := range []string{"cancel", "deadline"} {
			proto, mode := proto, mode
			t.Run(proto.name+"/"+mode, func(t *testing.T) {
				svc := &auditC15tF5Ping{ctxDone: make(chan error, 1)}
				mux := http.NewServeMux()
				mux.Handle(pingv1connect.NewPingServiceHandler(svc))
				server := httptest.NewUnstartedServer(mux)
				server.EnableHTTP2 = true
				server.StartTLS()
				defer server.Close()
				client := pingv1connect.NewPingServiceClient(server.Client(), server.URL, proto.opts...)
				ctx, cancel := context.WithCancel(context.Background())
				want := connect.CodeCanceled
				if mode == "deadline" {
					ctx, cancel = context.WithTimeout(context.Background(), 300*time.Millisecond)
					want = connect.CodeDeadlineExceeded
				}
				defer cancel()
				stream := client.CumSum(ctx)
				// Whatever happens, let the handler finish at the end.
				defer func() { _ = stream.CloseRequest() }()
				if err := stream.Send(&pingv1.CumSumRequest{Number: 1}); err != nil {
					t.Fatal(err)
				}
				if _, err := stream.Receive(); err != nil {
					t.Fatal(err)
				}
				received := make(chan error, 1)
				go func() {
					_, err := stream.Receive() // blocks: the handler waits for our next message
					received <- err
				}()
				time.Sleep(100 * time.Millisecond)
				if mode == "cancel" {
					cancel()
				}
				<-ctx.Done()
				select {
				case err := <-received:
					if got := connect.CodeOf(err); err == nil || got != want {
						t.Errorf("C15 violated: blocked Receive must fail with code %v once the context has ended; observed %v", want, err)
					}
				case <-time.After(3 * time.Second):
					t.Errorf("C15 violated: the call's context ended (%v) during a blocked Receive, so Receive must fail with code %v; observed: Receive is still blocked 3s later", ctx.Err(), want)
				}
				select {
				case err := <-svc.ctxDone:
					t.Logf("handler's context: %v", err)
				case <-time.After(time.Second):
					t.Errorf("C15 violated: the call's context ended (%v), so the handler's context must be cancelled as well; observed: the handler's context is still live 4s later", ctx.Err())
				}
			})
		}
	}
}
