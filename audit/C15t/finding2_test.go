package connect_test

import (
	"context"
	"net/http"
	"net/http/httptest"
	"testing"
	"time"

	connect "github.com/bufbuild/connect-go"
	pingv1 "github.com/bufbuild/connect-go/internal/gen/connect/ping/v1"
	"github.com/bufbuild/connect-go/internal/gen/connect/ping/v1/pingv1connect"
)

// C15: once the call's context has ended, every operation on the call that
// fails must fail with canceled / deadline_exceeded. Here the operation is the
// handler's Send: the client cancels (or its deadline passes) while the
// handler is running; the handler's context is done and its next Send fails -
// with code unknown ("write envelope: http2: stream closed" or a socket
// error), not canceled / deadline_exceeded.

type auditC15tF2Ping struct {
	pingv1connect.UnimplementedPingServiceHandler
	countUp func(context.Context, *connect.Request[pingv1.CountUpRequest], *connect.ServerStream[pingv1.CountUpResponse]) error
}

func (a *auditC15tF2Ping) CountUp(ctx context.Context, r *connect.Request[pingv1.CountUpRequest], s *connect.ServerStream[pingv1.CountUpResponse]) error {
	return a.countUp(ctx, r, s)
}

func TestAuditC15tFinding2(t *testing.T) {
	type result struct {
		sendErr error
		ctxErr  error
	}
	codeFor := func(ctxErr error) connect.Code {
		if ctxErr == context.DeadlineExceeded { //nolint:errorlint,goerr113
			return connect.CodeDeadlineExceeded
		}
		return connect.CodeCanceled
	}
	for _, proto := range []struct {
		name string
		opts []connect.ClientOption
	}{
		{"connect", nil},
		{"grpc", []connect.ClientOption{connect.WithGRPC()}},
		{"grpcweb", []connect.ClientOption{connect.WithGRPCWeb()}},
	} {
		for _, h2 := range []bool{true, false} {
			for _, mode := range []string{"cancel", "deadline"} {
				proto, h2, mode := proto, h2, mode
				name := proto.name + "/http1/" + mode
				if h2 {
					name = proto.name + "/http2/" + mode
				}
				t.Run(name, func(t *testing.T) {
					results := make(chan result, 1)
					svc := &auditC15tF2Ping{}
					svc.countUp = func(ctx context.Context, _ *connect.Request[pingv1.CountUpRequest], s *connect.ServerStream[pingv1.CountUpResponse]) error {
						if err := s.Send(&pingv1.CountUpResponse{Number: 1}); err != nil {
							return err
						}
						<-ctx.Done() // the client's context has ended
						var err error
						// Over HTTP/1.1 the first writes after the peer went away may
						// still land in a socket buffer: keep sending until one fails.
						for i := 0; i < 1000 && err == nil; i++ {
							err = s.Send(&pingv1.CountUpResponse{Number: 2})
							if err == nil {
								time.Sleep(time.Millisecond)
							}
						}
						results <- result{err, ctx.Err()}
						return err
					}
					mux := http.NewServeMux()
					mux.Handle(pingv1connect.NewPingServiceHandler(svc))
					server := httptest.NewUnstartedServer(mux)
					server.EnableHTTP2 = h2
					server.StartTLS()
					defer server.Close()
					client := pingv1connect.NewPingServiceClient(server.Client(), server.URL, proto.opts...)
					ctx, cancel := context.WithCancel(context.Background())
					if mode == "deadline" {
						ctx, cancel = context.WithTimeout(context.Background(), 300*time.Millisecond)
					}
					defer cancel()
					stream, err := client.CountUp(ctx, connect.NewRequest(&pingv1.CountUpRequest{Number: 1}))
					if err != nil {
						t.Fatal(err)
					}
					if !stream.Receive() {
						t.Fatal(stream.Err())
					}
					if mode == "cancel" {
						cancel()
					}
					for stream.Receive() {
					}
					select {
					case r := <-results:
						if r.sendErr == nil {
							t.Skip("handler's Send kept succeeding")
						}
						want := codeFor(r.ctxErr)
						if got := connect.CodeOf(r.sendErr); got != want {
							t.Errorf("C15 violated: handler's context ended with %q, so the handler's failing Send must report code %v; observed code %v (error: %v)",
								r.ctxErr, want, got, r.sendErr)
						}
					case <-time.After(10 * time.Second):
						t.Fatal("handler did not finish")
					}
				})
			}
		}
	}
}
