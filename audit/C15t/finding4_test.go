package connect_test

import (
	"context"
	"errors"
	"io"
	"net/http"
	"net/http/httptest"
	"testing"
	"time"

	connect "github.com/bufbuild/connect-go"
	pingv1 "github.com/bufbuild/connect-go/internal/gen/connect/ping/v1"
	"github.com/bufbuild/connect-go/internal/gen/connect/ping/v1/pingv1connect"
)

// C15: if the call's context ends while the client is receiving, a Receive that
// fails afterwards must fail with canceled / deadline_exceeded. With the gRPC
// protocol (HTTP trailers), when the context has ended by the time the response
// body reports its end, grpcClientConn.Receive goes looking for the trailers
// with another read, which duplexHTTPCall.Read refuses because of the context;
// the refusal is swallowed, the trailers are taken to be missing, and Receive
// reports "internal: gRPC protocol error: no Grpc-Status trailer".

type auditC15tF4Ping struct {
	pingv1connect.UnimplementedPingServiceHandler
}

func (auditC15tF4Ping) Ping(_ context.Context, r *connect.Request[pingv1.PingRequest]) (*connect.Response[pingv1.PingResponse], error) {
	return connect.NewResponse(&pingv1.PingResponse{Number: r.Msg.Number}), nil
}

// CumSum answers the first message and then waits for its deadline (sent by
// the client along with the request) before it finishes.
func (auditC15tF4Ping) CumSum(ctx context.Context, s *connect.BidiStream[pingv1.CumSumRequest, pingv1.CumSumResponse]) error {
	if _, err := s.Receive(); err != nil {
		return err
	}
	if err := s.Send(&pingv1.CumSumResponse{Sum: 1}); err != nil {
		return err
	}
	<-ctx.Done()
	time.Sleep(100 * time.Millisecond) // by now, the client's deadline has passed as well
	return ctx.Err()
}

// auditC15tF4Client ends the call's context at the moment the response body
// reports its end.
type auditC15tF4Client struct {
	inner  *http.Client
	cancel func()
}

type auditC15tF4Body struct {
	io.ReadCloser
	cancel func()
}

func (b *auditC15tF4Body) Read(p []byte) (int, error) {
	n, err := b.ReadCloser.Read(p)
	if errors.Is(err, io.EOF) {
		b.cancel()
	}
	return n, err
}

func (c *auditC15tF4Client) Do(r *http.Request) (*http.Response, error) {
	res, err := c.inner.Do(r)
	if err != nil {
		return nil, err
	}
	res.Body = &auditC15tF4Body{res.Body, c.cancel}
	return res, nil
}

func TestAuditC15tFinding4(t *testing.T) {
	mux := http.NewServeMux()
	mux.Handle(pingv1connect.NewPingServiceHandler(auditC15tF4Ping{}))
	server := httptest.NewUnstartedServer(mux)
	server.EnableHTTP2 = true
	server.StartTLS()
	defer server.Close()

	t.Run("bidi_deadline_passes_during_blocked_Receive", func(t *testing.T) {
		// Nothing but the real transport: the deadline passes while the client
		// is blocked in Receive; a little later the handler finishes.
		client := pingv1connect.NewPingServiceClient(server.Client(), server.URL, connect.WithGRPC())
		ctx, cancel := context.WithTimeout(context.Background(), 300*time.Millisecond)
		defer cancel()
		stream := client.CumSum(ctx)
		if err := stream.Send(&pingv1.CumSumRequest{Number: 1}); err != nil {
			t.Fatal(err)
		}
		if _, err := stream.Receive(); err != nil {
			t.Fatal(err)
		}
		_, err := stream.Receive() // blocks; the deadline passes meanwhile
		if err == nil {
			t.Fatal("Receive succeeded?")
		}
		if ctx.Err() == nil {
			t.Fatalf("deadline hasn't passed; err = %v", err)
		}
		if got := connect.CodeOf(err); got != connect.CodeDeadlineExceeded {
			t.Errorf("C15 violated: the call's deadline passed during a blocked Receive, so Receive must fail with code deadline_exceeded; observed code %v (error: %v)", got, err)
		}
	})
	t.Run("unary_cancelled_when_body_ends", func(t *testing.T) {
		ctx, cancel := context.WithCancel(context.Background())
		defer cancel()
		client := pingv1connect.NewPingServiceClient(
			&auditC15tF4Client{inner: server.Client(), cancel: cancel},
			server.URL,
			connect.WithGRPC(),
		)
		_, err := client.Ping(ctx, connect.NewRequest(&pingv1.PingRequest{Number: 1}))
		if ctx.Err() == nil {
			t.Fatalf("context hasn't been cancelled; err = %v", err)
		}
		if err == nil {
			return // everything had been received: fine
		}
		if got := connect.CodeOf(err); got != connect.CodeCanceled {
			t.Errorf("C15 violated: the call's context was cancelled while the client was receiving, so a failing call must fail with code canceled; observed code %v (error: %v)", got, err)
		}
	})
}
