package connect_test

import (
	"context"
	"io"
	"net/http"
	"net/http/httptest"
	"testing"

	connect "github.com/bufbuild/connect-go"
	pingv1 "github.com/bufbuild/connect-go/internal/gen/connect/ping/v1"
	"github.com/bufbuild/connect-go/internal/gen/connect/ping/v1/pingv1connect"
)

// C15, read literally: once the call's context has been cancelled (here:
// between two operations), every operation on the call that fails afterwards
// fails with canceled. duplexHTTPCall.Read looks at the error stored for the
// call before it looks at the context, so a Receive issued after the
// cancellation reports a stored non-cancellation error (here the rejected HTTP
// status of the response), while a Send on the same call, at the same time,
// reports canceled.
func TestAuditC15tFinding6(t *testing.T) {
	server := httptest.NewUnstartedServer(http.HandlerFunc(func(w http.ResponseWriter, r *http.Request) {
		w.WriteHeader(http.StatusBadGateway)
		w.(http.Flusher).Flush()
		_, _ = io.Copy(io.Discard, r.Body)
	}))
	server.EnableHTTP2 = true
	server.StartTLS()
	defer server.Close()
	for _, proto := range []struct {
		name string
		opts []connect.ClientOption
	}{
		{"connect", nil},
		{"grpc", []connect.ClientOption{connect.WithGRPC()}},
		{"grpcweb", []connect.ClientOption{connect.WithGRPCWeb()}},
	} {
		proto := proto
		t.Run(proto.name, func(t *testing.T) {
			client := pingv1connect.NewPingServiceClient(server.Client(), server.URL, proto.opts...)
			ctx, cancel := context.WithCancel(context.Background())
			defer cancel()
			stream := client.CumSum(ctx)
			if err := stream.Send(&pingv1.CumSumRequest{Number: 1}); err != nil {
				t.Fatal(err)
			}
			_ = stream.ResponseHeader() // returns once the response is there
			cancel()                    // the context is cancelled between two operations
			sendErr := stream.Send(&pingv1.CumSumRequest{Number: 2})
			if got := connect.CodeOf(sendErr); sendErr == nil || got != connect.CodeCanceled {
				t.Errorf("Send after cancellation: want code canceled, got %v", sendErr)
			}
			_, err := stream.Receive()
			if err == nil {
				t.Fatal("Receive succeeded?")
			}
			if got := connect.CodeOf(err); got != connect.CodeCanceled {
				t.Errorf("C15 violated: the call's context was cancelled before this Receive (and Send on the same call reports %q), so a failing Receive must fail with code canceled; observed code %v (error: %v)",
					sendErr, got, err)
			}
		})
	}
}
