package connect_test

import (
	"context"
	"net/http"
	"net/http/httptest"
	"testing"
	"time"

	connect "github.com/bufbuild/connect-go"
	pingv1 "github.com/bufbuild/connect-go/internal/gen/connect/ping/v1"
	"github.com/bufbuild/connect-go/internal/gen/connect/ping/v1/pingv1connect"
)

// C15: once the call's context has ended, every operation on the call that
// fails must fail with canceled / deadline_exceeded. Here the operation is the
// handler's Receive: the client cancels (or its deadline passes) while the
// handler is blocked in Receive. The handler's context is done, but Receive
// reports invalid_argument ("protocol error: incomplete envelope: ...").

type auditC15tF1Ping struct {
	pingv1connect.UnimplementedPingServiceHandler
	cumSum func(context.Context, *connect.BidiStream[pingv1.CumSumRequest, pingv1.CumSumResponse]) error
	sum    func(context.Context, *connect.ClientStream[pingv1.SumRequest]) (*connect.Response[pingv1.SumResponse], error)
}

func (a *auditC15tF1Ping) CumSum(ctx context.Context, s *connect.BidiStream[pingv1.CumSumRequest, pingv1.CumSumResponse]) error {
	return a.cumSum(ctx, s)
}

func (a *auditC15tF1Ping) Sum(ctx context.Context, s *connect.ClientStream[pingv1.SumRequest]) (*connect.Response[pingv1.SumResponse], error) {
	return a.sum(ctx, s)
}

func TestAuditC15tFinding1(t *testing.T) {
	type result struct {
		recvErr error
		ctxErr  error
	}
	codeFor := func(ctxErr error) connect.Code {
		if ctxErr == context.DeadlineExceeded { //nolint:errorlint,goerr113
			return connect.CodeDeadlineExceeded
		}
		return connect.CodeCanceled
	}
	for _, proto := range []struct {
		name string
		opts []connect.ClientOption
	}{
		{"connect", nil},
		{"grpc", []connect.ClientOption{connect.WithGRPC()}},
		{"grpcweb", []connect.ClientOption{connect.WithGRPCWeb()}},
	} {
		for _, kind := range []string{"bidi_http2", "clientstream_http2", "clientstream_http1"} {
			for _, mode := range []string{"cancel", "deadline"} {
				proto, kind, mode := proto, kind, mode
				t.Run(proto.name+"/"+kind+"/"+mode, func(t *testing.T) {
					results := make(chan result, 1)
					got := make(chan struct{})
					svc := &auditC15tF1Ping{}
					svc.cumSum = func(ctx context.Context, s *connect.BidiStream[pingv1.CumSumRequest, pingv1.CumSumResponse]) error {
						if _, err := s.Receive(); err != nil {
							return err
						}
						close(got)
						_, rerr := s.Receive() // blocks until the client's context ends
						<-ctx.Done()
						results <- result{rerr, ctx.Err()}
						return rerr
					}
					svc.sum = func(ctx context.Context, s *connect.ClientStream[pingv1.SumRequest]) (*connect.Response[pingv1.SumResponse], error) {
						if !s.Receive() {
							return nil, s.Err()
						}
						close(got)
						s.Receive() // blocks until the client's context ends
						<-ctx.Done()
						results <- result{s.Err(), ctx.Err()}
						return nil, s.Err()
					}
					mux := http.NewServeMux()
					mux.Handle(pingv1connect.NewPingServiceHandler(svc))
					server := httptest.NewUnstartedServer(mux)
					server.EnableHTTP2 = kind != "clientstream_http1"
					server.StartTLS()
					defer server.Close()
					client := pingv1connect.NewPingServiceClient(server.Client(), server.URL, proto.opts...)
					ctx, cancel := context.WithCancel(context.Background())
					if mode == "deadline" {
						ctx, cancel = context.WithTimeout(context.Background(), 300*time.Millisecond)
					}
					defer cancel()
					if kind == "bidi_http2" {
						stream := client.CumSum(ctx)
						if err := stream.Send(&pingv1.CumSumRequest{Number: 1}); err != nil {
							t.Fatal(err)
						}
					} else {
						stream := client.Sum(ctx)
						if err := stream.Send(&pingv1.SumRequest{Number: 1}); err != nil {
							t.Fatal(err)
						}
					}
					select {
					case <-got:
					case <-time.After(5 * time.Second):
						t.Fatal("handler never received the first message")
					}
					if mode == "cancel" {
						time.Sleep(50 * time.Millisecond)
						cancel()
					}
					select {
					case r := <-results:
						if r.recvErr == nil {
							t.Fatalf("handler Receive succeeded?")
						}
						want := codeFor(r.ctxErr)
						if got := connect.CodeOf(r.recvErr); got != want {
							t.Errorf("C15 violated: handler's context ended with %q, so the handler's failing Receive must report code %v; observed code %v (error: %v)",
								r.ctxErr, want, got, r.recvErr)
						}
					case <-time.After(5 * time.Second):
						t.Fatal("handler's Receive did not return after the client's context ended")
					}
				})
			}
		}
	}
}
