package connect_test

import (
	"context"
	"errors"
	"net/http"
	"net/http/httptest"
	"testing"
	"time"

	connect "github.com/bufbuild/connect-go"
	pingv1 "github.com/bufbuild/connect-go/internal/gen/connect/ping/v1"
	"github.com/bufbuild/connect-go/internal/gen/connect/ping/v1/pingv1connect"
)

// C15: a unary call whose context is cancelled (or whose deadline passes) while
// the client is receiving must fail with canceled / deadline_exceeded. Here the
// context carries a cause (context.WithCancelCause / WithTimeoutCause), the
// transport is HTTP/1.1, and the context ends while the Connect unary client is
// reading the body of a non-200 response. net/http then fails the body read
// with the cause, which connectUnaryClientConn.validateResponse doesn't
// recognize: the call fails with the code derived from the HTTP status.
func TestAuditC15tFinding3(t *testing.T) {
	for _, mode := range []string{"WithCancelCause", "WithTimeoutCause"} {
		mode := mode
		t.Run(mode, func(t *testing.T) {
			started := make(chan struct{})
			release := make(chan struct{})
			defer close(release)
			server := httptest.NewServer(http.HandlerFunc(func(w http.ResponseWriter, r *http.Request) {
				w.Header().Set("Content-Type", "application/json")
				w.WriteHeader(http.StatusServiceUnavailable)
				_, _ = w.Write([]byte(`{"code":"unavailable",`)) // the rest never comes
				w.(http.Flusher).Flush()
				close(started)
				select {
				case <-release:
				case <-r.Context().Done():
				}
			}))
			defer server.Close()
			client := pingv1connect.NewPingServiceClient(server.Client(), server.URL)
			var (
				ctx  context.Context
				want connect.Code
			)
			if mode == "WithCancelCause" {
				cctx, cancel := context.WithCancelCause(context.Background())
				defer cancel(nil)
				go func() {
					<-started
					time.Sleep(50 * time.Millisecond)
					cancel(errors.New("user gave up"))
				}()
				ctx, want = cctx, connect.CodeCanceled
			} else {
				cctx, cancel := context.WithTimeoutCause(context.Background(), 300*time.Millisecond, errors.New("too slow"))
				defer cancel()
				ctx, want = cctx, connect.CodeDeadlineExceeded
			}
			_, err := client.Ping(ctx, connect.NewRequest(&pingv1.PingRequest{}))
			if err == nil {
				t.Fatal("call succeeded?")
			}
			if ctx.Err() == nil {
				t.Fatalf("context hasn't ended; err = %v", err)
			}
			if got := connect.CodeOf(err); got != want {
				t.Errorf("C15 violated: the call's context ended (%v, cause %q) while the client was receiving, so CallUnary must fail with code %v; observed code %v (error: %v)",
					ctx.Err(), context.Cause(ctx), want, got, err)
			}
		})
	}
}
