package connect_test

import (
	"bytes"
	"compress/gzip"
	"context"
	"io"
	"net/http"
	"net/http/httptest"
	"strings"
	"testing"

	connect "github.com/bufbuild/connect-go"
	pingv1 "github.com/bufbuild/connect-go/internal/gen/connect/ping/v1"
	"google.golang.org/protobuf/proto"
)

// C08: the handler compresses with an algorithm the client "either used for
// its request or advertised, preferring the client's most-preferred mutually
// supported one".
//
// When the request itself is compressed, negotiateCompression never looks at
// the client's accept list: the response uses the request's algorithm even if
// the client lists another mutually supported algorithm first.
func TestAuditC08aFinding4(t *testing.T) {
	text := strings.Repeat("compressible ", 1000)
	handler := connect.NewUnaryHandler(
		"/connect.ping.v1.PingService/Ping",
		func(_ context.Context, req *connect.Request[pingv1.PingRequest]) (*connect.Response[pingv1.PingResponse], error) {
			return connect.NewResponse(&pingv1.PingResponse{Text: req.Msg.Text}), nil
		},
		// A second algorithm, "br" (backed by gzip here; only the name matters).
		connect.WithCompression(
			"br",
			func() connect.Decompressor { return &gzip.Reader{} },
			func() connect.Compressor { return gzip.NewWriter(io.Discard) },
		),
	)
	server := httptest.NewServer(handler)
	defer server.Close()
	raw, err := proto.Marshal(&pingv1.PingRequest{Text: text})
	if err != nil {
		t.Fatal(err)
	}
	var compressed bytes.Buffer
	zw := gzip.NewWriter(&compressed)
	_, _ = zw.Write(raw)
	_ = zw.Close()

	do := func(body []byte, contentEncoding string) string {
		req, _ := http.NewRequest(http.MethodPost, server.URL+"/connect.ping.v1.PingService/Ping", bytes.NewReader(body))
		req.Header.Set("Content-Type", "application/proto")
		if contentEncoding != "" {
			req.Header.Set("Content-Encoding", contentEncoding)
		}
		req.Header.Set("Accept-Encoding", "br, gzip") // br is the client's most preferred
		res, err := (&http.Transport{DisableCompression: true}).RoundTrip(req)
		if err != nil {
			t.Fatal(err)
		}
		defer res.Body.Close()
		_, _ = io.Copy(io.Discard, res.Body)
		if res.StatusCode != http.StatusOK {
			t.Fatalf("status %d", res.StatusCode)
		}
		return res.Header.Get("Content-Encoding")
	}
	if got := do(raw, ""); got != "br" {
		t.Fatalf("sanity: uncompressed request, Accept-Encoding \"br, gzip\": expected br, got %q", got)
	}
	got := do(compressed.Bytes(), "gzip")
	if got != "br" {
		t.Errorf("request compressed with gzip, Accept-Encoding: \"br, gzip\", handler supports {gzip, br}: C08 expects the "+
			"client's most-preferred mutually supported algorithm (br); observed Content-Encoding=%q", got)
	}
}
