package connect_test

import (
	"context"
	"net/http"
	"net/http/httptest"
	"testing"
	"time"

	"github.com/bufbuild/connect-go"
	pingv1 "github.com/bufbuild/connect-go/internal/gen/connect/ping/v1"
	"github.com/bufbuild/connect-go/internal/gen/connect/ping/v1/pingv1connect"
)

// C15, finding 6 (handler side): the client's context is cancelled / expires
// in the middle of a server-streaming call over HTTP/2. The handler's context
// is cancelled (good), but a handler Send that fails after that fails with
// "unknown: write envelope: http2: stream closed" instead of canceled /
// deadline_exceeded: envelopeWriter.write codes every raw ResponseWriter error
// as unknown and never looks at the request context.

type auditC15aF6Result struct {
	sendErr error
	ctxErr  error
}

type auditC15aF6Server struct {
	pingv1connect.UnimplementedPingServiceHandler
	results chan auditC15aF6Result
}

func (s *auditC15aF6Server) CountUp(ctx context.Context, _ *connect.Request[pingv1.CountUpRequest], stream *connect.ServerStream[pingv1.CountUpResponse]) error {
	if err := stream.Send(&pingv1.CountUpResponse{Number: 1}); err != nil {
		return err
	}
	select {
	case <-ctx.Done():
	case <-time.After(3 * time.Second):
	}
	// The handler notices late (or not at all) and keeps sending.
	var sendErr error
	for i := 0; i < 50 && sendErr == nil; i++ {
		sendErr = stream.Send(&pingv1.CountUpResponse{Number: 2})
		time.Sleep(10 * time.Millisecond)
	}
	s.results <- auditC15aF6Result{sendErr: sendErr, ctxErr: ctx.Err()}
	return ctx.Err()
}

func TestAuditC15aFinding6(t *testing.T) {
	protocols := []struct {
		name string
		opts []connect.ClientOption
	}{
		{"connect", nil},
		{"grpc", []connect.ClientOption{connect.WithGRPC()}},
		{"grpcweb", []connect.ClientOption{connect.WithGRPCWeb()}},
	}
	for _, proto := range protocols {
		for _, mode := range []string{"cancel", "deadline"} {
			proto, mode := proto, mode
			t.Run("http2/"+proto.name+"/"+mode, func(t *testing.T) {
				svc := &auditC15aF6Server{results: make(chan auditC15aF6Result, 1)}
				mux := http.NewServeMux()
				mux.Handle(pingv1connect.NewPingServiceHandler(svc))
				server := httptest.NewUnstartedServer(mux)
				server.EnableHTTP2 = true
				server.StartTLS()
				defer server.Close()
				client := pingv1connect.NewPingServiceClient(server.Client(), server.URL, proto.opts...)

				var ctx context.Context
				var cancel context.CancelFunc
				if mode == "cancel" {
					ctx, cancel = context.WithCancel(context.Background())
					time.AfterFunc(150*time.Millisecond, cancel)
				} else {
					ctx, cancel = context.WithTimeout(context.Background(), 150*time.Millisecond)
				}
				defer cancel()
				stream, err := client.CountUp(ctx, connect.NewRequest(&pingv1.CountUpRequest{Number: 1}))
				if err != nil {
					t.Fatalf("test setup: CountUp: %v", err)
				}
				defer stream.Close()
				for stream.Receive() {
				}
				if got := connect.CodeOf(stream.Err()); got != connect.CodeCanceled && got != connect.CodeDeadlineExceeded {
					t.Errorf("client side: expected canceled / deadline_exceeded, observed %v", stream.Err())
				}
				select {
				case res := <-svc.results:
					if res.ctxErr == nil {
						t.Errorf("C15 violated: handler's context not cancelled")
					}
					if res.sendErr == nil {
						t.Skipf("no handler Send failed; nothing to check")
					}
					got := connect.CodeOf(res.sendErr)
					if got != connect.CodeCanceled && got != connect.CodeDeadlineExceeded {
						t.Errorf("C15 violated: client ctx.Err()=%v, handler ctx.Err()=%v; property expects the handler's Send, failing after that, to have code canceled or deadline_exceeded, observed code %v (error: %v)",
							ctx.Err(), res.ctxErr, got, res.sendErr)
					}
				case <-time.After(6 * time.Second):
					t.Fatalf("handler never finished")
				}
			})
		}
	}
}
