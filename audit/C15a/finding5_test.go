package connect_test

import (
	"context"
	"net/http"
	"net/http/httptest"
	"testing"
	"time"

	"github.com/bufbuild/connect-go"
	pingv1 "github.com/bufbuild/connect-go/internal/gen/connect/ping/v1"
	"github.com/bufbuild/connect-go/internal/gen/connect/ping/v1/pingv1connect"
)

// C15, finding 5 (handler side): the client's context is cancelled / expires
// while the handler of a client-streaming call is blocked in Receive. The
// handler's context is cancelled (good), but the handler's Receive - an
// operation on that call that fails after the cancellation - fails with
// invalid_argument ("protocol error: incomplete envelope: ...") or unknown
// ("read enveloped message: ..."), never with canceled / deadline_exceeded:
// envelopeReader.Read codes every raw request-body error itself and never
// looks at the request context.

type auditC15aF5Result struct {
	receiveErr error
	ctxErr     error
}

type auditC15aF5Server struct {
	pingv1connect.UnimplementedPingServiceHandler
	results chan auditC15aF5Result
}

func (s *auditC15aF5Server) Sum(ctx context.Context, stream *connect.ClientStream[pingv1.SumRequest]) (*connect.Response[pingv1.SumResponse], error) {
	for stream.Receive() {
	}
	// net/http fails the body read a moment before it cancels the context.
	select {
	case <-ctx.Done():
	case <-time.After(2 * time.Second):
	}
	s.results <- auditC15aF5Result{receiveErr: stream.Err(), ctxErr: ctx.Err()}
	if err := stream.Err(); err != nil {
		return nil, err
	}
	return connect.NewResponse(&pingv1.SumResponse{}), nil
}

func TestAuditC15aFinding5(t *testing.T) {
	protocols := []struct {
		name string
		opts []connect.ClientOption
	}{
		{"connect", nil},
		{"grpc", []connect.ClientOption{connect.WithGRPC()}},
		{"grpcweb", []connect.ClientOption{connect.WithGRPCWeb()}},
	}
	for _, useH2 := range []bool{false, true} {
		for _, proto := range protocols {
			for _, mode := range []string{"cancel", "deadline"} {
				useH2, proto, mode := useH2, proto, mode
				name := "http1/"
				if useH2 {
					name = "http2/"
				}
				t.Run(name+proto.name+"/"+mode, func(t *testing.T) {
					svc := &auditC15aF5Server{results: make(chan auditC15aF5Result, 1)}
					mux := http.NewServeMux()
					mux.Handle(pingv1connect.NewPingServiceHandler(svc))
					server := httptest.NewUnstartedServer(mux)
					if useH2 {
						server.EnableHTTP2 = true
						server.StartTLS()
					} else {
						server.Start()
					}
					defer server.Close()
					client := pingv1connect.NewPingServiceClient(server.Client(), server.URL, proto.opts...)

					var ctx context.Context
					var cancel context.CancelFunc
					if mode == "cancel" {
						ctx, cancel = context.WithCancel(context.Background())
						time.AfterFunc(150*time.Millisecond, cancel)
					} else {
						ctx, cancel = context.WithTimeout(context.Background(), 150*time.Millisecond)
					}
					defer cancel()
					stream := client.Sum(ctx)
					if err := stream.Send(&pingv1.SumRequest{Number: 1}); err != nil {
						t.Fatalf("test setup: Send: %v", err)
					}
					// The request stays open; the handler blocks in its second Receive.
					// The client performs no further operation until the handler has
					// reported, so nothing but the cancellation can end the request.
					<-ctx.Done()
					defer func() {
						if _, clientErr := stream.CloseAndReceive(); clientErr == nil {
							t.Errorf("C15 violated: client CloseAndReceive succeeded after ctx.Err()=%v", ctx.Err())
						}
					}()

					select {
					case res := <-svc.results:
						if res.ctxErr == nil {
							t.Errorf("C15 violated: handler's context not cancelled")
						}
						if res.receiveErr == nil {
							t.Fatalf("C15 violated: handler's Receive reported a clean end of the request stream although the client never closed it (client ctx.Err()=%v, handler ctx.Err()=%v)", ctx.Err(), res.ctxErr)
						}
						got := connect.CodeOf(res.receiveErr)
						if got != connect.CodeCanceled && got != connect.CodeDeadlineExceeded {
							t.Errorf("C15 violated: client ctx.Err()=%v, handler ctx.Err()=%v; property expects the handler's Receive, failing after that, to have code canceled or deadline_exceeded, observed code %v (error: %v)",
								ctx.Err(), res.ctxErr, got, res.receiveErr)
						}
					case <-time.After(5 * time.Second):
						t.Fatalf("handler never finished")
					}
				})
			}
		}
	}
}
