package connect_test

import (
	"context"
	"net/http"
	"net/http/httptest"
	"testing"
	"time"

	"github.com/bufbuild/connect-go"
	pingv1 "github.com/bufbuild/connect-go/internal/gen/connect/ping/v1"
	"github.com/bufbuild/connect-go/internal/gen/connect/ping/v1/pingv1connect"
)

// C15, finding 4: bidi stream over HTTP/2. Once the response headers have
// arrived and while the request side is still open, cancelling the call's
// context neither interrupts a blocked Receive nor reaches the handler: the
// handler's context stays alive and the client's Receive keeps blocking (until
// the client happens to call another operation, or the server ends the stream
// by itself). net/http's HTTP/2 transport stops watching the request context
// once RoundTrip has returned and the request body is still being written, and
// duplexHTTPCall has no watcher of its own: Read just blocks in
// response.Body.Read.
//
// Property clauses: "during a blocked ... Receive ... every operation ...
// fails with code canceled" and "the handler's context is cancelled as well".

type auditC15aF4Server struct {
	pingv1connect.UnimplementedPingServiceHandler
	handlerCtxDone chan error // receives ctx.Err() (nil if never cancelled)
}

func (s *auditC15aF4Server) CumSum(ctx context.Context, stream *connect.BidiStream[pingv1.CumSumRequest, pingv1.CumSumResponse]) error {
	if _, err := stream.Receive(); err != nil {
		return err
	}
	if err := stream.Send(&pingv1.CumSumResponse{Sum: 1}); err != nil {
		return err
	}
	select {
	case <-ctx.Done():
		s.handlerCtxDone <- ctx.Err()
	case <-time.After(2 * time.Second):
		s.handlerCtxDone <- nil
	}
	return ctx.Err()
}

func TestAuditC15aFinding4(t *testing.T) {
	protocols := []struct {
		name string
		opts []connect.ClientOption
	}{
		{"connect", nil},
		{"grpc", []connect.ClientOption{connect.WithGRPC()}},
		{"grpcweb", []connect.ClientOption{connect.WithGRPCWeb()}},
	}
	for _, proto := range protocols {
		proto := proto
		t.Run(proto.name, func(t *testing.T) {
			svc := &auditC15aF4Server{handlerCtxDone: make(chan error, 1)}
			mux := http.NewServeMux()
			mux.Handle(pingv1connect.NewPingServiceHandler(svc))
			server := httptest.NewUnstartedServer(mux)
			server.EnableHTTP2 = true
			server.StartTLS()
			defer server.Close()

			client := pingv1connect.NewPingServiceClient(server.Client(), server.URL, proto.opts...)
			ctx, cancel := context.WithCancel(context.Background())
			defer cancel()
			stream := client.CumSum(ctx)
			if err := stream.Send(&pingv1.CumSumRequest{Number: 1}); err != nil {
				t.Fatalf("test setup: first Send: %v", err)
			}
			if _, err := stream.Receive(); err != nil {
				t.Fatalf("test setup: first Receive: %v", err)
			}
			received := make(chan error, 1)
			go func() {
				_, err := stream.Receive() // blocks: the handler is silent
				received <- err
			}()
			time.Sleep(200 * time.Millisecond)
			cancelledAt := time.Now()
			cancel()

			const grace = 1200 * time.Millisecond
			returned := false
			select {
			case err := <-received:
				returned = true
				if err == nil || connect.CodeOf(err) != connect.CodeCanceled {
					t.Errorf("C15 violated: blocked Receive after cancellation: expected code canceled, observed %v", err)
				}
			case <-time.After(grace):
				t.Errorf("C15 violated: the call's context was cancelled during a blocked Receive; property expects Receive to fail with code canceled, observed: Receive still blocked %v after the cancellation", grace)
			}
			select {
			case herr := <-svc.handlerCtxDone:
				if herr == nil {
					t.Errorf("C15 violated: property expects the handler's context to be cancelled when the call's context is cancelled; observed: handler context still alive 2s after the handler went idle (>= 1.8s after the client's cancellation)")
				}
			case <-time.After(3 * time.Second):
				t.Errorf("handler did not report")
			}
			// Once the handler gives up by itself the stream ends and the client's
			// Receive finally returns - with the server's result, long after the
			// cancellation.
			if !returned {
				select {
				case err := <-received:
					t.Logf("Receive eventually returned %v after the cancellation with: %v", time.Since(cancelledAt), err)
				case <-time.After(3 * time.Second):
					t.Logf("Receive still blocked")
				}
			}
		})
	}
}
