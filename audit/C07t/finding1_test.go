package connect_test

import (
	"bufio"
	"bytes"
	"context"
	"fmt"
	"io"
	"net"
	"net/http"
	"net/http/httptest"
	"strings"
	"testing"

	connect "github.com/bufbuild/connect-go"
	pingv1 "github.com/bufbuild/connect-go/internal/gen/connect/ping/v1"
	"google.golang.org/protobuf/proto"
)

// Property C07: for any (method, HTTP version, headers, body), the response is
// well-formed for the protocol selected by the Content-Type (or a bare
// 405/415/505), and unknown compression / malformed framing reach the peer as
// an error code, never as success.
//
// A gRPC response is only well-formed if it carries a grpc-status (in the HTTP
// trailers, or for a trailers-only response possibly in the headers). The
// handler sends it with net/http's "Trailer:"-prefixed header keys, which
// net/http silently drops when the request is HTTP/1.0 (no chunked encoding).
// The handler serves such a request anyway (it only refuses HTTP/1.x for bidi
// streams), so every outcome - errors included - reaches the peer as a plain
// "200 OK" without any gRPC status.
func TestAuditC07tFinding1(t *testing.T) {
	calls := 0
	handler := connect.NewUnaryHandler(
		"/connect.ping.v1.PingService/Ping",
		func(_ context.Context, req *connect.Request[pingv1.PingRequest]) (*connect.Response[pingv1.PingResponse], error) {
			calls++
			return connect.NewResponse(&pingv1.PingResponse{Number: req.Msg.Number}), nil
		},
	)
	server := httptest.NewServer(handler)
	defer server.Close()

	payload, err := proto.Marshal(&pingv1.PingRequest{Number: 42})
	if err != nil {
		t.Fatal(err)
	}
	goodBody := append([]byte{0, 0, 0, 0, byte(len(payload))}, payload...)

	cases := []struct {
		name       string
		extraLines string
		body       []byte
		wantStatus string // expected grpc-status
	}{
		{"unknown_compression", "Grpc-Encoding: bogus\r\n", goodBody, "12"},
		{"malformed_framing", "", []byte{0, 0, 0}, "3"},
		{"invalid_timeout", "Grpc-Timeout: abc\r\n", goodBody, "3"},
		{"valid_request", "", goodBody, "0"},
	}
	for _, tc := range cases {
		tc := tc
		t.Run(tc.name, func(t *testing.T) {
			conn, err := net.Dial("tcp", strings.TrimPrefix(server.URL, "http://"))
			if err != nil {
				t.Fatal(err)
			}
			defer conn.Close()
			fmt.Fprintf(conn,
				"POST /connect.ping.v1.PingService/Ping HTTP/1.0\r\n"+
					"Content-Type: application/grpc\r\n"+
					"Te: trailers\r\n"+
					tc.extraLines+
					"Content-Length: %d\r\n\r\n", len(tc.body))
			if _, err := conn.Write(tc.body); err != nil {
				t.Fatal(err)
			}
			raw, err := io.ReadAll(conn)
			if err != nil {
				t.Fatal(err)
			}
			response, err := http.ReadResponse(bufio.NewReader(bytes.NewReader(raw)), nil)
			if err != nil {
				t.Fatalf("unparseable response %q: %v", raw, err)
			}
			body, _ := io.ReadAll(response.Body)
			response.Body.Close()
			switch response.StatusCode {
			case http.StatusMethodNotAllowed, http.StatusUnsupportedMediaType, http.StatusHTTPVersionNotSupported:
				return // a bare refusal is allowed by the property
			}
			status := response.Trailer.Get("Grpc-Status")
			if status == "" {
				status = response.Header.Get("Grpc-Status")
			}
			if status == "" {
				t.Fatalf("C07 violated for an HTTP/1.0 request with Content-Type application/grpc (%s): "+
					"expected a well-formed gRPC response carrying grpc-status %s (or a bare 405/415/505), "+
					"observed HTTP %d with no grpc-status in headers or trailers, body %q; raw response:\n%q",
					tc.name, tc.wantStatus, response.StatusCode, body, raw)
			}
			if status != tc.wantStatus {
				t.Fatalf("expected grpc-status %s, observed %s", tc.wantStatus, status)
			}
		})
	}
}
