package connect_test

// Audit C02t, finding 3: in the Connect protocol the details of an error are
// re-encoded through protojson, which silently drops the fields the process
// doesn't know: the client receives a detail that is not equal to the one the
// handler attached. gRPC delivers the identical Any.

import (
	"context"
	"errors"
	"net/http"
	"net/http/httptest"
	"testing"

	"github.com/bufbuild/connect-go"
	pingv1 "github.com/bufbuild/connect-go/internal/gen/connect/ping/v1"
	"github.com/bufbuild/connect-go/internal/gen/connect/ping/v1/pingv1connect"
	"google.golang.org/protobuf/encoding/protowire"
	"google.golang.org/protobuf/proto"
	"google.golang.org/protobuf/types/known/anypb"
)

type auditC02tF3Service struct {
	pingv1connect.UnimplementedPingServiceHandler

	err func() error
}

func (s *auditC02tF3Service) Ping(
	context.Context, *connect.Request[pingv1.PingRequest],
) (*connect.Response[pingv1.PingResponse], error) {
	return nil, s.err()
}

func TestAuditC02tFinding3(t *testing.T) {
	// An Any-wrapped connect.ping.v1.PingRequest as a peer with a newer schema
	// would produce it: field 1 (number) = 5, plus field 99 that this build of
	// the schema doesn't have. (A handler gets such a detail by forwarding an
	// error it received, or by wrapping a message it parsed from storage.)
	value, err := proto.Marshal(&pingv1.PingRequest{Number: 5})
	if err != nil {
		t.Fatal(err)
	}
	value = protowire.AppendTag(value, 99, protowire.BytesType)
	value = protowire.AppendString(value, "newer-field")
	wantDetail := &anypb.Any{
		TypeUrl: "type.googleapis.com/connect.ping.v1.PingRequest",
		Value:   value,
	}
	var wantMessage pingv1.PingRequest
	if err := wantDetail.UnmarshalTo(&wantMessage); err != nil {
		t.Fatal(err)
	}

	service := &auditC02tF3Service{err: func() error {
		connectErr := connect.NewError(connect.CodeAborted, errors.New("conflict"))
		connectErr.AddDetail(proto.Clone(wantDetail).(*anypb.Any))
		return connectErr
	}}
	mux := http.NewServeMux()
	mux.Handle(pingv1connect.NewPingServiceHandler(service))
	server := httptest.NewUnstartedServer(mux)
	server.EnableHTTP2 = true
	server.StartTLS()
	defer server.Close()

	run := func(t *testing.T, opts ...connect.ClientOption) {
		t.Helper()
		client := pingv1connect.NewPingServiceClient(server.Client(), server.URL, opts...)
		_, err := client.Ping(context.Background(), connect.NewRequest(&pingv1.PingRequest{}))
		var connectErr *connect.Error
		if !errors.As(err, &connectErr) {
			t.Fatalf("property C02: expected *connect.Error, observed %T: %v", err, err)
		}
		if connectErr.Code() != connect.CodeAborted || connectErr.Message() != "conflict" {
			t.Errorf("property C02 expects aborted/conflict, observed %v", connectErr)
		}
		if len(connectErr.Details()) != 1 {
			t.Fatalf("property C02 expects 1 detail, observed %d", len(connectErr.Details()))
		}
		gotDetail, ok := connectErr.Details()[0].(*anypb.Any)
		if !ok {
			t.Fatalf("detail is a %T", connectErr.Details()[0])
		}
		var gotMessage pingv1.PingRequest
		if err := gotDetail.UnmarshalTo(&gotMessage); err != nil {
			t.Fatal(err)
		}
		// proto.Equal on the wrapped messages: insensitive to field order and
		// encoding, sensitive to content (unknown fields included).
		if !proto.Equal(&gotMessage, &wantMessage) {
			t.Errorf("property C02 expects details equal to the ones the handler attached:\n  attached Any.value = %x\n  observed Any.value = %x (field 99 is gone)",
				wantDetail.Value, gotDetail.Value)
		}
	}
	t.Run("control_grpc", func(t *testing.T) { run(t, connect.WithGRPC()) }) // passes
	t.Run("connect_unary_proto", func(t *testing.T) { run(t) })
	t.Run("connect_unary_json", func(t *testing.T) { run(t, connect.WithProtoJSON()) })
}
