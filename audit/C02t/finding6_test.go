package connect_test

// Audit C02t, finding 6: the unary Connect client files every response header
// whose name starts with "Trailer-" as a trailer and strips the prefix. Error
// metadata with such a key (sent as a plain HTTP header by the handler)
// reaches the client's Error.Meta() under a different key. The other
// protocols, and Connect streaming, deliver the key unchanged.

import (
	"context"
	"errors"
	"net/http"
	"net/http/httptest"
	"testing"

	"github.com/bufbuild/connect-go"
	pingv1 "github.com/bufbuild/connect-go/internal/gen/connect/ping/v1"
	"github.com/bufbuild/connect-go/internal/gen/connect/ping/v1/pingv1connect"
)

type auditC02tF6Service struct {
	pingv1connect.UnimplementedPingServiceHandler

	err func() error
}

func (s *auditC02tF6Service) Ping(
	context.Context, *connect.Request[pingv1.PingRequest],
) (*connect.Response[pingv1.PingResponse], error) {
	return nil, s.err()
}

func (s *auditC02tF6Service) CountUp(
	context.Context, *connect.Request[pingv1.CountUpRequest], *connect.ServerStream[pingv1.CountUpResponse],
) error {
	return s.err()
}

func TestAuditC02tFinding6(t *testing.T) {
	const key, value = "Trailer-Park-Id", "42"
	service := &auditC02tF6Service{err: func() error {
		connectErr := connect.NewError(connect.CodeNotFound, errors.New("no such park"))
		connectErr.Meta().Set(key, value)
		return connectErr
	}}
	mux := http.NewServeMux()
	mux.Handle(pingv1connect.NewPingServiceHandler(service))
	server := httptest.NewUnstartedServer(mux)
	server.EnableHTTP2 = true
	server.StartTLS()
	defer server.Close()

	check := func(t *testing.T, err error) {
		t.Helper()
		var connectErr *connect.Error
		if !errors.As(err, &connectErr) {
			t.Fatalf("property C02: expected *connect.Error, observed %T: %v", err, err)
		}
		if connectErr.Code() != connect.CodeNotFound || connectErr.Message() != "no such park" {
			t.Errorf("property C02 expects not_found/no such park, observed %v", connectErr)
		}
		if got := connectErr.Meta().Values(key); len(got) != 1 || got[0] != value {
			t.Errorf("property C02 expects the client's metadata to contain %s: [%q] as attached by the handler, observed %q; whole metadata: %v",
				key, value, got, connectErr.Meta())
		}
	}
	unary := func(t *testing.T, opts ...connect.ClientOption) {
		t.Helper()
		client := pingv1connect.NewPingServiceClient(server.Client(), server.URL, opts...)
		_, err := client.Ping(context.Background(), connect.NewRequest(&pingv1.PingRequest{}))
		check(t, err)
	}
	t.Run("control_grpc_unary", func(t *testing.T) { unary(t, connect.WithGRPC()) })       // passes
	t.Run("control_grpcweb_unary", func(t *testing.T) { unary(t, connect.WithGRPCWeb()) }) // passes
	t.Run("control_connect_server_stream", func(t *testing.T) { // passes
		client := pingv1connect.NewPingServiceClient(server.Client(), server.URL)
		stream, err := client.CountUp(context.Background(), connect.NewRequest(&pingv1.CountUpRequest{Number: 1}))
		if err != nil {
			t.Fatal(err)
		}
		defer stream.Close()
		for stream.Receive() {
		}
		check(t, stream.Err())
	})
	t.Run("connect_unary", func(t *testing.T) { unary(t) })
}
