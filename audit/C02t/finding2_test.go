package connect_test

// Audit C02t, finding 2: in the Connect protocol an error whose details
// include an Any-wrapped message that protojson can't render (a message type
// that isn't in the process-wide Protobuf registry, or a well-known type whose
// value has no JSON form) isn't delivered at all: the client gets a different
// code, a different message, no details and no metadata. gRPC and gRPC-Web
// deliver the very same error intact.

import (
	"context"
	"errors"
	"net/http"
	"net/http/httptest"
	"testing"

	"github.com/bufbuild/connect-go"
	pingv1 "github.com/bufbuild/connect-go/internal/gen/connect/ping/v1"
	"github.com/bufbuild/connect-go/internal/gen/connect/ping/v1/pingv1connect"
	"google.golang.org/protobuf/proto"
	"google.golang.org/protobuf/reflect/protodesc"
	"google.golang.org/protobuf/reflect/protoreflect"
	"google.golang.org/protobuf/types/descriptorpb"
	"google.golang.org/protobuf/types/dynamicpb"
	"google.golang.org/protobuf/types/known/anypb"
	"google.golang.org/protobuf/types/known/fieldmaskpb"
)

type auditC02tF2Service struct {
	pingv1connect.UnimplementedPingServiceHandler

	sendBefore int
	err        func() error
}

func (s *auditC02tF2Service) Ping(
	context.Context, *connect.Request[pingv1.PingRequest],
) (*connect.Response[pingv1.PingResponse], error) {
	return nil, s.err()
}

func (s *auditC02tF2Service) CountUp(
	_ context.Context,
	_ *connect.Request[pingv1.CountUpRequest],
	stream *connect.ServerStream[pingv1.CountUpResponse],
) error {
	for i := 0; i < s.sendBefore; i++ {
		if err := stream.Send(&pingv1.CountUpResponse{Number: int64(i)}); err != nil {
			return err
		}
	}
	return s.err()
}

// auditC02tF2DynamicMessage builds a message of type acme.audit.v1.Reason,
// described at run time only (as a gateway or a schema-registry based service
// would): the type is not in protoregistry.GlobalTypes.
func auditC02tF2DynamicMessage(t *testing.T) proto.Message {
	t.Helper()
	file, err := protodesc.NewFile(&descriptorpb.FileDescriptorProto{
		Name:    proto.String("acme/audit/v1/reason.proto"),
		Package: proto.String("acme.audit.v1"),
		Syntax:  proto.String("proto3"),
		MessageType: []*descriptorpb.DescriptorProto{{
			Name: proto.String("Reason"),
			Field: []*descriptorpb.FieldDescriptorProto{{
				Name:   proto.String("text"),
				Number: proto.Int32(1),
				Type:   descriptorpb.FieldDescriptorProto_TYPE_STRING.Enum(),
				Label:  descriptorpb.FieldDescriptorProto_LABEL_OPTIONAL.Enum(),
			}},
		}},
	}, nil)
	if err != nil {
		t.Fatal(err)
	}
	descriptor := file.Messages().Get(0)
	message := dynamicpb.NewMessage(descriptor)
	message.Set(descriptor.Fields().Get(0), protoreflect.ValueOfString("quota exhausted"))
	return message
}

func TestAuditC02tFinding2(t *testing.T) {
	const (
		wantCode    = connect.CodeResourceExhausted
		wantMessage = "over quota"
	)
	details := map[string]proto.Message{
		// An Any-wrapped message of a type known only through a run-time descriptor.
		"dynamic_type": auditC02tF2DynamicMessage(t),
		// An Any-wrapped well-known type, registered everywhere; perfectly valid
		// Protobuf, but protojson refuses paths that aren't lower_snake_case.
		"fieldmask_camel_case_path": &fieldmaskpb.FieldMask{Paths: []string{"displayName"}},
	}
	for detailName, detailMessage := range details {
		detailName, detailMessage := detailName, detailMessage
		wantDetail, err := anypb.New(detailMessage)
		if err != nil {
			t.Fatal(err)
		}
		service := &auditC02tF2Service{
			sendBefore: 2,
			err: func() error {
				connectErr := connect.NewError(wantCode, errors.New(wantMessage))
				connectErr.AddDetail(proto.Clone(wantDetail).(*anypb.Any))
				connectErr.Meta().Set("X-Audit-Key", "value")
				return connectErr
			},
		}
		mux := http.NewServeMux()
		mux.Handle(pingv1connect.NewPingServiceHandler(service))
		server := httptest.NewUnstartedServer(mux)
		server.EnableHTTP2 = true
		server.StartTLS()
		defer server.Close()

		check := func(t *testing.T, err error) {
			t.Helper()
			if err == nil {
				t.Fatalf("property C02: expected the handler's error, observed success")
			}
			var connectErr *connect.Error
			if !errors.As(err, &connectErr) {
				t.Fatalf("property C02: expected *connect.Error, observed %T: %v", err, err)
			}
			if connectErr.Code() != wantCode {
				t.Errorf("property C02 expects the handler's code %v, observed %v (error text: %q)", wantCode, connectErr.Code(), connectErr.Error())
			}
			if connectErr.Message() != wantMessage {
				t.Errorf("property C02 expects the handler's message %q, observed %q", wantMessage, connectErr.Message())
			}
			if got := connectErr.Details(); len(got) != 1 {
				t.Errorf("property C02 expects 1 detail (%s), observed %d details", wantDetail.TypeUrl, len(got))
			} else if gotAny, ok := got[0].(*anypb.Any); !ok || !proto.Equal(gotAny, wantDetail) {
				t.Errorf("property C02 expects detail %v, observed %v", wantDetail, got[0])
			}
			if got := connectErr.Meta().Values("X-Audit-Key"); len(got) != 1 || got[0] != "value" {
				t.Errorf("property C02 expects metadata X-Audit-Key: [value], observed %q", got)
			}
		}
		unary := func(t *testing.T, opts ...connect.ClientOption) {
			t.Helper()
			client := pingv1connect.NewPingServiceClient(server.Client(), server.URL, opts...)
			_, err := client.Ping(context.Background(), connect.NewRequest(&pingv1.PingRequest{}))
			check(t, err)
		}
		serverStream := func(t *testing.T, opts ...connect.ClientOption) {
			t.Helper()
			client := pingv1connect.NewPingServiceClient(server.Client(), server.URL, opts...)
			stream, err := client.CountUp(context.Background(), connect.NewRequest(&pingv1.CountUpRequest{Number: 1}))
			if err != nil {
				t.Fatal(err)
			}
			defer stream.Close()
			for stream.Receive() {
			}
			check(t, stream.Err())
		}
		t.Run(detailName, func(t *testing.T) {
			t.Run("control_grpc_unary", func(t *testing.T) { unary(t, connect.WithGRPC()) })                    // passes
			t.Run("control_grpcweb_server_stream", func(t *testing.T) { serverStream(t, connect.WithGRPCWeb()) }) // passes
			t.Run("connect_unary", func(t *testing.T) { unary(t) })
			t.Run("connect_unary_json", func(t *testing.T) { unary(t, connect.WithProtoJSON()) })
			t.Run("connect_server_stream_after_2_messages", func(t *testing.T) { serverStream(t) })
		})
	}
}
