package connect_test

// Audit C02t, finding 4: over gRPC (HTTP/2) the metadata of an error is sent
// as HTTP trailers only, and net/http silently drops trailers with names such
// as Www-Authenticate, Cache-Control or Authorization: the client's
// Error.Meta() lacks key/value pairs the handler attached. The Connect and
// gRPC-Web protocols deliver the same metadata.

import (
	"context"
	"errors"
	"net/http"
	"net/http/httptest"
	"testing"

	"github.com/bufbuild/connect-go"
	pingv1 "github.com/bufbuild/connect-go/internal/gen/connect/ping/v1"
	"github.com/bufbuild/connect-go/internal/gen/connect/ping/v1/pingv1connect"
)

type auditC02tF4Service struct {
	pingv1connect.UnimplementedPingServiceHandler

	sendBefore int
	err        func() error
}

func (s *auditC02tF4Service) Ping(
	context.Context, *connect.Request[pingv1.PingRequest],
) (*connect.Response[pingv1.PingResponse], error) {
	return nil, s.err()
}

func (s *auditC02tF4Service) CountUp(
	_ context.Context,
	_ *connect.Request[pingv1.CountUpRequest],
	stream *connect.ServerStream[pingv1.CountUpResponse],
) error {
	for i := 0; i < s.sendBefore; i++ {
		if err := stream.Send(&pingv1.CountUpResponse{Number: int64(i)}); err != nil {
			return err
		}
	}
	return s.err()
}

func TestAuditC02tFinding4(t *testing.T) {
	wantMeta := http.Header{
		"Www-Authenticate": {`Bearer realm="example"`},
		"Cache-Control":    {"no-store"},
		"X-Request-Id":     {"abc123"}, // an ordinary key, for comparison
	}
	service := &auditC02tF4Service{
		sendBefore: 2,
		err: func() error {
			connectErr := connect.NewError(connect.CodeUnauthenticated, errors.New("token expired"))
			for key, values := range wantMeta {
				for _, value := range values {
					connectErr.Meta().Add(key, value)
				}
			}
			return connectErr
		},
	}
	mux := http.NewServeMux()
	mux.Handle(pingv1connect.NewPingServiceHandler(service))
	server := httptest.NewUnstartedServer(mux)
	server.EnableHTTP2 = true
	server.StartTLS()
	defer server.Close()

	check := func(t *testing.T, err error) {
		t.Helper()
		var connectErr *connect.Error
		if !errors.As(err, &connectErr) {
			t.Fatalf("property C02: expected *connect.Error, observed %T: %v", err, err)
		}
		if connectErr.Code() != connect.CodeUnauthenticated || connectErr.Message() != "token expired" {
			t.Errorf("property C02 expects unauthenticated/token expired, observed %v", connectErr)
		}
		for key, values := range wantMeta {
			got := connectErr.Meta().Values(key)
			if len(got) != len(values) || got[0] != values[0] {
				t.Errorf("property C02 expects the client's metadata to contain %s: %q as attached by the handler, observed %q",
					key, values, got)
			}
		}
	}
	unary := func(t *testing.T, opts ...connect.ClientOption) {
		t.Helper()
		client := pingv1connect.NewPingServiceClient(server.Client(), server.URL, opts...)
		_, err := client.Ping(context.Background(), connect.NewRequest(&pingv1.PingRequest{}))
		check(t, err)
	}
	serverStream := func(t *testing.T, opts ...connect.ClientOption) {
		t.Helper()
		client := pingv1connect.NewPingServiceClient(server.Client(), server.URL, opts...)
		stream, err := client.CountUp(context.Background(), connect.NewRequest(&pingv1.CountUpRequest{Number: 1}))
		if err != nil {
			t.Fatal(err)
		}
		defer stream.Close()
		for stream.Receive() {
		}
		check(t, stream.Err())
	}
	t.Run("control_connect_unary", func(t *testing.T) { unary(t) })                                       // passes
	t.Run("control_connect_server_stream", func(t *testing.T) { serverStream(t) })                        // passes
	t.Run("control_grpcweb_unary", func(t *testing.T) { unary(t, connect.WithGRPCWeb()) })                // passes
	t.Run("control_grpcweb_server_stream", func(t *testing.T) { serverStream(t, connect.WithGRPCWeb()) }) // passes
	t.Run("grpc_unary", func(t *testing.T) { unary(t, connect.WithGRPC()) })
	t.Run("grpc_unary_json", func(t *testing.T) { unary(t, connect.WithGRPC(), connect.WithProtoJSON()) })
	t.Run("grpc_server_stream_after_2_messages", func(t *testing.T) { serverStream(t, connect.WithGRPC()) })
}
