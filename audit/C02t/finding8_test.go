package connect_test

// Audit C02t, finding 8 (low severity: the metadata value is outside the
// printable-ASCII grammar the protocols prescribe for non "-Bin" keys): when a
// gRPC-Web handler has already sent a message, it writes the error's metadata
// into the in-body trailers block byte for byte; its own client then refuses
// the whole block if a value holds a control character (NUL, DEL, ...), so
// that the error's code, message, details and all other metadata are lost as
// well. The same error is delivered intact (minus that one value) by gRPC,
// Connect and by gRPC-Web when no message was sent before.

import (
	"context"
	"errors"
	"net/http"
	"net/http/httptest"
	"testing"

	"github.com/bufbuild/connect-go"
	pingv1 "github.com/bufbuild/connect-go/internal/gen/connect/ping/v1"
	"github.com/bufbuild/connect-go/internal/gen/connect/ping/v1/pingv1connect"
)

type auditC02tF8Service struct {
	pingv1connect.UnimplementedPingServiceHandler

	sendBefore int
	err        func() error
}

func (s *auditC02tF8Service) CountUp(
	_ context.Context,
	_ *connect.Request[pingv1.CountUpRequest],
	stream *connect.ServerStream[pingv1.CountUpResponse],
) error {
	for i := 0; i < s.sendBefore; i++ {
		if err := stream.Send(&pingv1.CountUpResponse{Number: int64(i)}); err != nil {
			return err
		}
	}
	return s.err()
}

func TestAuditC02tFinding8(t *testing.T) {
	for _, sendBefore := range []int{0, 1} {
		sendBefore := sendBefore
		service := &auditC02tF8Service{
			sendBefore: sendBefore,
			err: func() error {
				connectErr := connect.NewError(connect.CodeAborted, errors.New("conflicting update"))
				connectErr.Meta().Set("X-Raw", "a\x7fb") // DEL
				connectErr.Meta().Set("X-Audit-Key", "value")
				return connectErr
			},
		}
		mux := http.NewServeMux()
		mux.Handle(pingv1connect.NewPingServiceHandler(service))
		server := httptest.NewUnstartedServer(mux)
		server.EnableHTTP2 = true
		server.StartTLS()
		defer server.Close()

		run := func(t *testing.T, opts ...connect.ClientOption) {
			t.Helper()
			client := pingv1connect.NewPingServiceClient(server.Client(), server.URL, opts...)
			stream, err := client.CountUp(context.Background(), connect.NewRequest(&pingv1.CountUpRequest{Number: 1}))
			if err != nil {
				t.Fatal(err)
			}
			defer stream.Close()
			for stream.Receive() {
			}
			var connectErr *connect.Error
			if !errors.As(stream.Err(), &connectErr) {
				t.Fatalf("property C02: expected *connect.Error, observed %T: %v", stream.Err(), stream.Err())
			}
			if connectErr.Code() != connect.CodeAborted {
				t.Errorf("property C02 expects the handler's code aborted, observed %v (error text %q)", connectErr.Code(), connectErr.Error())
			}
			if connectErr.Message() != "conflicting update" {
				t.Errorf("property C02 expects the handler's message %q, observed %q", "conflicting update", connectErr.Message())
			}
			if got := connectErr.Meta().Get("X-Audit-Key"); got != "value" {
				t.Errorf("property C02 expects metadata X-Audit-Key: %q, observed %q", "value", got)
			}
		}
		if sendBefore == 0 {
			t.Run("control_grpcweb_no_message_sent", func(t *testing.T) { run(t, connect.WithGRPCWeb()) }) // passes
			continue
		}
		t.Run("control_grpc_after_1_message", func(t *testing.T) { run(t, connect.WithGRPC()) }) // passes
		t.Run("control_connect_after_1_message", func(t *testing.T) { run(t) })                 // passes
		t.Run("grpcweb_after_1_message", func(t *testing.T) { run(t, connect.WithGRPCWeb()) })
	}
}
