package connect_test

// Audit C02t, finding 7: a plain Go error (no *connect.Error anywhere in its
// chain) returned by a handler does not always arrive as code unknown: if it
// is, or wraps, context.Canceled or context.DeadlineExceeded, the client gets
// code canceled / deadline_exceeded - in every protocol and RPC kind, and
// although neither the call's context nor its deadline is involved.

import (
	"context"
	"errors"
	"fmt"
	"net/http"
	"net/http/httptest"
	"testing"

	"github.com/bufbuild/connect-go"
	pingv1 "github.com/bufbuild/connect-go/internal/gen/connect/ping/v1"
	"github.com/bufbuild/connect-go/internal/gen/connect/ping/v1/pingv1connect"
)

type auditC02tF7Service struct {
	pingv1connect.UnimplementedPingServiceHandler

	err func() error
}

func (s *auditC02tF7Service) Ping(
	context.Context, *connect.Request[pingv1.PingRequest],
) (*connect.Response[pingv1.PingResponse], error) {
	return nil, s.err()
}

func (s *auditC02tF7Service) CountUp(
	_ context.Context, _ *connect.Request[pingv1.CountUpRequest], stream *connect.ServerStream[pingv1.CountUpResponse],
) error {
	if err := stream.Send(&pingv1.CountUpResponse{Number: 1}); err != nil {
		return err
	}
	return s.err()
}

func TestAuditC02tFinding7(t *testing.T) {
	plainErrors := map[string]error{
		// what database/sql, net/http clients, etc. return when some *other*
		// context (a background job's, a cache refresh's) ends
		"wraps_canceled":          fmt.Errorf("refresh cache: %w", context.Canceled),
		"wraps_deadline_exceeded": fmt.Errorf("query inventory: %w", context.DeadlineExceeded),
		"control_other":           errors.New("refresh cache: connection refused"), // passes
	}
	for name, plainErr := range plainErrors {
		name, plainErr := name, plainErr
		service := &auditC02tF7Service{err: func() error { return plainErr }}
		mux := http.NewServeMux()
		mux.Handle(pingv1connect.NewPingServiceHandler(service))
		server := httptest.NewUnstartedServer(mux)
		server.EnableHTTP2 = true
		server.StartTLS()
		defer server.Close()

		check := func(t *testing.T, err error) {
			t.Helper()
			if err == nil {
				t.Fatalf("property C02: expected an error, observed success")
			}
			var connectErr *connect.Error
			if !errors.As(err, &connectErr) {
				t.Fatalf("property C02: expected *connect.Error, observed %T: %v", err, err)
			}
			if connectErr.Code() != connect.CodeUnknown {
				t.Errorf("property C02 expects a plain Go error to arrive as code unknown, observed code %v (handler returned %q)",
					connectErr.Code(), plainErr.Error())
			}
			if connectErr.Message() != plainErr.Error() {
				t.Errorf("property C02 expects the plain error's text %q, observed %q", plainErr.Error(), connectErr.Message())
			}
		}
		for protocolName, opts := range map[string][]connect.ClientOption{
			"connect": nil,
			"grpc":    {connect.WithGRPC()},
			"grpcweb": {connect.WithGRPCWeb()},
		} {
			opts := opts
			t.Run(name+"/"+protocolName+"/unary", func(t *testing.T) {
				client := pingv1connect.NewPingServiceClient(server.Client(), server.URL, opts...)
				_, err := client.Ping(context.Background(), connect.NewRequest(&pingv1.PingRequest{}))
				check(t, err)
			})
			t.Run(name+"/"+protocolName+"/server_stream_after_1_message", func(t *testing.T) {
				client := pingv1connect.NewPingServiceClient(server.Client(), server.URL, opts...)
				stream, err := client.CountUp(context.Background(), connect.NewRequest(&pingv1.CountUpRequest{Number: 1}))
				if err != nil {
					t.Fatal(err)
				}
				defer stream.Close()
				for stream.Receive() {
				}
				check(t, stream.Err())
			})
		}
	}
}
