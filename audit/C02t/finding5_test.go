package connect_test

// Audit C02t, finding 5: a unary Connect handler merges the error's metadata
// into the HTTP response headers without setting aside the headers that frame
// the response itself. An error whose metadata has a Content-Length entry -
// which every *connect.Error received from a unary Connect call has, so every
// gateway that returns (an annotated copy of) an upstream error produces one -
// reaches the client without its message, details and metadata, and with a
// code guessed from the HTTP status.

import (
	"context"
	"errors"
	"net/http"
	"net/http/httptest"
	"testing"

	"github.com/bufbuild/connect-go"
	pingv1 "github.com/bufbuild/connect-go/internal/gen/connect/ping/v1"
	"github.com/bufbuild/connect-go/internal/gen/connect/ping/v1/pingv1connect"
	"google.golang.org/protobuf/types/known/anypb"
	"google.golang.org/protobuf/types/known/durationpb"
)

type auditC02tF5Service struct {
	pingv1connect.UnimplementedPingServiceHandler

	err func() error
}

func (s *auditC02tF5Service) Ping(
	context.Context, *connect.Request[pingv1.PingRequest],
) (*connect.Response[pingv1.PingResponse], error) {
	return nil, s.err()
}

func auditC02tF5Serve(t *testing.T, err func() error) *httptest.Server {
	t.Helper()
	mux := http.NewServeMux()
	mux.Handle(pingv1connect.NewPingServiceHandler(&auditC02tF5Service{err: err}))
	server := httptest.NewUnstartedServer(mux)
	server.EnableHTTP2 = true
	server.StartTLS()
	t.Cleanup(server.Close)
	return server
}

func auditC02tF5Check(t *testing.T, err error, wantMessage string, wantDetails int, wantKey, wantValue string) {
	t.Helper()
	if err == nil {
		t.Fatalf("property C02: expected the handler's error, observed success")
	}
	var connectErr *connect.Error
	if !errors.As(err, &connectErr) {
		t.Fatalf("property C02: expected *connect.Error, observed %T: %v", err, err)
	}
	if connectErr.Code() != connect.CodeAborted {
		t.Errorf("property C02 expects the handler's code aborted, observed %v (error text %q)", connectErr.Code(), connectErr.Error())
	}
	if connectErr.Message() != wantMessage {
		t.Errorf("property C02 expects the handler's message %q, observed %q", wantMessage, connectErr.Message())
	}
	if got := len(connectErr.Details()); got != wantDetails {
		t.Errorf("property C02 expects %d details, observed %d", wantDetails, got)
	}
	if got := connectErr.Meta().Values(wantKey); len(got) == 0 || got[0] != wantValue {
		t.Errorf("property C02 expects metadata %s: %q, observed %q", wantKey, wantValue, got)
	}
}

func TestAuditC02tFinding5(t *testing.T) {
	t.Run("direct", func(t *testing.T) {
		server := auditC02tF5Serve(t, func() error {
			connectErr := connect.NewError(connect.CodeAborted, errors.New("conflicting update"))
			connectErr.Meta().Set("X-Audit-Key", "value")
			connectErr.Meta().Set("Content-Length", "7")
			return connectErr
		})
		for name, opts := range map[string][]connect.ClientOption{
			"control_grpc": {connect.WithGRPC()}, // passes
			"connect":      nil,
		} {
			opts := opts
			t.Run(name, func(t *testing.T) {
				client := pingv1connect.NewPingServiceClient(server.Client(), server.URL, opts...)
				_, err := client.Ping(context.Background(), connect.NewRequest(&pingv1.PingRequest{}))
				auditC02tF5Check(t, err, "conflicting update", 0, "X-Audit-Key", "value")
			})
		}
	})
	t.Run("gateway", func(t *testing.T) {
		// backend <- gateway <- client, all unary Connect. The gateway's handler
		// annotates the error it got from the backend with one more detail and
		// returns it.
		backend := auditC02tF5Serve(t, func() error {
			connectErr := connect.NewError(connect.CodeAborted, errors.New("conflicting update"))
			connectErr.Meta().Set("X-Backend", "b")
			detail, err := anypb.New(durationpb.New(7))
			if err != nil {
				return err
			}
			connectErr.AddDetail(detail)
			return connectErr
		})
		backendClient := pingv1connect.NewPingServiceClient(backend.Client(), backend.URL)
		gateway := auditC02tF5Serve(t, func() error {
			_, err := backendClient.Ping(context.Background(), connect.NewRequest(&pingv1.PingRequest{}))
			var connectErr *connect.Error
			if errors.As(err, &connectErr) {
				detail, anyErr := anypb.New(durationpb.New(9))
				if anyErr != nil {
					return anyErr
				}
				connectErr.AddDetail(detail)
			}
			return err
		})
		for name, opts := range map[string][]connect.ClientOption{
			"control_grpc": {connect.WithGRPC()}, // passes
			"connect":      nil,
		} {
			opts := opts
			t.Run(name, func(t *testing.T) {
				client := pingv1connect.NewPingServiceClient(gateway.Client(), gateway.URL, opts...)
				_, err := client.Ping(context.Background(), connect.NewRequest(&pingv1.PingRequest{}))
				auditC02tF5Check(t, err, "conflicting update", 2, "X-Backend", "b")
			})
		}
	})
}
