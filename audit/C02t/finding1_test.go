package connect_test

// Audit C02t, finding 1: a client configured with WithReadMaxBytes loses the
// handler's error (code and message) when the serialized error is larger than
// the limit - in the Connect protocol (unary and streaming) and in gRPC-Web
// once messages were sent. (gRPC, which carries the error in HTTP trailers,
// delivers the same error intact.)

import (
	"context"
	"errors"
	"net/http"
	"net/http/httptest"
	"strings"
	"testing"

	"github.com/bufbuild/connect-go"
	pingv1 "github.com/bufbuild/connect-go/internal/gen/connect/ping/v1"
	"github.com/bufbuild/connect-go/internal/gen/connect/ping/v1/pingv1connect"
)

type auditC02tF1Service struct {
	pingv1connect.UnimplementedPingServiceHandler

	sendBefore int
	err        func() error
}

func (s *auditC02tF1Service) Ping(
	context.Context, *connect.Request[pingv1.PingRequest],
) (*connect.Response[pingv1.PingResponse], error) {
	return nil, s.err()
}

func (s *auditC02tF1Service) CountUp(
	_ context.Context,
	_ *connect.Request[pingv1.CountUpRequest],
	stream *connect.ServerStream[pingv1.CountUpResponse],
) error {
	for i := 0; i < s.sendBefore; i++ {
		if err := stream.Send(&pingv1.CountUpResponse{Number: int64(i)}); err != nil {
			return err
		}
	}
	return s.err()
}

func TestAuditC02tFinding1(t *testing.T) {
	const limit = 1024
	longMessage := strings.Repeat("x", 2*limit) // valid UTF-8, "long"
	service := &auditC02tF1Service{
		sendBefore: 2,
		err: func() error {
			return connect.NewError(connect.CodeAborted, errors.New(longMessage))
		},
	}
	mux := http.NewServeMux()
	mux.Handle(pingv1connect.NewPingServiceHandler(service))
	server := httptest.NewUnstartedServer(mux)
	server.EnableHTTP2 = true
	server.StartTLS()
	defer server.Close()

	check := func(t *testing.T, err error) {
		t.Helper()
		if err == nil {
			t.Fatalf("property C02: expected the handler's error, observed success")
		}
		var connectErr *connect.Error
		if !errors.As(err, &connectErr) {
			t.Fatalf("property C02: expected *connect.Error, observed %T: %v", err, err)
		}
		if connectErr.Code() != connect.CodeAborted {
			t.Errorf("property C02 expects the handler's code %v at the client, observed %v (error text: %.120q)",
				connect.CodeAborted, connectErr.Code(), connectErr.Error())
		}
		if connectErr.Message() != longMessage {
			t.Errorf("property C02 expects the byte-identical %d-byte message at the client, observed %.120q",
				len(longMessage), connectErr.Message())
		}
	}
	unary := func(t *testing.T, opts ...connect.ClientOption) {
		t.Helper()
		client := pingv1connect.NewPingServiceClient(server.Client(), server.URL, opts...)
		_, err := client.Ping(context.Background(), connect.NewRequest(&pingv1.PingRequest{}))
		check(t, err)
	}
	serverStream := func(t *testing.T, opts ...connect.ClientOption) {
		t.Helper()
		client := pingv1connect.NewPingServiceClient(server.Client(), server.URL, opts...)
		stream, err := client.CountUp(context.Background(), connect.NewRequest(&pingv1.CountUpRequest{Number: 1}))
		if err != nil {
			t.Fatal(err)
		}
		defer stream.Close()
		received := 0
		for stream.Receive() {
			received++
		}
		if received != service.sendBefore {
			t.Errorf("expected %d messages before the error, observed %d", service.sendBefore, received)
		}
		check(t, stream.Err())
	}

	t.Run("control_grpc_unary", func(t *testing.T) { // passes
		unary(t, connect.WithGRPC(), connect.WithReadMaxBytes(limit))
	})
	t.Run("control_connect_unary_no_limit", func(t *testing.T) { // passes
		unary(t)
	})
	t.Run("connect_unary", func(t *testing.T) {
		unary(t, connect.WithReadMaxBytes(limit))
	})
	t.Run("connect_server_stream_after_2_messages", func(t *testing.T) {
		serverStream(t, connect.WithReadMaxBytes(limit))
	})
	t.Run("grpcweb_server_stream_after_2_messages", func(t *testing.T) {
		serverStream(t, connect.WithGRPCWeb(), connect.WithReadMaxBytes(limit))
	})
}
