package connect_test

import (
	"context"
	"errors"
	"fmt"
	"net/http"
	"net/http/httptest"
	"strings"
	"testing"

	connect "github.com/bufbuild/connect-go"
	pingv1 "github.com/bufbuild/connect-go/internal/gen/connect/ping/v1"
)

// Property C11: every response header and trailer the handler sets is visible
// to the client - on success among the response's headers and trailers, on
// failure at least in the error's metadata - in all protocols.
//
// A client configured with WithReadMaxBytes(n) ("limits apply to each Protobuf
// message") applies n to the Connect end-of-stream envelope and to the
// gRPC-Web trailers envelope, too. A handler whose trailers (or error
// metadata) serialize to more than n bytes can't get them - or, on failure,
// even the response headers that arrived as plain HTTP headers - to the
// client, although every message is far below the limit.
func TestAuditC11wFinding1(t *testing.T) {
	const readMax = 64
	trailerValues := []string{
		strings.Repeat("a", 40),
		strings.Repeat("b", 40),
		strings.Repeat("c", 40),
	}
	mux := http.NewServeMux()
	mux.Handle("/count", connect.NewServerStreamHandler(
		"/count",
		func(_ context.Context, req *connect.Request[pingv1.PingRequest], stream *connect.ServerStream[pingv1.PingResponse]) error {
			stream.ResponseHeader().Set("X-Hdr", "header-value")
			for _, v := range trailerValues {
				stream.ResponseTrailer().Add("X-Trl", v)
			}
			// One tiny message (a few bytes, far below the client's limit).
			if err := stream.Send(&pingv1.PingResponse{Number: 1}); err != nil {
				return err
			}
			if req.Header().Get("X-Mode") == "fail" {
				err := connect.NewError(connect.CodeAborted, errors.New("boom"))
				err.Meta().Set("X-Meta", "meta-value")
				return err
			}
			return nil
		},
	))
	server := httptest.NewUnstartedServer(mux)
	server.EnableHTTP2 = true
	server.StartTLS()
	defer server.Close()

	protocols := []struct {
		name string
		opts []connect.ClientOption
	}{
		{"connect", nil},
		{"grpcweb", []connect.ClientOption{connect.WithGRPCWeb()}},
		{"grpc", []connect.ClientOption{connect.WithGRPC()}}, // control: HTTP trailers aren't subject to the limit
	}
	for _, protocol := range protocols {
		protocol := protocol
		for _, mode := range []string{"success", "fail"} {
			mode := mode
			t.Run(protocol.name+"/"+mode, func(t *testing.T) {
				opts := append([]connect.ClientOption{connect.WithReadMaxBytes(readMax)}, protocol.opts...)
				client := connect.NewClient[pingv1.PingRequest, pingv1.PingResponse](server.Client(), server.URL+"/count", opts...)
				req := connect.NewRequest(&pingv1.PingRequest{})
				req.Header().Set("X-Mode", mode)
				stream, err := client.CallServerStream(context.Background(), req)
				if err != nil {
					t.Fatalf("CallServerStream: %v", err)
				}
				defer stream.Close()
				messages := 0
				for stream.Receive() {
					messages++
				}
				if messages != 1 {
					t.Errorf("expected 1 message, observed %d", messages)
				}
				if mode == "success" {
					if err := stream.Err(); err != nil {
						t.Errorf("handler succeeded and sent one %d-byte-limit-respecting message: expected the client to see success, observed error %q", readMax, err)
					}
					if got := stream.ResponseHeader().Values("X-Hdr"); fmt.Sprint(got) != "[header-value]" {
						t.Errorf("response header X-Hdr: expected [header-value], observed %q", got)
					}
					if got := stream.ResponseTrailer().Values("X-Trl"); fmt.Sprint(got) != fmt.Sprint(trailerValues) {
						t.Errorf("response trailer X-Trl: expected %q, observed %q", trailerValues, got)
					}
					return
				}
				var connectErr *connect.Error
				if !errors.As(stream.Err(), &connectErr) {
					t.Fatalf("expected a *connect.Error, observed %v", stream.Err())
				}
				if connectErr.Code() != connect.CodeAborted {
					t.Errorf("expected the handler's error (aborted: boom), observed %q", connectErr)
				}
				meta := connectErr.Meta()
				if got := meta.Values("X-Hdr"); fmt.Sprint(got) != "[header-value]" {
					t.Errorf("error metadata X-Hdr (response header set by handler): expected [header-value], observed %q", got)
				}
				if got := meta.Values("X-Trl"); fmt.Sprint(got) != fmt.Sprint(trailerValues) {
					t.Errorf("error metadata X-Trl (trailer set by handler): expected %q, observed %q", trailerValues, got)
				}
				if got := meta.Values("X-Meta"); fmt.Sprint(got) != "[meta-value]" {
					t.Errorf("error metadata X-Meta (error's own metadata): expected [meta-value], observed %q", got)
				}
			})
		}
	}
}
