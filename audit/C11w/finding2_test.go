package connect_test

import (
	"context"
	"errors"
	"fmt"
	"net/http"
	"net/http/httptest"
	"testing"

	connect "github.com/bufbuild/connect-go"
	pingv1 "github.com/bufbuild/connect-go/internal/gen/connect/ping/v1"
)

// Property C11: every response trailer the handler sets (and, on failure, the
// error's metadata) is visible to the client in all protocols, for all valid
// header names outside the protocol-reserved prefixes.
//
// With the gRPC protocol the handler ships trailers - and *all* error
// metadata, even for an error returned before anything was written - as HTTP
// trailers through net/http's "Trailer:" prefix mechanism
// (grpcHandlerConn.Close). On HTTP/2, net/http silently discards trailers
// whose names it considers forbidden in a trailer section (Www-Authenticate,
// Authorization, Cache-Control, Pragma, Expect, Range, Max-Forwards, If-*,
// ...). The same keys arrive with the Connect and gRPC-Web protocols. So an
// unauthenticated error carrying a Www-Authenticate challenge in its Meta()
// reaches Connect and gRPC-Web clients, but not gRPC clients.
func TestAuditC11wFinding2(t *testing.T) {
	const (
		challenge    = `Bearer realm="example"`
		cacheControl = "no-store"
	)
	mux := http.NewServeMux()
	mux.Handle("/ping", connect.NewUnaryHandler(
		"/ping",
		func(_ context.Context, req *connect.Request[pingv1.PingRequest]) (*connect.Response[pingv1.PingResponse], error) {
			if req.Header().Get("X-Mode") == "fail" {
				err := connect.NewError(connect.CodeUnauthenticated, errors.New("no credentials"))
				err.Meta().Set("Www-Authenticate", challenge)
				err.Meta().Set("X-Control", "ordinary key")
				return nil, err
			}
			res := connect.NewResponse(&pingv1.PingResponse{Number: 1})
			res.Trailer().Set("Cache-Control", cacheControl)
			res.Trailer().Set("X-Control", "ordinary key")
			return res, nil
		},
	))
	server := httptest.NewUnstartedServer(mux)
	server.EnableHTTP2 = true
	server.StartTLS()
	defer server.Close()

	protocols := []struct {
		name string
		opts []connect.ClientOption
	}{
		{"connect", nil},                                           // control: passes
		{"grpcweb", []connect.ClientOption{connect.WithGRPCWeb()}}, // control: passes
		{"grpc", []connect.ClientOption{connect.WithGRPC()}},
	}
	for _, protocol := range protocols {
		protocol := protocol
		t.Run(protocol.name+"/success", func(t *testing.T) {
			client := connect.NewClient[pingv1.PingRequest, pingv1.PingResponse](server.Client(), server.URL+"/ping", protocol.opts...)
			res, err := client.CallUnary(context.Background(), connect.NewRequest(&pingv1.PingRequest{}))
			if err != nil {
				t.Fatalf("expected success, observed %v", err)
			}
			if got := res.Trailer().Values("X-Control"); fmt.Sprint(got) != "[ordinary key]" {
				t.Errorf("trailer X-Control: expected [ordinary key], observed %q", got)
			}
			if got := res.Trailer().Values("Cache-Control"); fmt.Sprint(got) != "["+cacheControl+"]" {
				t.Errorf("trailer Cache-Control set by the handler: expected [%s] among the response's trailers, observed %q (all trailers: %v)", cacheControl, got, res.Trailer())
			}
		})
		t.Run(protocol.name+"/fail", func(t *testing.T) {
			client := connect.NewClient[pingv1.PingRequest, pingv1.PingResponse](server.Client(), server.URL+"/ping", protocol.opts...)
			req := connect.NewRequest(&pingv1.PingRequest{})
			req.Header().Set("X-Mode", "fail")
			_, err := client.CallUnary(context.Background(), req)
			var connectErr *connect.Error
			if !errors.As(err, &connectErr) || connectErr.Code() != connect.CodeUnauthenticated {
				t.Fatalf("expected the handler's unauthenticated error, observed %v", err)
			}
			if got := connectErr.Meta().Values("X-Control"); fmt.Sprint(got) != "[ordinary key]" {
				t.Errorf("error metadata X-Control: expected [ordinary key], observed %q", got)
			}
			if got := connectErr.Meta().Values("Www-Authenticate"); fmt.Sprint(got) != "["+challenge+"]" {
				t.Errorf("error metadata Www-Authenticate set by the handler: expected [%s] in the error's metadata, observed %q (all metadata: %v)", challenge, got, connectErr.Meta())
			}
		})
	}
}
