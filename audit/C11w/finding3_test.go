package connect_test

import (
	"context"
	"fmt"
	"net/http"
	"net/http/httptest"
	"testing"

	connect "github.com/bufbuild/connect-go"
	pingv1 "github.com/bufbuild/connect-go/internal/gen/connect/ping/v1"
)

// Property C11: every header a client attaches to a call is visible to the
// handler (all valid header names outside the protocol-reserved prefixes
// Connect- / Grpc-).
//
// User-Agent is not under a protocol-reserved prefix, but both
// WriteRequestHeader implementations assign it unconditionally - and for
// unary calls (Client.callUnary) and server-streaming calls
// (Client.CallServerStream) they run *after* the caller has filled in
// Request.Header(). So a User-Agent attached by the caller is replaced with
// the library's own, and the handler never sees it. (For client-streaming and
// bidi calls, where the caller writes to RequestHeader() after
// WriteRequestHeader has run, the caller's value does arrive.)
func TestAuditC11wFinding3(t *testing.T) {
	const userAgent = "my-app/1.2.3"
	mux := http.NewServeMux()
	mux.Handle("/ping", connect.NewUnaryHandler(
		"/ping",
		func(_ context.Context, req *connect.Request[pingv1.PingRequest]) (*connect.Response[pingv1.PingResponse], error) {
			return connect.NewResponse(&pingv1.PingResponse{
				Text: fmt.Sprintf("User-Agent=%q X-Control=%q", req.Header().Values("User-Agent"), req.Header().Values("X-Control")),
			}), nil
		},
	))
	mux.Handle("/count", connect.NewServerStreamHandler(
		"/count",
		func(_ context.Context, req *connect.Request[pingv1.PingRequest], stream *connect.ServerStream[pingv1.PingResponse]) error {
			return stream.Send(&pingv1.PingResponse{
				Text: fmt.Sprintf("User-Agent=%q X-Control=%q", req.Header().Values("User-Agent"), req.Header().Values("X-Control")),
			})
		},
	))
	server := httptest.NewUnstartedServer(mux)
	server.EnableHTTP2 = true
	server.StartTLS()
	defer server.Close()

	expected := fmt.Sprintf("User-Agent=%q X-Control=%q", []string{userAgent}, []string{"control"})
	protocols := []struct {
		name string
		opts []connect.ClientOption
	}{
		{"connect", nil},
		{"grpc", []connect.ClientOption{connect.WithGRPC()}},
		{"grpcweb", []connect.ClientOption{connect.WithGRPCWeb()}},
	}
	for _, protocol := range protocols {
		protocol := protocol
		t.Run(protocol.name+"/unary", func(t *testing.T) {
			client := connect.NewClient[pingv1.PingRequest, pingv1.PingResponse](server.Client(), server.URL+"/ping", protocol.opts...)
			req := connect.NewRequest(&pingv1.PingRequest{})
			req.Header().Set("User-Agent", userAgent)
			req.Header().Set("X-Control", "control")
			res, err := client.CallUnary(context.Background(), req)
			if err != nil {
				t.Fatalf("CallUnary: %v", err)
			}
			if res.Msg.Text != expected {
				t.Errorf("headers attached by the client as seen by the handler: expected %s, observed %s", expected, res.Msg.Text)
			}
		})
		t.Run(protocol.name+"/server_stream", func(t *testing.T) {
			client := connect.NewClient[pingv1.PingRequest, pingv1.PingResponse](server.Client(), server.URL+"/count", protocol.opts...)
			req := connect.NewRequest(&pingv1.PingRequest{})
			req.Header().Set("User-Agent", userAgent)
			req.Header().Set("X-Control", "control")
			stream, err := client.CallServerStream(context.Background(), req)
			if err != nil {
				t.Fatalf("CallServerStream: %v", err)
			}
			defer stream.Close()
			if !stream.Receive() {
				t.Fatalf("expected one message, observed error %v", stream.Err())
			}
			if got := stream.Msg().Text; got != expected {
				t.Errorf("headers attached by the client as seen by the handler: expected %s, observed %s", expected, got)
			}
		})
	}
}
