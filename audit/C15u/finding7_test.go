package connect_test

import (
	"context"
	"errors"
	"io"
	"net/http"
	"net/http/httptest"
	"testing"
	"time"

	"github.com/bufbuild/connect-go"
	pingv1 "github.com/bufbuild/connect-go/internal/gen/connect/ping/v1"
)

// C15, quantifier: "all cancellation / expiry instants ... during a blocked
// Send or Receive"; statement: cancellation while receiving surfaces as
// canceled.
//
// Bidi stream over HTTP/2, the client has sent a message, got one back, keeps
// its request side open (it may send more later) and is blocked in Receive.
// Cancelling the call's context now never surfaces: Receive stays blocked for
// good. duplexHTTPCall.Read looks at the context only before it reads and
// otherwise relies on net/http to fail the blocked body read, but the HTTP/2
// transport stops watching the request's context once it has handed out the
// response while the request body (our pipe) is still open. The library never
// closes the pipe or the response body on cancellation itself.
//
// Nothing is sent to the server either, so the clause "and the handler's
// context is cancelled as well" fails too: the handler stays blocked in its
// own Receive with a live context.
//
// (The first part is a liveness failure - the blocked operation never fails
// at all - rather than a wrong code.)
func TestAuditC15uFinding7(t *testing.T) {
	for _, protocol := range []string{"connect", "grpc", "grpcweb"} {
		protocol := protocol
		t.Run(protocol, func(t *testing.T) {
			release := make(chan struct{})
			mux := http.NewServeMux()
			handlerCtxDone := make(chan struct{})
			mux.Handle("/cumsum", connect.NewBidiStreamHandler("/cumsum", func(ctx context.Context, stream *connect.BidiStream[pingv1.CumSumRequest, pingv1.CumSumResponse]) error {
				go func() {
					<-ctx.Done()
					close(handlerCtxDone)
				}()
				for {
					msg, err := stream.Receive()
					if errors.Is(err, io.EOF) {
						return nil
					} else if err != nil {
						return err
					}
					if err := stream.Send(&pingv1.CumSumResponse{Sum: msg.Number}); err != nil {
						return err
					}
				}
			}))
			server := httptest.NewUnstartedServer(mux)
			server.EnableHTTP2 = true
			server.StartTLS()
			defer server.Close()
			defer close(release)

			var opts []connect.ClientOption
			switch protocol {
			case "grpc":
				opts = append(opts, connect.WithGRPC())
			case "grpcweb":
				opts = append(opts, connect.WithGRPCWeb())
			}
			client := connect.NewClient[pingv1.CumSumRequest, pingv1.CumSumResponse](server.Client(), server.URL+"/cumsum", opts...)
			ctx, cancel := context.WithCancel(context.Background())
			defer cancel()
			stream := client.CallBidiStream(ctx)
			if err := stream.Send(&pingv1.CumSumRequest{Number: 1}); err != nil {
				t.Fatalf("test setup: Send: %v", err)
			}
			if _, err := stream.Receive(); err != nil {
				t.Fatalf("test setup: Receive: %v", err)
			}
			received := make(chan error, 1)
			go func() {
				_, err := stream.Receive() // blocks: the handler waits for our next message
				received <- err
			}()
			time.Sleep(100 * time.Millisecond) // let Receive block
			cancel()
			select {
			case <-handlerCtxDone:
			case <-time.After(3 * time.Second):
				t.Errorf("the call's context is cancelled (ctx.Err() = %v): C15 expects the handler's context to be cancelled as well; "+
					"observed: the handler's context is still live 3s after the cancellation (the handler is still blocked in Receive)", ctx.Err())
			}
			select {
			case err := <-received:
				if connect.CodeOf(err) != connect.CodeCanceled {
					t.Errorf("context cancelled during a blocked Receive: C15 expects code canceled, observed %v", err)
				}
			case <-time.After(3 * time.Second):
				t.Errorf("context cancelled (ctx.Err() = %v) during a blocked Receive on a bidi stream over HTTP/2: "+
					"C15 expects Receive to fail with code canceled; observed: Receive is still blocked 3s after the cancellation", ctx.Err())
				// Unblock it for the cleanup: once the request body is closed, the
				// HTTP/2 transport looks at the context again.
				_ = stream.CloseRequest()
				select {
				case err := <-received:
					t.Logf("after CloseRequest, the blocked Receive returned: %v", err)
				case <-time.After(3 * time.Second):
					t.Logf("Receive still blocked after CloseRequest")
				}
			}
			_ = stream.CloseRequest()
			_ = stream.CloseResponse()
		})
	}
}
