package connect_test

import (
	"context"
	"net/http"
	"net/http/httptest"
	"testing"
	"time"

	"github.com/bufbuild/connect-go"
	pingv1 "github.com/bufbuild/connect-go/internal/gen/connect/ping/v1"
)

// C15: once the call's context is cancelled - "and the handler's context is
// cancelled as well" - every operation on that call that fails afterwards
// fails with code canceled, never another code.
//
// On the handler side, a Receive that is blocked waiting for the next request
// message when the client cancels the call fails - with the handler's context
// already cancelled - with code invalid_argument ("protocol error: incomplete
// envelope: stream error: stream ID 1; CANCEL" on HTTP/2, "...: unexpected
// EOF" on HTTP/1.1): the envelope reader codes transport read errors as a
// malformed request without looking at the request's context.
func TestAuditC15uFinding4(t *testing.T) {
	type outcome struct {
		receiveErr error
		ctxErr     error // handler's ctx.Err() right after the failing Receive
		messages   int
	}
	for _, protocol := range []string{"connect", "grpc", "grpcweb"} {
		for _, httpVersion := range []string{"http1", "http2"} {
			protocol, httpVersion := protocol, httpVersion
			t.Run(protocol+"/"+httpVersion, func(t *testing.T) {
				started := make(chan struct{}, 1)
				outcomes := make(chan outcome, 1)
				mux := http.NewServeMux()
				mux.Handle("/sum", connect.NewClientStreamHandler("/sum", func(ctx context.Context, stream *connect.ClientStream[pingv1.SumRequest]) (*connect.Response[pingv1.SumResponse], error) {
					var out outcome
					for stream.Receive() { // blocks waiting for the second message
						if out.messages++; out.messages == 1 {
							started <- struct{}{}
						}
					}
					out.receiveErr, out.ctxErr = stream.Err(), ctx.Err()
					outcomes <- out
					return connect.NewResponse(&pingv1.SumResponse{}), nil
				}))
				server := httptest.NewUnstartedServer(mux)
				server.EnableHTTP2 = httpVersion == "http2"
				server.StartTLS()
				defer server.Close()

				var opts []connect.ClientOption
				switch protocol {
				case "grpc":
					opts = append(opts, connect.WithGRPC())
				case "grpcweb":
					opts = append(opts, connect.WithGRPCWeb())
				}
				client := connect.NewClient[pingv1.SumRequest, pingv1.SumResponse](server.Client(), server.URL+"/sum", opts...)
				ctx, cancel := context.WithCancel(context.Background())
				defer cancel()
				stream := client.CallClientStream(ctx)
				if err := stream.Send(&pingv1.SumRequest{Number: 1}); err != nil {
					t.Fatalf("test setup: Send: %v", err)
				}
				<-started
				time.Sleep(50 * time.Millisecond) // let the handler block in its second Receive
				cancel()                          // the client cancels during the handler's blocked Receive
				var out outcome
				select {
				case out = <-outcomes:
				case <-time.After(5 * time.Second):
					t.Fatal("test setup: handler's Receive did not return")
				}
				if _, err := stream.CloseAndReceive(); connect.CodeOf(err) != connect.CodeCanceled {
					t.Errorf("client side: expected canceled, got %v", err)
				}
				if out.ctxErr == nil {
					t.Fatalf("test setup: handler's Receive ended (%v) but its context is not cancelled", out.receiveErr)
				}
				if out.receiveErr == nil {
					t.Errorf("handler's context is cancelled (ctx.Err() = %v) and the request was cut off after %d message(s), "+
						"but the handler's Receive reported a clean end of the request: C15 expects code canceled", out.ctxErr, out.messages)
				} else if code := connect.CodeOf(out.receiveErr); code != connect.CodeCanceled {
					t.Errorf("client cancelled during the handler's blocked Receive; the handler's context is cancelled (ctx.Err() = %v): "+
						"C15 expects the Receive to fail with code canceled, observed code %v (error: %v)", out.ctxErr, code, out.receiveErr)
				}
			})
		}
	}
}
