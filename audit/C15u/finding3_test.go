package connect_test

import (
	"context"
	"net/http"
	"net/http/httptest"
	"testing"
	"time"

	"github.com/bufbuild/connect-go"
	pingv1 "github.com/bufbuild/connect-go/internal/gen/connect/ping/v1"
)

// C15: once the call's context is cancelled - "and the handler's context is
// cancelled as well" - every operation on that call that fails afterwards
// fails with code canceled, never another code.
//
// On the handler side, a Send that fails after the client has cancelled the
// call (the handler's context is already cancelled at that point) reports
// code unknown ("write envelope: http2: stream closed" / "write: broken
// pipe"): the envelope writer codes every transport write error as unknown
// without looking at the request's context.
func TestAuditC15uFinding3(t *testing.T) {
	type outcome struct {
		sendErr  error
		ctxErr   error // handler's ctx.Err() right before the failing Send
		attempts int
	}
	for _, protocol := range []string{"connect", "grpc", "grpcweb"} {
		for _, httpVersion := range []string{"http1", "http2"} {
			protocol, httpVersion := protocol, httpVersion
			t.Run(protocol+"/"+httpVersion, func(t *testing.T) {
				started := make(chan struct{}, 1)
				outcomes := make(chan outcome, 1)
				mux := http.NewServeMux()
				mux.Handle("/count", connect.NewServerStreamHandler("/count", func(ctx context.Context, _ *connect.Request[pingv1.CountUpRequest], stream *connect.ServerStream[pingv1.CountUpResponse]) error {
					if err := stream.Send(&pingv1.CountUpResponse{Number: 1}); err != nil {
						outcomes <- outcome{sendErr: err, ctxErr: ctx.Err()}
						return err
					}
					started <- struct{}{}
					select {
					case <-ctx.Done(): // the client's cancellation has reached the handler
					case <-time.After(5 * time.Second):
						outcomes <- outcome{}
						return nil
					}
					var out outcome
					// The context is cancelled. Keep sending until a Send fails (the
					// first few may still fit into transport buffers).
					for out.attempts = 1; out.attempts <= 100000; out.attempts++ {
						out.ctxErr = ctx.Err()
						if out.sendErr = stream.Send(&pingv1.CountUpResponse{Number: 2}); out.sendErr != nil {
							break
						}
					}
					outcomes <- out
					return ctx.Err()
				}))
				server := httptest.NewUnstartedServer(mux)
				server.EnableHTTP2 = httpVersion == "http2"
				server.StartTLS()
				defer server.Close()

				var opts []connect.ClientOption
				switch protocol {
				case "grpc":
					opts = append(opts, connect.WithGRPC())
				case "grpcweb":
					opts = append(opts, connect.WithGRPCWeb())
				}
				client := connect.NewClient[pingv1.CountUpRequest, pingv1.CountUpResponse](server.Client(), server.URL+"/count", opts...)
				ctx, cancel := context.WithCancel(context.Background())
				defer cancel()
				stream, err := client.CallServerStream(ctx, connect.NewRequest(&pingv1.CountUpRequest{}))
				if err != nil {
					t.Fatalf("test setup: CallServerStream: %v", err)
				}
				if !stream.Receive() {
					t.Fatalf("test setup: no first message: %v", stream.Err())
				}
				<-started
				cancel() // the client cancels the call between two handler operations
				for stream.Receive() {
				}
				if code := connect.CodeOf(stream.Err()); code != connect.CodeCanceled {
					t.Errorf("client side: expected canceled, got %v", stream.Err())
				}
				_ = stream.Close()

				out := <-outcomes
				if out.ctxErr == nil {
					t.Fatalf("test setup: the handler's context was never cancelled (Send error: %v)", out.sendErr)
				}
				if out.sendErr == nil {
					t.Skipf("no Send failed after the cancellation (%d attempts)", out.attempts)
				}
				if code := connect.CodeOf(out.sendErr); code != connect.CodeCanceled {
					t.Errorf("handler's context is cancelled (ctx.Err() = %v); the handler's Send #%d after that failed: "+
						"C15 expects code canceled, observed code %v (error: %v)", out.ctxErr, out.attempts, code, out.sendErr)
				}
			})
		}
	}
}
