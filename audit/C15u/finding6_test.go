package connect_test

import (
	"context"
	"net/http"
	"net/http/httptest"
	"testing"

	"github.com/bufbuild/connect-go"
	pingv1 "github.com/bufbuild/connect-go/internal/gen/connect/ping/v1"
)

// C15, last sentence: "A handler that returns its context's error conveys
// that same classification to the client."
//
// Streaming Connect and gRPC-Web carry the handler's error in a final
// envelope (the end-of-stream message / the trailers block). The client's
// envelope reader applies WithReadMaxBytes to that envelope as if it were a
// message: with a limit that every response message respects but that is
// smaller than the final envelope (72 bytes for Connect, 112 for gRPC-Web
// when the error is context.Canceled), the client discards the envelope and
// fails with invalid_argument "message size 72 is larger than configured max
// 32" - the handler's canceled / deadline_exceeded never arrives. (gRPC, which
// uses HTTP trailers, is not affected and serves as the control.)
func TestAuditC15uFinding6(t *testing.T) {
	for _, kind := range []string{"canceled", "deadline_exceeded"} {
		for _, protocol := range []string{"grpc(control)", "connect", "grpcweb"} {
			kind, protocol := kind, protocol
			t.Run(kind+"/"+protocol, func(t *testing.T) {
				want := connect.CodeCanceled
				if kind == "deadline_exceeded" {
					want = connect.CodeDeadlineExceeded
				}
				mux := http.NewServeMux()
				mux.Handle("/count", connect.NewServerStreamHandler("/count", func(ctx context.Context, _ *connect.Request[pingv1.CountUpRequest], stream *connect.ServerStream[pingv1.CountUpResponse]) error {
					if err := stream.Send(&pingv1.CountUpResponse{Number: 1}); err != nil {
						return err
					}
					<-ctx.Done()
					return ctx.Err() // the handler returns its context's error
				}))
				server := httptest.NewUnstartedServer(http.HandlerFunc(func(w http.ResponseWriter, r *http.Request) {
					// Server-side end of the handler's context.
					ctx, cancel := context.WithCancel(r.Context())
					if kind == "deadline_exceeded" {
						ctx, cancel = context.WithTimeout(r.Context(), 0)
					} else {
						cancel()
					}
					defer cancel()
					mux.ServeHTTP(w, r.WithContext(ctx))
				}))
				server.EnableHTTP2 = true
				server.StartTLS()
				defer server.Close()

				// The response messages are 2 bytes (26 when gzipped): a limit of 32
				// bytes is fine for every message of this stream.
				opts := []connect.ClientOption{connect.WithReadMaxBytes(32)}
				switch protocol {
				case "grpc(control)":
					opts = append(opts, connect.WithGRPC())
				case "grpcweb":
					opts = append(opts, connect.WithGRPCWeb())
				}
				client := connect.NewClient[pingv1.CountUpRequest, pingv1.CountUpResponse](server.Client(), server.URL+"/count", opts...)
				stream, err := client.CallServerStream(context.Background(), connect.NewRequest(&pingv1.CountUpRequest{}))
				if err != nil {
					t.Fatalf("test setup: CallServerStream: %v", err)
				}
				defer stream.Close()
				received := 0
				for stream.Receive() {
					received++
				}
				if received != 1 {
					t.Fatalf("test setup: expected to receive 1 message within the read limit, got %d (%v)", received, stream.Err())
				}
				if err := stream.Err(); err == nil || connect.CodeOf(err) != want {
					t.Errorf("handler returned its context's error (%s); client uses WithReadMaxBytes(32) and received the message: "+
						"C15 expects the client to see code %v, observed code %v (error: %v)", kind, want, connect.CodeOf(err), err)
				}
			})
		}
	}
}
