package connect_test

import (
	"context"
	"net/http"
	"net/http/httptest"
	"testing"

	"github.com/bufbuild/connect-go"
	pingv1 "github.com/bufbuild/connect-go/internal/gen/connect/ping/v1"
)

// C15, last sentence: "A handler that returns its context's error conveys
// that same classification to the client."
//
// Connect unary: the handler's context is cancelled (here by a server-side
// middleware; a server shutting down via BaseContext does the same), the
// handler returns ctx.Err() = context.Canceled. The handler answers with HTTP
// 408 and the body {"code":"canceled","message":"context canceled"} (49
// bytes). A client created WithReadMaxBytes(n), n smaller than that body,
// applies the limit to the error body too (connectUnaryClientConn.
// validateResponse), can't read the error, and falls back to the HTTP status:
// 408 means deadline_exceeded. The cancellation reaches the client
// classified as an expiry. (The PingResponse messages of this service are a
// few bytes, so such a limit is a legitimate one for the messages.)
func TestAuditC15uFinding5(t *testing.T) {
	mux := http.NewServeMux()
	mux.Handle("/ping", connect.NewUnaryHandler("/ping", func(ctx context.Context, _ *connect.Request[pingv1.PingRequest]) (*connect.Response[pingv1.PingResponse], error) {
		<-ctx.Done()
		return nil, ctx.Err() // the handler returns its context's error
	}))
	for _, httpVersion := range []string{"http1", "http2"} {
		httpVersion := httpVersion
		t.Run(httpVersion, func(t *testing.T) {
			server := httptest.NewUnstartedServer(http.HandlerFunc(func(w http.ResponseWriter, r *http.Request) {
				ctx, cancel := context.WithCancel(r.Context())
				cancel() // server-side cancellation of the handler's context
				mux.ServeHTTP(w, r.WithContext(ctx))
			}))
			server.EnableHTTP2 = httpVersion == "http2"
			server.StartTLS()
			defer server.Close()

			// Control: without a read limit the classification arrives.
			control := connect.NewClient[pingv1.PingRequest, pingv1.PingResponse](server.Client(), server.URL+"/ping")
			if _, err := control.CallUnary(context.Background(), connect.NewRequest(&pingv1.PingRequest{})); connect.CodeOf(err) != connect.CodeCanceled {
				t.Fatalf("control (no read limit): expected canceled, got %v", err)
			}

			client := connect.NewClient[pingv1.PingRequest, pingv1.PingResponse](server.Client(), server.URL+"/ping", connect.WithReadMaxBytes(32))
			_, err := client.CallUnary(context.Background(), connect.NewRequest(&pingv1.PingRequest{}))
			if err == nil || connect.CodeOf(err) != connect.CodeCanceled {
				t.Errorf("handler returned its context's error (context.Canceled); client uses WithReadMaxBytes(32): "+
					"C15 expects the client to see code canceled, observed code %v (error: %v)", connect.CodeOf(err), err)
			}
		})
	}
}
