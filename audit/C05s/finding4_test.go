package connect_test

import (
	"bytes"
	"context"
	"fmt"
	"io"
	"net/http"
	"net/http/httptest"
	"sync"
	"testing"

	connect "github.com/bufbuild/connect-go"
	pingv1 "github.com/bufbuild/connect-go/internal/gen/connect/ping/v1"
	"github.com/bufbuild/connect-go/internal/gen/connect/ping/v1/pingv1connect"
)

type auditC05sF4Server struct {
	pingv1connect.UnimplementedPingServiceHandler

	mu    sync.Mutex
	calls []string
}

func (s *auditC05sF4Server) Ping(_ context.Context, r *connect.Request[pingv1.PingRequest]) (*connect.Response[pingv1.PingResponse], error) {
	s.mu.Lock()
	defer s.mu.Unlock()
	s.calls = append(s.calls, fmt.Sprintf("{%v}", r.Msg))
	return connect.NewResponse(&pingv1.PingResponse{Number: r.Msg.Number}), nil
}

// The client program: one unary call with a message that the codec cannot
// encode (a string field that is not valid UTF-8 - Protobuf refuses to
// marshal it). CallUnary reports the marshal error, as it should. But it has
// also written a complete, well-formed Connect unary request with an EMPTY
// body to the wire - and an empty body is the valid encoding of the empty
// Protobuf message. A strictly spec-following server decodes it and runs the
// procedure with a message the application never supplied.
//
// The property: every request a client writes yields, at the peer, the
// messages the application supplied. The application supplied
// {number: 9, text: "\xff"}; no request yielding a different message (here the
// empty message) may be written.
func TestAuditC05sFinding4(t *testing.T) {
	service := &auditC05sF4Server{}
	mux := http.NewServeMux()
	mux.Handle(pingv1connect.NewPingServiceHandler(service))
	var wireMu sync.Mutex
	var wire []string
	server := httptest.NewServer(http.HandlerFunc(func(w http.ResponseWriter, r *http.Request) {
		body, _ := io.ReadAll(r.Body)
		wireMu.Lock()
		wire = append(wire, fmt.Sprintf("%s %s Content-Type=%q body=%q", r.Method, r.URL.Path, r.Header.Get("Content-Type"), body))
		wireMu.Unlock()
		r.Body = io.NopCloser(bytes.NewReader(body))
		mux.ServeHTTP(w, r)
	}))
	defer server.Close()

	client := pingv1connect.NewPingServiceClient(server.Client(), server.URL) // Connect protocol, binary codec: the defaults
	_, err := client.Ping(context.Background(), connect.NewRequest(&pingv1.PingRequest{Number: 9, Text: "\xff"}))
	if err == nil {
		t.Fatal("expected the call to fail: the message cannot be marshaled")
	}
	t.Logf("client error (as expected): %v", err)

	service.mu.Lock()
	calls := append([]string(nil), service.calls...)
	service.mu.Unlock()
	wireMu.Lock()
	requests := append([]string(nil), wire...)
	wireMu.Unlock()
	if len(calls) != 0 {
		t.Errorf(
			"unary call whose message cannot be encoded: expected that no request decodable to a message the application did not supply "+
				"is written (the procedure must not run), observed %d request(s) on the wire %q, and the handler ran %d time(s) with message(s) %v",
			len(requests), requests, len(calls), calls,
		)
	}
}
