package connect_test

import (
	"bytes"
	"compress/gzip"
	"context"
	"encoding/binary"
	"io"
	"net/http"
	"net/http/httptest"
	"strings"
	"testing"

	connect "github.com/bufbuild/connect-go"
	pingv1 "github.com/bufbuild/connect-go/internal/gen/connect/ping/v1"
	"github.com/bufbuild/connect-go/internal/gen/connect/ping/v1/pingv1connect"
	"google.golang.org/protobuf/proto"
)

type auditC05sF5Server struct {
	pingv1connect.UnimplementedPingServiceHandler
}

func (auditC05sF5Server) Ping(_ context.Context, r *connect.Request[pingv1.PingRequest]) (*connect.Response[pingv1.PingResponse], error) {
	return connect.NewResponse(&pingv1.PingResponse{Number: r.Msg.Number, Text: strings.Repeat("a", 100)}), nil
}

// A conformant peer compresses its request with gzip and states which
// encodings it accepts for the response; gzip is not among them
// (grpc-accept-encoding: identity / Accept-Encoding: identity - asymmetric
// compression is explicitly allowed by both protocols, and a peer need not be
// able to decompress what it can compress). gRPC's compression specification:
// "For every message a server is requested to compress using an algorithm it
// knows the client doesn't support (as indicated by the last
// grpc-accept-encoding header received from the client), it SHALL send the
// message uncompressed"; a client that receives an encoding it does not support
// fails with INTERNAL. Connect: the server chooses among the encodings listed
// in Accept-Encoding (only when the header is omitted may it assume the
// request's encoding).
//
// The property requires the response to be decodable by that strict peer.
func TestAuditC05sFinding5(t *testing.T) {
	mux := http.NewServeMux()
	mux.Handle(pingv1connect.NewPingServiceHandler(auditC05sF5Server{}))
	server := httptest.NewServer(mux)
	defer server.Close()

	msg, err := proto.Marshal(&pingv1.PingRequest{Number: 42})
	if err != nil {
		t.Fatal(err)
	}
	var gzipped bytes.Buffer
	gzipWriter := gzip.NewWriter(&gzipped)
	_, _ = gzipWriter.Write(msg)
	_ = gzipWriter.Close()
	enveloped := make([]byte, 5+gzipped.Len())
	enveloped[0] = 1
	binary.BigEndian.PutUint32(enveloped[1:5], uint32(gzipped.Len()))
	copy(enveloped[5:], gzipped.Bytes())

	do := func(t *testing.T, contentType string, header map[string]string, body []byte) (*http.Response, []byte) {
		t.Helper()
		request, err := http.NewRequest(http.MethodPost, server.URL+"/connect.ping.v1.PingService/Ping", bytes.NewReader(body))
		if err != nil {
			t.Fatal(err)
		}
		request.Header.Set("Content-Type", contentType)
		request.Header.Set("Accept-Encoding", "identity") // keep net/http from asking for gzip itself
		for key, value := range header {
			request.Header.Set(key, value)
		}
		response, err := server.Client().Do(request)
		if err != nil {
			t.Fatal(err)
		}
		defer response.Body.Close()
		data, err := io.ReadAll(response.Body)
		if err != nil {
			t.Fatal(err)
		}
		return response, data
	}

	for _, contentType := range []string{"application/grpc", "application/grpc-web"} {
		contentType := contentType
		t.Run(contentType, func(t *testing.T) {
			response, data := do(t, contentType, map[string]string{
				"Grpc-Encoding":        "gzip",
				"Grpc-Accept-Encoding": "identity",
			}, enveloped)
			if len(data) < 5 {
				t.Fatalf("no response message: %q (headers %v, trailers %v)", data, response.Header, response.Trailer)
			}
			if encoding := response.Header.Get("Grpc-Encoding"); (encoding != "" && encoding != "identity") || data[0]&1 != 0 {
				t.Errorf(
					"request with grpc-encoding: gzip and grpc-accept-encoding: identity: expected a response the peer accepts - "+
						"no Grpc-Encoding (or identity) and the message frame not flagged compressed - "+
						"observed Grpc-Encoding: %q and first frame flags %#x",
					encoding, data[0],
				)
			}
		})
	}

	t.Run("Connect unary", func(t *testing.T) {
		response, data := do(t, "application/proto", map[string]string{
			"Content-Encoding": "gzip",
			"Accept-Encoding":  "identity",
		}, gzipped.Bytes())
		var got pingv1.PingResponse
		unmarshalErr := proto.Unmarshal(data, &got)
		if encoding := response.Header.Get("Content-Encoding"); (encoding != "" && encoding != "identity") || unmarshalErr != nil || got.Number != 42 {
			t.Errorf(
				"request with Content-Encoding: gzip and Accept-Encoding: identity: expected HTTP %d with an uncompressed body the peer "+
					"can decode (number 42), observed HTTP %d, Content-Encoding: %q, decoding the body as the message: error %v, number %d",
				http.StatusOK, response.StatusCode, encoding, unmarshalErr, got.Number,
			)
		}
	})

	t.Run("Connect streaming", func(t *testing.T) {
		request, err := http.NewRequest(http.MethodPost, server.URL+"/connect.ping.v1.PingService/CountUp", bytes.NewReader(enveloped))
		if err != nil {
			t.Fatal(err)
		}
		request.Header.Set("Content-Type", "application/connect+proto")
		request.Header.Set("Accept-Encoding", "identity")
		request.Header.Set("Connect-Content-Encoding", "gzip")
		request.Header.Set("Connect-Accept-Encoding", "identity")
		response, err := server.Client().Do(request)
		if err != nil {
			t.Fatal(err)
		}
		defer response.Body.Close()
		data, err := io.ReadAll(response.Body)
		if err != nil {
			t.Fatal(err)
		}
		if len(data) < 5 {
			t.Fatalf("no end-of-stream envelope: %q", data)
		}
		if encoding := response.Header.Get("Connect-Content-Encoding"); (encoding != "" && encoding != "identity") || data[0]&1 != 0 {
			t.Errorf(
				"request with connect-content-encoding: gzip and connect-accept-encoding: identity: expected no Connect-Content-Encoding "+
					"(or identity) and envelopes not flagged compressed, observed Connect-Content-Encoding: %q and first envelope flags %#x",
				encoding, data[0],
			)
		}
	})
}
