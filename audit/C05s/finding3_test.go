package connect_test

import (
	"bytes"
	"context"
	"encoding/json"
	"errors"
	"io"
	"net/http"
	"net/http/httptest"
	"testing"

	connect "github.com/bufbuild/connect-go"
	pingv1 "github.com/bufbuild/connect-go/internal/gen/connect/ping/v1"
	"github.com/bufbuild/connect-go/internal/gen/connect/ping/v1/pingv1connect"
	"google.golang.org/protobuf/proto"
)

type auditC05sF3Server struct {
	pingv1connect.UnimplementedPingServiceHandler

	ping func(context.Context, *connect.Request[pingv1.PingRequest]) (*connect.Response[pingv1.PingResponse], error)
}

func (s *auditC05sF3Server) Ping(ctx context.Context, r *connect.Request[pingv1.PingRequest]) (*connect.Response[pingv1.PingResponse], error) {
	return s.ping(ctx, r)
}

// A handler that returns the error it got from another call unchanged
// (`_, err := upstream.Ping(...); return nil, err`). The client puts ALL HTTP
// headers of the upstream response into the error's metadata (Content-Length,
// Content-Type, Content-Encoding, ... included), and the handler writes all of
// the error's metadata onto the wire as headers of its own response.
//
// The upstream peer here is a hand-written, conformant Connect server whose
// JSON has insignificant white space, so its Content-Length differs from the
// length of the JSON the handler writes for the same error.
//
// The property requires that the handler's response is decodable and yields
// the error (code not_found, message "no such thing") the handler returned.
func TestAuditC05sFinding3(t *testing.T) {
	upstream := httptest.NewServer(http.HandlerFunc(func(w http.ResponseWriter, r *http.Request) {
		_, _ = io.Copy(io.Discard, r.Body)
		w.Header().Set("Content-Type", "application/json")
		w.WriteHeader(http.StatusNotFound)
		_, _ = io.WriteString(w, `{ "code": "not_found",  "message": "no such thing" }`)
	}))
	defer upstream.Close()
	upstreamClient := pingv1connect.NewPingServiceClient(upstream.Client(), upstream.URL)

	// Sanity: the library's client decodes the upstream peer's error.
	_, upstreamErr := upstreamClient.Ping(context.Background(), connect.NewRequest(&pingv1.PingRequest{}))
	if connect.CodeOf(upstreamErr) != connect.CodeNotFound {
		t.Fatalf("upstream error not decoded: %v", upstreamErr)
	}

	mux := http.NewServeMux()
	mux.Handle(pingv1connect.NewPingServiceHandler(&auditC05sF3Server{
		ping: func(ctx context.Context, r *connect.Request[pingv1.PingRequest]) (*connect.Response[pingv1.PingResponse], error) {
			_, err := upstreamClient.Ping(ctx, connect.NewRequest(r.Msg))
			return nil, err
		},
	}))
	server := httptest.NewServer(mux)
	defer server.Close()

	msg, err := proto.Marshal(&pingv1.PingRequest{Number: 42})
	if err != nil {
		t.Fatal(err)
	}

	t.Run("strict Connect peer", func(t *testing.T) {
		request, err := http.NewRequest(http.MethodPost, server.URL+"/connect.ping.v1.PingService/Ping", bytes.NewReader(msg))
		if err != nil {
			t.Fatal(err)
		}
		request.Header.Set("Content-Type", "application/proto")
		response, err := server.Client().Do(request)
		if err != nil {
			t.Fatalf("HTTP exchange failed: %v", err)
		}
		defer response.Body.Close()
		data, readErr := io.ReadAll(response.Body)
		var wire struct {
			Code    string `json:"code"`
			Message string `json:"message"`
		}
		jsonErr := json.Unmarshal(data, &wire)
		if response.StatusCode != http.StatusNotFound || readErr != nil || jsonErr != nil ||
			wire.Code != "not_found" || wire.Message != "no such thing" {
			t.Errorf(
				"Connect unary error response of a handler that returns another call's error: expected HTTP 404 with a readable JSON body "+
					"{code: not_found, message: no such thing}, observed HTTP %d, Content-Length header %q but %d body bytes %q, "+
					"body read error: %v, JSON error: %v",
				response.StatusCode, response.Header.Values("Content-Length"), len(data), data, readErr, jsonErr,
			)
		}
	})

	t.Run("library client", func(t *testing.T) {
		client := pingv1connect.NewPingServiceClient(server.Client(), server.URL)
		_, err := client.Ping(context.Background(), connect.NewRequest(&pingv1.PingRequest{Number: 42}))
		var connectErr *connect.Error
		if !errors.As(err, &connectErr) || connectErr.Code() != connect.CodeNotFound || connectErr.Message() != "no such thing" {
			t.Errorf(
				"client of a handler that returns another call's error: expected the error the handler returned "+
					"(not_found: no such thing), observed: %v",
				err,
			)
		}
	})
}
