package connect_test

import (
	"bytes"
	"context"
	"encoding/binary"
	"io"
	"net/http"
	"net/http/httptest"
	"strings"
	"testing"

	connect "github.com/bufbuild/connect-go"
	pingv1 "github.com/bufbuild/connect-go/internal/gen/connect/ping/v1"
	"github.com/bufbuild/connect-go/internal/gen/connect/ping/v1/pingv1connect"
	"google.golang.org/protobuf/proto"
)

type auditC05sF2Server struct {
	pingv1connect.UnimplementedPingServiceHandler

	ping func(context.Context, *connect.Request[pingv1.PingRequest]) (*connect.Response[pingv1.PingResponse], error)
}

func (s *auditC05sF2Server) Ping(ctx context.Context, r *connect.Request[pingv1.PingRequest]) (*connect.Response[pingv1.PingResponse], error) {
	return s.ping(ctx, r)
}

// A handler that answers with the Response it got from another call (a
// forwarding handler: `return upstream.Ping(ctx, ...)`). Everything is this
// library with its default options. The upstream call is a Connect unary call
// that asks for gzip (the client default), so the forwarded Response's header
// map holds the upstream HTTP response's Content-Length (of the gzipped body),
// Content-Encoding and Content-Type. The handler copies that map onto the
// wire. (Commit 814f7a0 treats exactly this program - "a Request or Response
// forwarded from another call" - as in scope, but only removes Content-Encoding
// and only in the Connect unary marshaler.)
//
// The downstream peer is a strict client that does not accept compression. The
// property requires that it can decode the response and gets the message the
// handler supplied.
func TestAuditC05sFinding2(t *testing.T) {
	text := strings.Repeat("a", 200)
	upstreamMux := http.NewServeMux()
	upstreamMux.Handle(pingv1connect.NewPingServiceHandler(&auditC05sF2Server{
		ping: func(_ context.Context, r *connect.Request[pingv1.PingRequest]) (*connect.Response[pingv1.PingResponse], error) {
			return connect.NewResponse(&pingv1.PingResponse{Number: r.Msg.Number, Text: text}), nil
		},
	}))
	upstream := httptest.NewServer(upstreamMux)
	defer upstream.Close()
	upstreamClient := pingv1connect.NewPingServiceClient(upstream.Client(), upstream.URL)

	mux := http.NewServeMux()
	mux.Handle(pingv1connect.NewPingServiceHandler(&auditC05sF2Server{
		ping: func(ctx context.Context, r *connect.Request[pingv1.PingRequest]) (*connect.Response[pingv1.PingResponse], error) {
			return upstreamClient.Ping(ctx, connect.NewRequest(r.Msg))
		},
	}))
	server := httptest.NewServer(mux)
	defer server.Close()

	msg, err := proto.Marshal(&pingv1.PingRequest{Number: 42})
	if err != nil {
		t.Fatal(err)
	}
	do := func(t *testing.T, contentType string, body []byte) (*http.Response, []byte, error) {
		t.Helper()
		request, err := http.NewRequest(http.MethodPost, server.URL+"/connect.ping.v1.PingService/Ping", bytes.NewReader(body))
		if err != nil {
			t.Fatal(err)
		}
		request.Header.Set("Content-Type", contentType)
		// This peer accepts no compression (and net/http must not ask for gzip on
		// its own behalf).
		request.Header.Set("Accept-Encoding", "identity")
		response, err := server.Client().Do(request)
		if err != nil {
			t.Fatalf("HTTP exchange failed: %v", err)
		}
		defer response.Body.Close()
		data, readErr := io.ReadAll(response.Body)
		return response, data, readErr
	}

	t.Run("Connect unary", func(t *testing.T) {
		response, data, readErr := do(t, "application/proto", msg)
		if response.StatusCode != http.StatusOK {
			t.Fatalf("expected HTTP 200, got %d", response.StatusCode)
		}
		var got pingv1.PingResponse
		unmarshalErr := proto.Unmarshal(data, &got)
		if readErr != nil || unmarshalErr != nil || got.Number != 42 || got.Text != text ||
			response.Header.Get("Content-Encoding") != "" || len(response.Header.Values("Content-Type")) != 1 {
			t.Errorf(
				"Connect unary response of a handler that forwards another call's Response: expected a decodable, uncompressed "+
					"response carrying the handler's message (number 42, 200-byte text) with one Content-Type, "+
					"observed: body read error %v, %d body bytes, unmarshal error %v, number %d, %d-byte text; "+
					"Content-Length %q, Content-Encoding %q, Content-Type %q",
				readErr, len(data), unmarshalErr, got.Number, len(got.Text),
				response.Header.Values("Content-Length"), response.Header.Values("Content-Encoding"), response.Header.Values("Content-Type"),
			)
		}
	})

	t.Run("gRPC-Web", func(t *testing.T) {
		enveloped := make([]byte, 5+len(msg))
		binary.BigEndian.PutUint32(enveloped[1:5], uint32(len(msg)))
		copy(enveloped[5:], msg)
		response, data, readErr := do(t, "application/grpc-web", enveloped)
		if response.StatusCode != http.StatusOK {
			t.Fatalf("expected HTTP 200, got %d", response.StatusCode)
		}
		// Strict decoding of the body: message frames, then one 0x80 trailers frame.
		var messages [][]byte
		trailerFrames := 0
		rest := data
		framingOK := readErr == nil
		for framingOK && len(rest) > 0 {
			if len(rest) < 5 {
				framingOK = false
				break
			}
			size := int(binary.BigEndian.Uint32(rest[1:5]))
			if len(rest) < 5+size {
				framingOK = false
				break
			}
			if rest[0]&0x80 != 0 {
				trailerFrames++
			} else {
				messages = append(messages, rest[5:5+size])
			}
			rest = rest[5+size:]
		}
		var got pingv1.PingResponse
		if len(messages) == 1 {
			_ = proto.Unmarshal(messages[0], &got)
		}
		if !framingOK || len(messages) != 1 || trailerFrames != 1 || got.Number != 42 || got.Text != text ||
			response.Header.Get("Content-Encoding") != "" || len(response.Header.Values("Content-Type")) != 1 {
			t.Errorf(
				"gRPC-Web response of a handler that forwards another call's Response: expected one message frame (number 42, "+
					"200-byte text) and one trailers frame, no HTTP Content-Encoding (the body is not gzip) and one Content-Type "+
					"echoing the request's, observed: body read error %v, %d body bytes %q, %d message frames, %d trailers frames, "+
					"number %d, %d-byte text; Content-Length %q, Content-Encoding %q, Content-Type %q",
				readErr, len(data), data, len(messages), trailerFrames, got.Number, len(got.Text),
				response.Header.Values("Content-Length"), response.Header.Values("Content-Encoding"), response.Header.Values("Content-Type"),
			)
		}
	})
}
