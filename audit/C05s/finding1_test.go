package connect_test

import (
	"bytes"
	"context"
	"encoding/binary"
	"io"
	"net/http"
	"net/http/httptest"
	"testing"

	connect "github.com/bufbuild/connect-go"
	pingv1 "github.com/bufbuild/connect-go/internal/gen/connect/ping/v1"
	"github.com/bufbuild/connect-go/internal/gen/connect/ping/v1/pingv1connect"
	"google.golang.org/protobuf/proto"
)

type auditC05sF1Server struct {
	pingv1connect.UnimplementedPingServiceHandler
}

func (auditC05sF1Server) Ping(_ context.Context, r *connect.Request[pingv1.PingRequest]) (*connect.Response[pingv1.PingResponse], error) {
	return connect.NewResponse(&pingv1.PingResponse{Number: r.Msg.Number}), nil
}

func (auditC05sF1Server) CountUp(context.Context, *connect.Request[pingv1.CountUpRequest], *connect.ServerStream[pingv1.CountUpResponse]) error {
	return nil
}

// A conformant peer sends a request in a compression the handler does not
// know. The protocols require the handler to answer "unimplemented" and to
// list what it accepts. The response must still be a well-formed response of
// the protocol: its message-encoding header (Grpc-Encoding /
// Connect-Content-Encoding) is either absent or names an algorithm
// (Content-Coding -> "identity" / "gzip" / ...). A strictly spec-following
// client that finds an encoding header resolves its value to a decompressor and
// fails the call locally (gRPC: INTERNAL) if it cannot - so it never gets to
// the "unimplemented" status the handler sent.
func TestAuditC05sFinding1(t *testing.T) {
	mux := http.NewServeMux()
	mux.Handle(pingv1connect.NewPingServiceHandler(auditC05sF1Server{}))
	server := httptest.NewServer(mux)
	defer server.Close()

	msg, err := proto.Marshal(&pingv1.PingRequest{Number: 42})
	if err != nil {
		t.Fatal(err)
	}
	enveloped := make([]byte, 5+len(msg))
	enveloped[0] = 1 // compressed (with the algorithm named in the header)
	binary.BigEndian.PutUint32(enveloped[1:5], uint32(len(msg)))
	copy(enveloped[5:], msg)

	for _, testCase := range []struct {
		name           string
		path           string
		contentType    string
		requestHeader  string
		responseHeader string
	}{
		{"gRPC", "/connect.ping.v1.PingService/Ping", "application/grpc", "Grpc-Encoding", "Grpc-Encoding"},
		{"gRPC-Web", "/connect.ping.v1.PingService/Ping", "application/grpc-web", "Grpc-Encoding", "Grpc-Encoding"},
		{"Connect streaming", "/connect.ping.v1.PingService/CountUp", "application/connect+proto", "Connect-Content-Encoding", "Connect-Content-Encoding"},
	} {
		testCase := testCase
		t.Run(testCase.name, func(t *testing.T) {
			request, err := http.NewRequest(http.MethodPost, server.URL+testCase.path, bytes.NewReader(enveloped))
			if err != nil {
				t.Fatal(err)
			}
			request.Header.Set("Content-Type", testCase.contentType)
			request.Header.Set(testCase.requestHeader, "snappy") // legal Content-Coding, not registered with the handler
			response, err := server.Client().Do(request)
			if err != nil {
				t.Fatal(err)
			}
			defer response.Body.Close()
			_, _ = io.Copy(io.Discard, response.Body)
			if response.StatusCode != http.StatusOK {
				t.Fatalf("expected HTTP 200, got %d", response.StatusCode)
			}
			values, present := response.Header[testCase.responseHeader]
			if !present {
				return // fine: no encoding header means identity
			}
			for _, value := range values {
				if value == "" {
					t.Errorf(
						"%s response to a request in an unknown compression: expected the %s header to be absent or to name an algorithm "+
							"(Content-Coding is \"identity\" / \"gzip\" / ...; the property says an encoding header names an algorithm), "+
							"observed the header present with an EMPTY value: %s: %q (all response headers: %v)",
						testCase.name, testCase.responseHeader, testCase.responseHeader, values, response.Header,
					)
				}
			}
		})
	}
}
