package connect_test

import (
	"bytes"
	"compress/gzip"
	"context"
	"errors"
	"net/http"
	"net/http/httptest"
	"strings"
	"testing"

	connect "github.com/bufbuild/connect-go"
	pingv1 "github.com/bufbuild/connect-go/internal/gen/connect/ping/v1"
)

// Property C09: with a read limit of N bytes on a client, nothing the peer
// sends in place of a message that exceeds N bytes - on the wire or after
// decompression - is delivered to the application, and a peer cannot make the
// receiver buffer substantially more than N bytes by sending a highly
// compressible payload.
//
// Observed: in the Connect protocol, a unary response with a non-200 status is
// read and decompressed by a second connectUnaryUnmarshaler that has no read
// limit at all. A ~16 KiB gzip body is inflated to 16 MiB in memory, parsed,
// and the 16 MiB string is handed to the application as the error message,
// although the client was configured with WithReadMaxBytes(1024).
func TestAuditC09aFinding2(t *testing.T) {
	const readMaxBytes = 1024
	const payload = 16 * 1024 * 1024

	newServer := func(compress bool) *httptest.Server {
		body := []byte(`{"code":"resource_exhausted","message":"` + strings.Repeat("A", payload) + `"}`)
		if compress {
			var buf bytes.Buffer
			w := gzip.NewWriter(&buf)
			_, _ = w.Write(body)
			_ = w.Close()
			body = buf.Bytes()
		}
		return httptest.NewServer(http.HandlerFunc(func(w http.ResponseWriter, _ *http.Request) {
			w.Header().Set("Content-Type", "application/json")
			if compress {
				w.Header().Set("Content-Encoding", "gzip")
			}
			w.WriteHeader(http.StatusTooManyRequests)
			_, _ = w.Write(body)
		}))
	}

	for _, compress := range []bool{true, false} {
		name := "identity"
		if compress {
			name = "gzip_bomb"
		}
		t.Run(name, func(t *testing.T) {
			server := newServer(compress)
			defer server.Close()
			client := connect.NewClient[pingv1.PingRequest, pingv1.PingResponse](
				server.Client(),
				server.URL+"/connect.ping.v1.PingService/Ping",
				connect.WithReadMaxBytes(readMaxBytes),
			)
			_, err := client.CallUnary(context.Background(), connect.NewRequest(&pingv1.PingRequest{}))
			if err == nil {
				t.Fatal("expected an error")
			}
			var connectErr *connect.Error
			if !errors.As(err, &connectErr) {
				t.Fatalf("uncoded error %v", err)
			}
			if got := len(connectErr.Message()); got > 2*readMaxBytes {
				t.Fatalf("C09 expects: with read limit %d the client neither buffers nor delivers substantially more than %d bytes "+
					"of peer-controlled response payload; observed: the whole error body was buffered (and inflated) without any limit "+
					"and an error message of %d bytes (code %v) was delivered to the application",
					readMaxBytes, readMaxBytes, got, connectErr.Code())
			}
		})
	}
}
