package connect_test

import (
	"context"
	"encoding/binary"
	"io"
	"net/http"
	"net/http/httptest"
	"strings"
	"testing"

	connect "github.com/bufbuild/connect-go"
	pingv1 "github.com/bufbuild/connect-go/internal/gen/connect/ping/v1"
)

type auditC09aFailingReader struct{ err error }

func (r auditC09aFailingReader) Read([]byte) (int, error) { return 0, r.err }

// Property C09: a message whose declared/encoded size exceeds the read limit N
// is never delivered and "that call fails with the documented error"
// (invalid_argument, "message size X is larger than configured max N"), also
// when the declared length differs from the bytes actually present.
//
// Observed: for enveloped protocols (Connect streaming, gRPC, gRPC-Web) the
// envelope reader knows from the 5-byte prefix alone that the message is over
// the limit, but it first drains the declared number of bytes and, if the
// transport fails during that courtesy drain with anything other than io.EOF
// (for example io.ErrUnexpectedEOF from a truncated HTTP/1.1 body), it reports
// "unknown: read enveloped message: unexpected EOF" - the limit violation is
// lost. The unary Connect path, in the same situation, does report the limit
// error.
func TestAuditC09aFinding3(t *testing.T) {
	const readMaxBytes = 100
	const procedure = "/connect.ping.v1.PingService/Sum"

	for _, contentType := range []string{"application/connect+proto", "application/grpc", "application/grpc-web"} {
		contentType := contentType
		t.Run(contentType, func(t *testing.T) {
			var handlerErr error
			handler := connect.NewClientStreamHandler(
				procedure,
				func(_ context.Context, stream *connect.ClientStream[pingv1.SumRequest]) (*connect.Response[pingv1.SumResponse], error) {
					for stream.Receive() {
						t.Errorf("oversized message delivered to handler")
					}
					handlerErr = stream.Err()
					return nil, handlerErr
				},
				connect.WithReadMaxBytes(readMaxBytes),
			)
			// Envelope prefix declares 1000 bytes (> N = 100); only 10 bytes follow
			// before the transport reports a truncated body.
			prefix := make([]byte, 5)
			binary.BigEndian.PutUint32(prefix[1:], 1000)
			body := io.MultiReader(
				strings.NewReader(string(prefix)+strings.Repeat("x", 10)),
				auditC09aFailingReader{err: io.ErrUnexpectedEOF},
			)
			request := httptest.NewRequest(http.MethodPost, "http://localhost"+procedure, body)
			request.Header.Set("Content-Type", contentType)
			request.ProtoMajor, request.ProtoMinor = 2, 0
			recorder := httptest.NewRecorder()
			handler.ServeHTTP(recorder, request)

			if handlerErr == nil {
				t.Fatal("expected Receive to fail")
			}
			if connect.CodeOf(handlerErr) != connect.CodeInvalidArgument ||
				!strings.Contains(handlerErr.Error(), "larger than configured max 100") {
				t.Fatalf("C09 expects: envelope declaring 1000 bytes with read limit %d fails with the documented error "+
					"(invalid_argument: message size 1000 is larger than configured max %d); observed: %q (code %v)",
					readMaxBytes, readMaxBytes, handlerErr, connect.CodeOf(handlerErr))
			}
		})
	}
}
