package connect_test

import (
	"context"
	"errors"
	"net/http"
	"net/http/httptest"
	"reflect"
	"testing"

	connect "github.com/bufbuild/connect-go"
	pingv1 "github.com/bufbuild/connect-go/internal/gen/connect/ping/v1"
	"github.com/bufbuild/connect-go/internal/gen/connect/ping/v1/pingv1connect"
)

type auditC11uF4Server struct {
	pingv1connect.UnimplementedPingServiceHandler
}

// Printable-ASCII values (0x20-0x7E) that begin or end with a space.
var auditC11uF4Values = []string{" lead", "trail ", " both ", "in ner"}

func (s *auditC11uF4Server) CountUp(_ context.Context, req *connect.Request[pingv1.CountUpRequest], stream *connect.ServerStream[pingv1.CountUpResponse]) error {
	stream.ResponseHeader()["X-Hdr"] = auditC11uF4Values
	stream.ResponseTrailer()["X-Trl"] = auditC11uF4Values
	if err := stream.Send(&pingv1.CountUpResponse{Number: 1}); err != nil {
		return err
	}
	if req.Header().Get("X-Mode") == "error" {
		e := connect.NewError(connect.CodeAborted, errors.New("boom"))
		e.Meta()["X-Err"] = auditC11uF4Values
		return e
	}
	return nil
}

func TestAuditC11uFinding4(t *testing.T) {
	mux := http.NewServeMux()
	mux.Handle(pingv1connect.NewPingServiceHandler(&auditC11uF4Server{}))
	server := httptest.NewUnstartedServer(mux)
	server.EnableHTTP2 = true
	server.StartTLS()
	defer server.Close()

	for _, proto := range []struct {
		name string
		opts []connect.ClientOption
	}{
		{"connect(control)", nil},
		{"grpc(control)", []connect.ClientOption{connect.WithGRPC()}},
		{"grpcweb", []connect.ClientOption{connect.WithGRPCWeb()}},
	} {
		client := pingv1connect.NewPingServiceClient(server.Client(), server.URL, proto.opts...)
		for _, mode := range []string{"success", "error"} {
			mode := mode
			t.Run(proto.name+"/"+mode, func(t *testing.T) {
				req := connect.NewRequest(&pingv1.CountUpRequest{Number: 1})
				req.Header().Set("X-Mode", mode)
				stream, err := client.CountUp(context.Background(), req)
				if err != nil {
					t.Fatal(err)
				}
				defer stream.Close()
				for stream.Receive() {
				}
				if got := stream.ResponseHeader()["X-Hdr"]; !reflect.DeepEqual(got, auditC11uF4Values) {
					t.Errorf("response header X-Hdr: expected %q, observed %q", auditC11uF4Values, got)
				}
				if got := stream.ResponseTrailer()["X-Trl"]; !reflect.DeepEqual(got, auditC11uF4Values) {
					t.Errorf("C11 expects trailer values to arrive unchanged: response trailer X-Trl expected %q, observed %q", auditC11uF4Values, got)
				}
				if mode == "error" {
					var connectErr *connect.Error
					if !errors.As(stream.Err(), &connectErr) {
						t.Fatalf("expected error, got %v", stream.Err())
					}
					if got := connectErr.Meta()["X-Err"]; !reflect.DeepEqual(got, auditC11uF4Values) {
						t.Errorf("C11 expects error metadata values to arrive unchanged: Meta()[X-Err] expected %q, observed %q", auditC11uF4Values, got)
					}
				} else if stream.Err() != nil {
					t.Fatal(stream.Err())
				}
			})
		}
	}
}
