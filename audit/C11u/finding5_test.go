package connect_test

import (
	"context"
	"errors"
	"net/http"
	"net/http/httptest"
	"strings"
	"testing"

	connect "github.com/bufbuild/connect-go"
	pingv1 "github.com/bufbuild/connect-go/internal/gen/connect/ping/v1"
	"github.com/bufbuild/connect-go/internal/gen/connect/ping/v1/pingv1connect"
)

type auditC11uF5Server struct {
	pingv1connect.UnimplementedPingServiceHandler
}

var auditC11uF5Big = strings.Repeat("x", 2000)

func (s *auditC11uF5Server) CountUp(_ context.Context, req *connect.Request[pingv1.CountUpRequest], stream *connect.ServerStream[pingv1.CountUpResponse]) error {
	stream.ResponseHeader().Set("X-Hdr", auditC11uF5Big)
	stream.ResponseTrailer().Set("X-Trl", auditC11uF5Big)
	if err := stream.Send(&pingv1.CountUpResponse{Number: 1}); err != nil { // a 2-byte message
		return err
	}
	if req.Header().Get("X-Mode") == "error" {
		e := connect.NewError(connect.CodeAborted, errors.New("boom"))
		e.Meta().Set("X-Err", auditC11uF5Big)
		return e
	}
	return nil
}

func TestAuditC11uFinding5(t *testing.T) {
	mux := http.NewServeMux()
	mux.Handle(pingv1connect.NewPingServiceHandler(&auditC11uF5Server{}))
	server := httptest.NewUnstartedServer(mux)
	server.EnableHTTP2 = true
	server.StartTLS()
	defer server.Close()

	for _, proto := range []struct {
		name string
		opts []connect.ClientOption
	}{
		{"grpc(control)", []connect.ClientOption{connect.WithGRPC()}},
		{"connect", nil},
		{"grpcweb", []connect.ClientOption{connect.WithGRPCWeb()}},
	} {
		// Every message of this RPC is 2 bytes; the client limits messages to 1000 bytes.
		opts := append([]connect.ClientOption{connect.WithReadMaxBytes(1000)}, proto.opts...)
		client := pingv1connect.NewPingServiceClient(server.Client(), server.URL, opts...)
		for _, mode := range []string{"success", "error"} {
			mode := mode
			t.Run(proto.name+"/"+mode, func(t *testing.T) {
				req := connect.NewRequest(&pingv1.CountUpRequest{Number: 1})
				req.Header().Set("X-Mode", mode)
				stream, err := client.CountUp(context.Background(), req)
				if err != nil {
					t.Fatal(err)
				}
				defer stream.Close()
				messages := 0
				for stream.Receive() {
					messages++
				}
				if messages != 1 {
					t.Errorf("expected 1 message, got %d", messages)
				}
				if got := stream.ResponseHeader().Get("X-Hdr"); got != auditC11uF5Big {
					t.Errorf("response header X-Hdr: expected 2000 bytes, observed %d", len(got))
				}
				if mode == "success" {
					if stream.Err() != nil {
						t.Errorf("the handler succeeded, the client reports %v", stream.Err())
					}
					if got := stream.ResponseTrailer().Get("X-Trl"); got != auditC11uF5Big {
						t.Errorf("C11 expects the trailer the handler set to be visible among the response's trailers: X-Trl expected 2000 bytes, observed %d bytes", len(got))
					}
					return
				}
				var connectErr *connect.Error
				if !errors.As(stream.Err(), &connectErr) {
					t.Fatalf("expected error, got %v", stream.Err())
				}
				if got := connectErr.Meta().Get("X-Trl"); got != auditC11uF5Big {
					t.Errorf("C11 expects the handler's trailer at least in the error's metadata: X-Trl expected 2000 bytes, observed %d bytes (client error: %v)", len(got), stream.Err())
				}
				if got := connectErr.Meta().Get("X-Err"); got != auditC11uF5Big {
					t.Errorf("C11 expects the handler's error metadata in the client's error metadata: X-Err expected 2000 bytes, observed %d bytes (client error: %v)", len(got), stream.Err())
				}
			})
		}
	}
}
