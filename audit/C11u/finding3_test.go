package connect_test

import (
	"context"
	"errors"
	"net/http"
	"net/http/httptest"
	"reflect"
	"testing"

	connect "github.com/bufbuild/connect-go"
	pingv1 "github.com/bufbuild/connect-go/internal/gen/connect/ping/v1"
	"github.com/bufbuild/connect-go/internal/gen/connect/ping/v1/pingv1connect"
)

type auditC11uF3Server struct {
	pingv1connect.UnimplementedPingServiceHandler
}

// Valid header names, none under a protocol-reserved prefix (Connect-, Grpc-,
// Trailer-), none of them describing the framing of the response.
var auditC11uF3Keys = []string{"Www-Authenticate", "Cache-Control", "Authorization", "Pragma", "Realm", "If-Match", "X-Control"}

func (s *auditC11uF3Server) Ping(_ context.Context, req *connect.Request[pingv1.PingRequest]) (*connect.Response[pingv1.PingResponse], error) {
	if req.Header().Get("X-Mode") == "error" {
		e := connect.NewError(connect.CodeUnauthenticated, errors.New("who are you"))
		for _, k := range auditC11uF3Keys {
			e.Meta()[k] = []string{"Bearer a", "Basic b"}
		}
		return nil, e
	}
	res := connect.NewResponse(&pingv1.PingResponse{})
	for _, k := range auditC11uF3Keys {
		res.Trailer()[k] = []string{"Bearer a", "Basic b"}
	}
	return res, nil
}

func TestAuditC11uFinding3(t *testing.T) {
	mux := http.NewServeMux()
	mux.Handle(pingv1connect.NewPingServiceHandler(&auditC11uF3Server{}))
	server := httptest.NewUnstartedServer(mux)
	server.EnableHTTP2 = true
	server.StartTLS()
	defer server.Close()

	want := []string{"Bearer a", "Basic b"}
	for _, proto := range []struct {
		name string
		opts []connect.ClientOption
	}{
		{"connect(control)", nil},
		{"grpcweb(control)", []connect.ClientOption{connect.WithGRPCWeb()}},
		{"grpc", []connect.ClientOption{connect.WithGRPC()}},
	} {
		client := pingv1connect.NewPingServiceClient(server.Client(), server.URL, proto.opts...)
		t.Run(proto.name+"/success-trailers", func(t *testing.T) {
			res, err := client.Ping(context.Background(), connect.NewRequest(&pingv1.PingRequest{}))
			if err != nil {
				t.Fatal(err)
			}
			for _, k := range auditC11uF3Keys {
				if got := res.Trailer()[k]; !reflect.DeepEqual(got, want) {
					t.Errorf("C11 expects every trailer the handler sets to be visible to the client: response trailer %s expected %q, observed %q", k, want, got)
				}
			}
		})
		t.Run(proto.name+"/error-metadata", func(t *testing.T) {
			req := connect.NewRequest(&pingv1.PingRequest{})
			req.Header().Set("X-Mode", "error")
			_, err := client.Ping(context.Background(), req)
			var connectErr *connect.Error
			if !errors.As(err, &connectErr) {
				t.Fatalf("expected error, got %v", err)
			}
			for _, k := range auditC11uF3Keys {
				if got := connectErr.Meta()[k]; !reflect.DeepEqual(got, want) {
					t.Errorf("C11 expects the handler's error metadata to be visible in the client's error metadata: Meta()[%s] expected %q, observed %q", k, want, got)
				}
			}
		})
	}
}
