// Demonstration test for audit finding 3 of property C17 (generated code is
// valid Go that routes every RPC at its canonical path). Drop this file into
// the repository root and run:
//
//	go test -vet=off -count=1 -run TestAuditC17aFinding3 .
//
// The test builds cmd/protoc-gen-connect-go, feeds it a CodeGeneratorRequest
// built from descriptors constructed in Go (exactly what protoc would send for
// the .proto text quoted in the test), writes the emitted files into a scratch
// directory below ./internal/ (removed afterwards) and compiles them with
// "go build" against the library.
package connect_test

import (
	"bytes"
	"os"
	"os/exec"
	"path/filepath"
	"strings"
	"testing"

	pingv1 "github.com/bufbuild/connect-go/internal/gen/connect/ping/v1"
	"google.golang.org/protobuf/proto"
	"google.golang.org/protobuf/reflect/protodesc"
	"google.golang.org/protobuf/types/descriptorpb"
	"google.golang.org/protobuf/types/pluginpb"
)

type auditC17aF3Method struct {
	name     string
	cs, ss   bool   // client / server streaming
	comments string // leading comment as protoc records it (text after "//", one line per "\n")
}

type auditC17aF3Service struct {
	name    string
	methods []auditC17aF3Method
}

const auditC17aF3Module = "github.com/bufbuild/connect-go/internal/"

// auditC17aF3File builds the descriptor of
//
//	syntax = "proto3";
//	package <pkg>;
//	import "connect/ping/v1/ping.proto";
//	option go_package = "<goPackage>";
//	service <name> { rpc <method>([stream] connect.ping.v1.PingRequest) returns ([stream] connect.ping.v1.PingResponse); ... }
func auditC17aF3File(name, pkg, goPackage string, services []auditC17aF3Service) *descriptorpb.FileDescriptorProto {
	fd := &descriptorpb.FileDescriptorProto{
		Name:           proto.String(name),
		Syntax:         proto.String("proto3"),
		Package:        proto.String(pkg),
		Dependency:     []string{"connect/ping/v1/ping.proto"},
		Options:        &descriptorpb.FileOptions{GoPackage: proto.String(goPackage)},
		SourceCodeInfo: &descriptorpb.SourceCodeInfo{},
	}
	for si, s := range services {
		sd := &descriptorpb.ServiceDescriptorProto{Name: proto.String(s.name)}
		for mi, m := range s.methods {
			md := &descriptorpb.MethodDescriptorProto{
				Name:       proto.String(m.name),
				InputType:  proto.String(".connect.ping.v1.PingRequest"),
				OutputType: proto.String(".connect.ping.v1.PingResponse"),
			}
			if m.cs {
				md.ClientStreaming = proto.Bool(true)
			}
			if m.ss {
				md.ServerStreaming = proto.Bool(true)
			}
			if m.comments != "" {
				fd.SourceCodeInfo.Location = append(fd.SourceCodeInfo.Location, &descriptorpb.SourceCodeInfo_Location{
					Path:            []int32{6, int32(si), 2, int32(mi)}, // file.service[si].method[mi]
					Span:            []int32{int32(10 + 2*mi), 2, 60},
					LeadingComments: proto.String(m.comments),
				})
			}
			sd.Method = append(sd.Method, md)
		}
		fd.Service = append(fd.Service, sd)
	}
	return fd
}

func auditC17aF3FourKinds() []auditC17aF3Method {
	return []auditC17aF3Method{
		{name: "Unary"},
		{name: "ClientStream", cs: true},
		{name: "ServerStream", ss: true},
		{name: "Bidi", cs: true, ss: true},
	}
}

// auditC17aF3Generate builds the unchanged generator and runs it on fd
// (plus the checked-in descriptor of connect/ping/v1/ping.proto, which fd
// imports for its request and response messages).
func auditC17aF3Generate(t *testing.T, parameter string, fd *descriptorpb.FileDescriptorProto) *pluginpb.CodeGeneratorResponse {
	t.Helper()
	bin := filepath.Join(t.TempDir(), "protoc-gen-connect-go")
	if out, err := exec.Command("go", "build", "-o", bin, "./cmd/protoc-gen-connect-go").CombinedOutput(); err != nil {
		t.Fatalf("cannot build the generator: %v\n%s", err, out)
	}
	req := &pluginpb.CodeGeneratorRequest{
		FileToGenerate: []string{fd.GetName()},
		ProtoFile: []*descriptorpb.FileDescriptorProto{
			protodesc.ToFileDescriptorProto(pingv1.File_connect_ping_v1_ping_proto),
			fd,
		},
	}
	if parameter != "" {
		req.Parameter = proto.String(parameter)
	}
	// The request must describe a valid Protobuf file: let the protobuf
	// runtime link it the way protoc would.
	if _, err := protodesc.NewFiles(&descriptorpb.FileDescriptorSet{File: req.ProtoFile}); err != nil {
		t.Fatalf("test bug: the input is not a valid Protobuf file: %v", err)
	}
	in, err := proto.Marshal(req)
	if err != nil {
		t.Fatal(err)
	}
	cmd := exec.Command(bin)
	cmd.Stdin = bytes.NewReader(in)
	var stdout, stderr bytes.Buffer
	cmd.Stdout, cmd.Stderr = &stdout, &stderr
	if err := cmd.Run(); err != nil {
		t.Fatalf("property C17 expects the generator to succeed on a valid file; it exited with %v: %s", err, stderr.String())
	}
	res := &pluginpb.CodeGeneratorResponse{}
	if err := proto.Unmarshal(stdout.Bytes(), res); err != nil {
		t.Fatal(err)
	}
	if res.Error != nil {
		t.Fatalf("property C17 expects the generator to succeed on a valid file; it reported: %s", res.GetError())
	}
	return res
}

// auditC17aF3Compile writes the generated files (whose names start with the
// module's internal/<scratch>/ import path) plus extra files into
// ./internal/<scratch>/ and runs "go build" on every directory written.
func auditC17aF3Compile(t *testing.T, scratch string, res *pluginpb.CodeGeneratorResponse, extra map[string]string) (source string, output string, err error) {
	t.Helper()
	root := filepath.Join("internal", scratch)
	_ = os.RemoveAll(root)
	t.Cleanup(func() { _ = os.RemoveAll(root) })
	files := map[string]string{}
	for name, content := range extra {
		files[name] = content
	}
	for _, f := range res.File {
		prefix := auditC17aF3Module + scratch + "/"
		if !strings.HasPrefix(f.GetName(), prefix) {
			t.Fatalf("unexpected generated file name %q", f.GetName())
		}
		files[strings.TrimPrefix(f.GetName(), prefix)] = f.GetContent()
		source += f.GetContent()
	}
	if len(res.File) == 0 {
		t.Fatalf("property C17 expects a generated file for a file with services; got none")
	}
	seen := map[string]bool{}
	var dirs []string
	for name, content := range files {
		p := filepath.Join(root, filepath.FromSlash(name))
		if err := os.MkdirAll(filepath.Dir(p), 0o755); err != nil {
			t.Fatal(err)
		}
		if err := os.WriteFile(p, []byte(content), 0o644); err != nil {
			t.Fatal(err)
		}
		if d := "./" + filepath.ToSlash(filepath.Dir(p)); !seen[d] {
			seen[d] = true
			dirs = append(dirs, d)
		}
	}
	out, err := exec.Command("go", append([]string{"build"}, dirs...)...).CombinedOutput()
	return source, string(out), err
}

// TestAuditC17aFinding3: names that are distinct in Protobuf but map to the
// same Go name (they differ only in the case of the first letter, or in
// snake_case versus CamelCase spelling).
//
//	service Foo { rpc GetFoo(...) returns (...); rpc get_foo(...) returns (...); }
//
//	service foo_service { ... }   service FooService { ... }
//
// Protobuf identifiers are case sensitive, so both files are valid (the
// protobuf runtime links them, see the protodesc.NewFiles call in the helper),
// and the canonical paths /acme.v1.Foo/GetFoo and /acme.v1.Foo/get_foo are
// different. The generator names everything after protogen's GoName, which is
// GetFoo for both methods and FooService for both services, so it declares
// every identifier twice.
func TestAuditC17aFinding3(t *testing.T) {
	for _, tc := range []struct {
		scratch, label string
		services       []auditC17aF3Service
	}{
		{"auditc17af3a", "service Foo with methods GetFoo and get_foo", []auditC17aF3Service{
			{name: "Foo", methods: []auditC17aF3Method{{name: "GetFoo"}, {name: "get_foo"}}},
		}},
		{"auditc17af3b", "services foo_service and FooService", []auditC17aF3Service{
			{name: "foo_service", methods: auditC17aF3FourKinds()},
			{name: "FooService", methods: auditC17aF3FourKinds()},
		}},
	} {
		tc := tc
		t.Run(tc.label, func(t *testing.T) {
			fd := auditC17aF3File("acme/v1/foo.proto", "acme.v1", auditC17aF3Module+tc.scratch+"/acmev1", tc.services)
			res := auditC17aF3Generate(t, "", fd)
			_, out, err := auditC17aF3Compile(t, tc.scratch, res, nil)
			if err != nil {
				t.Errorf("property C17: for every valid Protobuf file with services (service and method names incl. snake_case) the generator must emit Go that type-checks and routes every method at /<service>/<method>.\n"+
					"input: package acme.v1; %s\n"+
					"expected: the generated package compiles\n"+
					"observed: go build failed (%v):\n%s", tc.label, err, out)
			}
		})
	}
}
