package connect_test

import (
	"context"
	"errors"
	"io"
	"net/http"
	"net/http/httptest"
	"testing"
	"time"

	connect "github.com/bufbuild/connect-go"
	pingv1 "github.com/bufbuild/connect-go/internal/gen/connect/ping/v1"
	"github.com/bufbuild/connect-go/internal/gen/connect/ping/v1/pingv1connect"
)

type auditC15rF6Server struct {
	pingv1connect.UnimplementedPingServiceHandler

	started chan struct{}
}

func (s *auditC15rF6Server) CountUp(ctx context.Context, _ *connect.Request[pingv1.CountUpRequest], stream *connect.ServerStream[pingv1.CountUpResponse]) error {
	if err := stream.Send(&pingv1.CountUpResponse{Number: 1}); err != nil {
		return err
	}
	s.started <- struct{}{}
	select {
	case <-ctx.Done():
		return ctx.Err()
	case <-time.After(5 * time.Second):
		return errors.New("handler context never cancelled")
	}
}

// TestAuditC15rFinding6: the call's context is cancelled with a cause that
// wraps io.EOF (for example the error of some other stream the caller was
// copying from) while Receive is blocked. Over HTTP/1.1 the body read fails
// with the cause; duplexHTTPCall.Read exempts errors that wrap io.EOF from
// the context classification, so the interrupted Receive is taken for the end
// of the response body and reported as internal instead of canceled.
func TestAuditC15rFinding6(t *testing.T) {
	protocols := []struct {
		name string
		opts []connect.ClientOption
	}{
		{"connect", nil},
		{"grpcweb", []connect.ClientOption{connect.WithGRPCWeb()}},
	}
	for _, proto := range protocols {
		proto := proto
		t.Run(proto.name, func(t *testing.T) {
			svc := &auditC15rF6Server{started: make(chan struct{}, 1)}
			mux := http.NewServeMux()
			mux.Handle(pingv1connect.NewPingServiceHandler(svc))
			server := httptest.NewServer(mux) // HTTP/1.1
			defer server.Close()
			client := pingv1connect.NewPingServiceClient(server.Client(), server.URL, proto.opts...)
			ctx, cancel := context.WithCancelCause(context.Background())
			defer cancel(nil)
			stream, err := client.CountUp(ctx, connect.NewRequest(&pingv1.CountUpRequest{Number: 1}))
			if err != nil {
				t.Fatal(err)
			}
			if !stream.Receive() {
				t.Fatalf("first message: %v", stream.Err())
			}
			go func() {
				<-svc.started
				time.Sleep(50 * time.Millisecond)
				cancel(io.EOF) // e.g. "the source I was relaying from has ended"
			}()
			if stream.Receive() {
				t.Fatalf("unexpected second message")
			}
			err = stream.Err()
			if err == nil {
				t.Fatalf("property C15: Receive interrupted by cancellation must fail with canceled; observed a clean end of stream (success)")
			}
			if code := connect.CodeOf(err); code != connect.CodeCanceled {
				t.Errorf("property C15: context was cancelled (ctx.Err()=%v) during a blocked Receive, "+
					"expected code canceled; observed code %v (%v)", ctx.Err(), code, err)
			}
		})
	}
}
