package connect_test

import (
	"context"
	"errors"
	"net/http"
	"net/http/httptest"
	"testing"
	"time"

	connect "github.com/bufbuild/connect-go"
	pingv1 "github.com/bufbuild/connect-go/internal/gen/connect/ping/v1"
	"github.com/bufbuild/connect-go/internal/gen/connect/ping/v1/pingv1connect"
)

// TestAuditC15rFinding2: a Connect unary call gets a non-200 response whose
// (JSON error) body stalls; the call's context, which carries a cause
// (context.WithCancelCause / WithTimeoutCause), ends while the client is
// reading that error body. Over HTTP/1.1 the body read fails with the cause,
// which connectUnaryClientConn.validateResponse only passes through
// wrapIfContextError, so the call reports the code derived from the HTTP
// status instead of canceled / deadline_exceeded.
func TestAuditC15rFinding2(t *testing.T) {
	for _, kind := range []string{"cancel_with_cause", "timeout_with_cause"} {
		kind := kind
		t.Run(kind, func(t *testing.T) {
			release := make(chan struct{})
			started := make(chan struct{}, 1)
			server := httptest.NewServer(http.HandlerFunc(func(w http.ResponseWriter, r *http.Request) {
				w.Header().Set("Content-Type", "application/json")
				w.WriteHeader(http.StatusServiceUnavailable)
				_, _ = w.Write([]byte(`{"code":`)) // the rest of the error never arrives
				w.(http.Flusher).Flush()
				started <- struct{}{}
				select {
				case <-release:
				case <-time.After(5 * time.Second):
				}
			}))
			defer server.Close()
			defer close(release)
			client := pingv1connect.NewPingServiceClient(server.Client(), server.URL)
			var ctx context.Context
			want := connect.CodeCanceled
			if kind == "cancel_with_cause" {
				c, cancel := context.WithCancelCause(context.Background())
				ctx = c
				go func() {
					<-started
					time.Sleep(50 * time.Millisecond)
					cancel(errors.New("caller gave up"))
				}()
			} else {
				c, cancel := context.WithTimeoutCause(context.Background(), 300*time.Millisecond, errors.New("too slow"))
				defer cancel()
				ctx = c
				want = connect.CodeDeadlineExceeded
			}
			_, err := client.Ping(ctx, connect.NewRequest(&pingv1.PingRequest{}))
			if err == nil {
				t.Fatalf("property C15: expected the call to fail with %v; observed success", want)
			}
			if code := connect.CodeOf(err); code != want {
				t.Errorf("property C15: the call's context ended (ctx.Err()=%v) while the error response body was being read, "+
					"expected code %v; observed code %v (%v)", ctx.Err(), want, code, err)
			}
		})
	}
}
