package connect_test

import (
	"context"
	"errors"
	"io"
	"net/http"
	"net/http/httptest"
	"testing"

	connect "github.com/bufbuild/connect-go"
	pingv1 "github.com/bufbuild/connect-go/internal/gen/connect/ping/v1"
	"github.com/bufbuild/connect-go/internal/gen/connect/ping/v1/pingv1connect"
)

type auditC15rF5Server struct {
	pingv1connect.UnimplementedPingServiceHandler
}

func (auditC15rF5Server) CumSum(context.Context, *connect.BidiStream[pingv1.CumSumRequest, pingv1.CumSumResponse]) error {
	return connect.NewError(connect.CodeResourceExhausted, errors.New("try later"))
}

// TestAuditC15rFinding5: the response headers (an HTTP error status, or a
// gRPC-Web trailers-only error) have arrived, then the caller cancels the
// context *between two operations*, then calls Send and Receive. Send fails
// with canceled, but Receive fails with the code recorded from the response
// headers: duplexHTTPCall.Read returns the stored error before it consults the
// context.
func TestAuditC15rFinding5(t *testing.T) {
	realMux := http.NewServeMux()
	realMux.Handle(pingv1connect.NewPingServiceHandler(auditC15rF5Server{}))
	status503 := http.HandlerFunc(func(w http.ResponseWriter, r *http.Request) {
		w.WriteHeader(http.StatusServiceUnavailable)
	})
	cases := []struct {
		name    string
		handler http.Handler
		opts    []connect.ClientOption
	}{
		{"connect/http_503", status503, nil},
		{"grpc/http_503", status503, []connect.ClientOption{connect.WithGRPC()}},
		{"grpcweb/http_503", status503, []connect.ClientOption{connect.WithGRPCWeb()}},
		{"grpcweb/trailers_only_error", realMux, []connect.ClientOption{connect.WithGRPCWeb()}},
	}
	for _, tc := range cases {
		tc := tc
		t.Run(tc.name, func(t *testing.T) {
			server := httptest.NewUnstartedServer(tc.handler)
			server.EnableHTTP2 = true
			server.StartTLS()
			defer server.Close()
			client := pingv1connect.NewPingServiceClient(server.Client(), server.URL, tc.opts...)
			ctx, cancel := context.WithCancel(context.Background())
			defer cancel()
			stream := client.CumSum(ctx)
			if err := stream.Send(&pingv1.CumSumRequest{Number: 1}); err != nil && !errors.Is(err, io.EOF) {
				t.Fatalf("first Send: %v", err)
			}
			_ = stream.ResponseHeader() // blocks until the response headers have arrived
			cancel()                    // cancellation between two operations

			sendErr := stream.Send(&pingv1.CumSumRequest{Number: 1})
			if sendErr == nil {
				t.Errorf("property C15: Send after cancellation must fail; observed success")
			} else if code := connect.CodeOf(sendErr); code != connect.CodeCanceled && !errors.Is(sendErr, io.EOF) {
				t.Errorf("property C15: Send after cancellation: expected canceled (or stream-closed io.EOF); observed %v (%v)", code, sendErr)
			}
			_, recvErr := stream.Receive()
			if recvErr == nil {
				t.Fatalf("property C15: Receive after cancellation must fail; observed success")
			}
			if code := connect.CodeOf(recvErr); code != connect.CodeCanceled {
				t.Errorf("property C15: context was cancelled (ctx.Err()=%v) before Receive was called (Send just failed with %q), "+
					"expected Receive to fail with code canceled; observed code %v (%v)", ctx.Err(), sendErr, code, recvErr)
			}
		})
	}
}
