package connect_test

import (
	"context"
	"errors"
	"net/http"
	"net/http/httptest"
	"testing"
	"time"

	connect "github.com/bufbuild/connect-go"
	pingv1 "github.com/bufbuild/connect-go/internal/gen/connect/ping/v1"
	"github.com/bufbuild/connect-go/internal/gen/connect/ping/v1/pingv1connect"
)

type auditC15rF1Server struct {
	pingv1connect.UnimplementedPingServiceHandler

	started chan struct{}
}

func (s *auditC15rF1Server) Ping(ctx context.Context, _ *connect.Request[pingv1.PingRequest]) (*connect.Response[pingv1.PingResponse], error) {
	s.started <- struct{}{}
	select {
	case <-ctx.Done():
		return nil, ctx.Err()
	case <-time.After(5 * time.Second):
		return nil, errors.New("handler context never cancelled")
	}
}

func (s *auditC15rF1Server) CountUp(ctx context.Context, _ *connect.Request[pingv1.CountUpRequest], stream *connect.ServerStream[pingv1.CountUpResponse]) error {
	if err := stream.Send(&pingv1.CountUpResponse{Number: 1}); err != nil {
		return err
	}
	s.started <- struct{}{}
	select {
	case <-ctx.Done():
		return ctx.Err()
	case <-time.After(5 * time.Second):
		return errors.New("handler context never cancelled")
	}
}

// TestAuditC15rFinding1: the call's context is cancelled (context.WithCancelCause)
// with a cause that happens to be a *connect.Error. Over HTTP/1.1 net/http
// reports the cause as the transport error; wrapIfContextDone leaves "already
// coded" errors alone, so the call fails with the cause's code instead of
// canceled.
func TestAuditC15rFinding1(t *testing.T) {
	protocols := []struct {
		name string
		opts []connect.ClientOption
	}{
		{"connect", nil},
		{"grpcweb", []connect.ClientOption{connect.WithGRPCWeb()}},
		{"grpc", []connect.ClientOption{connect.WithGRPC()}},
	}
	for _, proto := range protocols {
		proto := proto
		t.Run(proto.name+"/unary_waiting_for_response", func(t *testing.T) {
			svc := &auditC15rF1Server{started: make(chan struct{}, 1)}
			mux := http.NewServeMux()
			mux.Handle(pingv1connect.NewPingServiceHandler(svc))
			server := httptest.NewServer(mux) // HTTP/1.1
			defer server.Close()
			client := pingv1connect.NewPingServiceClient(server.Client(), server.URL, proto.opts...)
			ctx, cancel := context.WithCancelCause(context.Background())
			go func() {
				<-svc.started
				time.Sleep(50 * time.Millisecond)
				cancel(connect.NewError(connect.CodeAborted, errors.New("caller gave up")))
			}()
			_, err := client.Ping(ctx, connect.NewRequest(&pingv1.PingRequest{}))
			if err == nil {
				t.Fatalf("property C15: call whose context was cancelled must fail with canceled; observed success")
			}
			if code := connect.CodeOf(err); code != connect.CodeCanceled {
				t.Errorf("property C15: context was cancelled (ctx.Err()=%v) while waiting for the response, "+
					"expected code canceled; observed code %v (%v)", ctx.Err(), code, err)
			}
		})
		if proto.name == "grpc" {
			continue // server streaming over gRPC needs HTTP/2, where the transport reports context.Canceled
		}
		t.Run(proto.name+"/server_stream_blocked_receive", func(t *testing.T) {
			svc := &auditC15rF1Server{started: make(chan struct{}, 1)}
			mux := http.NewServeMux()
			mux.Handle(pingv1connect.NewPingServiceHandler(svc))
			server := httptest.NewServer(mux) // HTTP/1.1
			defer server.Close()
			client := pingv1connect.NewPingServiceClient(server.Client(), server.URL, proto.opts...)
			ctx, cancel := context.WithCancelCause(context.Background())
			defer cancel(nil)
			stream, err := client.CountUp(ctx, connect.NewRequest(&pingv1.CountUpRequest{Number: 1}))
			if err != nil {
				t.Fatal(err)
			}
			if !stream.Receive() {
				t.Fatalf("first message: %v", stream.Err())
			}
			go func() {
				<-svc.started
				time.Sleep(50 * time.Millisecond)
				cancel(connect.NewError(connect.CodeAborted, errors.New("caller gave up")))
			}()
			if stream.Receive() {
				t.Fatalf("unexpected second message")
			}
			err = stream.Err()
			if err == nil {
				t.Fatalf("property C15: Receive interrupted by cancellation must fail with canceled; observed a clean end of stream")
			}
			if code := connect.CodeOf(err); code != connect.CodeCanceled {
				t.Errorf("property C15: context was cancelled (ctx.Err()=%v) during a blocked Receive, "+
					"expected code canceled; observed code %v (%v)", ctx.Err(), code, err)
			}
		})
	}
}
