package connect_test

import (
	"context"
	"net/http"
	"net/http/httptest"
	"testing"
	"time"

	connect "github.com/bufbuild/connect-go"
	pingv1 "github.com/bufbuild/connect-go/internal/gen/connect/ping/v1"
	"github.com/bufbuild/connect-go/internal/gen/connect/ping/v1/pingv1connect"
)

type auditC15rF3Result struct {
	receiveErr error
	ctxErr     error
}

type auditC15rF3Server struct {
	pingv1connect.UnimplementedPingServiceHandler

	got chan auditC15rF3Result
}

func (s *auditC15rF3Server) Sum(ctx context.Context, stream *connect.ClientStream[pingv1.SumRequest]) (*connect.Response[pingv1.SumResponse], error) {
	for stream.Receive() { // blocks in Receive once the first message is consumed
	}
	// Receive has failed. Give net/http a moment to cancel our context too.
	select {
	case <-ctx.Done():
	case <-time.After(2 * time.Second):
	}
	s.got <- auditC15rF3Result{receiveErr: stream.Err(), ctxErr: ctx.Err()}
	return nil, stream.Err()
}

// TestAuditC15rFinding3: the handler is blocked in Receive when the call is
// cancelled by the client (or when the handler's own deadline, taken from the
// timeout header, has passed and the client then goes away). The handler's
// context is done, but the failing Receive reports invalid_argument ("protocol
// error: incomplete envelope") instead of canceled / deadline_exceeded.
func TestAuditC15rFinding3(t *testing.T) {
	protocols := []struct {
		name          string
		opts          []connect.ClientOption
		timeoutHeader string
		timeoutValue  string
	}{
		{"connect", nil, "Connect-Timeout-Ms", "100"},
		{"grpc", []connect.ClientOption{connect.WithGRPC()}, "Grpc-Timeout", "100m"},
		{"grpcweb", []connect.ClientOption{connect.WithGRPCWeb()}, "Grpc-Timeout", "100m"},
	}
	for _, h2 := range []bool{true, false} {
		for _, proto := range protocols {
			for _, kind := range []string{"client_cancels", "handler_deadline_passes"} {
				h2, proto, kind := h2, proto, kind
				name := proto.name + "/" + kind + "/http1"
				if h2 {
					name = proto.name + "/" + kind + "/http2"
				}
				t.Run(name, func(t *testing.T) {
					svc := &auditC15rF3Server{got: make(chan auditC15rF3Result, 1)}
					mux := http.NewServeMux()
					mux.Handle(pingv1connect.NewPingServiceHandler(svc))
					server := httptest.NewUnstartedServer(mux)
					server.EnableHTTP2 = h2
					server.StartTLS()
					defer server.Close()
					client := pingv1connect.NewPingServiceClient(server.Client(), server.URL, proto.opts...)
					ctx, cancel := context.WithCancel(context.Background())
					defer cancel()
					stream := client.Sum(ctx)
					want := connect.CodeCanceled
					if kind == "handler_deadline_passes" {
						// Only the handler gets a deadline (100ms): it passes while the
						// handler is blocked in Receive, well before the client goes away.
						stream.RequestHeader().Set(proto.timeoutHeader, proto.timeoutValue)
						want = connect.CodeDeadlineExceeded
					}
					if err := stream.Send(&pingv1.SumRequest{Number: 1}); err != nil {
						t.Fatal(err)
					}
					time.Sleep(300 * time.Millisecond)
					cancel()
					select {
					case result := <-svc.got:
						if result.ctxErr == nil {
							t.Errorf("property C15: expected the handler's context to be done; observed ctx.Err()=nil")
						}
						if result.receiveErr == nil {
							t.Fatalf("property C15: expected handler Receive to fail with %v; observed a clean end of the request", want)
						}
						if code := connect.CodeOf(result.receiveErr); code != want {
							t.Errorf("property C15: handler Receive failed after the call ended (handler ctx.Err()=%v), "+
								"expected code %v; observed code %v (%v)", result.ctxErr, want, code, result.receiveErr)
						}
					case <-time.After(5 * time.Second):
						t.Fatalf("handler never returned from Receive")
					}
				})
			}
		}
	}
}
