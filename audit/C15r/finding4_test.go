package connect_test

import (
	"context"
	"net/http"
	"net/http/httptest"
	"testing"
	"time"

	connect "github.com/bufbuild/connect-go"
	pingv1 "github.com/bufbuild/connect-go/internal/gen/connect/ping/v1"
	"github.com/bufbuild/connect-go/internal/gen/connect/ping/v1/pingv1connect"
)

type auditC15rF4Result struct {
	sendErr error
	ctxErr  error
}

type auditC15rF4Server struct {
	pingv1connect.UnimplementedPingServiceHandler

	got chan auditC15rF4Result
}

func (s *auditC15rF4Server) CountUp(ctx context.Context, _ *connect.Request[pingv1.CountUpRequest], stream *connect.ServerStream[pingv1.CountUpResponse]) error {
	// Keep sending until a Send fails.
	stop := time.Now().Add(3 * time.Second)
	for time.Now().Before(stop) {
		if err := stream.Send(&pingv1.CountUpResponse{Number: 1}); err != nil {
			select { // give net/http a moment to cancel our context too
			case <-ctx.Done():
			case <-time.After(2 * time.Second):
			}
			s.got <- auditC15rF4Result{sendErr: err, ctxErr: ctx.Err()}
			return err
		}
		time.Sleep(5 * time.Millisecond)
	}
	s.got <- auditC15rF4Result{ctxErr: ctx.Err()}
	return nil
}

// TestAuditC15rFinding4: a server-streaming handler keeps sending while the
// client cancels the call. The handler's context is cancelled, but the Send
// that fails afterwards reports unknown ("write envelope: http2: stream
// closed" / "broken pipe") instead of canceled.
func TestAuditC15rFinding4(t *testing.T) {
	protocols := []struct {
		name string
		opts []connect.ClientOption
	}{
		{"connect", nil},
		{"grpc", []connect.ClientOption{connect.WithGRPC()}},
		{"grpcweb", []connect.ClientOption{connect.WithGRPCWeb()}},
	}
	for _, h2 := range []bool{true, false} {
		for _, proto := range protocols {
			h2, proto := h2, proto
			name := proto.name + "/http1"
			if h2 {
				name = proto.name + "/http2"
			}
			t.Run(name, func(t *testing.T) {
				svc := &auditC15rF4Server{got: make(chan auditC15rF4Result, 1)}
				mux := http.NewServeMux()
				mux.Handle(pingv1connect.NewPingServiceHandler(svc))
				server := httptest.NewUnstartedServer(mux)
				server.EnableHTTP2 = h2
				server.StartTLS()
				defer server.Close()
				client := pingv1connect.NewPingServiceClient(server.Client(), server.URL, proto.opts...)
				ctx, cancel := context.WithCancel(context.Background())
				defer cancel()
				stream, err := client.CountUp(ctx, connect.NewRequest(&pingv1.CountUpRequest{Number: 1}))
				if err != nil {
					t.Fatal(err)
				}
				if !stream.Receive() {
					t.Fatalf("first message: %v", stream.Err())
				}
				cancel()
				select {
				case result := <-svc.got:
					if result.ctxErr == nil {
						t.Errorf("property C15: expected the handler's context to be cancelled; observed ctx.Err()=nil")
					}
					if result.sendErr == nil {
						t.Fatalf("handler Send never failed")
					}
					if code := connect.CodeOf(result.sendErr); code != connect.CodeCanceled {
						t.Errorf("property C15: handler Send failed after the client cancelled the call (handler ctx.Err()=%v), "+
							"expected code canceled; observed code %v (%v)", result.ctxErr, code, result.sendErr)
					}
				case <-time.After(6 * time.Second):
					t.Fatalf("handler never returned")
				}
			})
		}
	}
}
