package connect_test

import (
	"bytes"
	"context"
	"net/http"
	"net/http/httptest"
	"sync/atomic"
	"testing"

	"github.com/bufbuild/connect-go"
	pingv1 "github.com/bufbuild/connect-go/internal/gen/connect/ping/v1"
)

type auditC12tF3Interceptor struct {
	runs  atomic.Int32
	specs []connect.Spec
}

func (i *auditC12tF3Interceptor) WrapUnary(next connect.UnaryFunc) connect.UnaryFunc {
	return func(ctx context.Context, req connect.AnyRequest) (connect.AnyResponse, error) {
		i.runs.Add(1)
		i.specs = append(i.specs, req.Spec())
		return next(ctx, req)
	}
}

func (i *auditC12tF3Interceptor) WrapStreamingClient(next connect.StreamingClientFunc) connect.StreamingClientFunc {
	return next
}

func (i *auditC12tF3Interceptor) WrapStreamingHandler(next connect.StreamingHandlerFunc) connect.StreamingHandlerFunc {
	return func(ctx context.Context, conn connect.StreamingHandlerConn) error {
		i.runs.Add(1)
		i.specs = append(i.specs, conn.Spec())
		return next(ctx, conn)
	}
}

// C12: for a request that is not rejected with 405/505/415, "user code and
// interceptors ... run exactly once and observe a Spec carrying the procedure
// and stream type the handler was built with".
//
// The wrapper that NewUnaryHandler puts around the user's function reads and
// checks the request message BEFORE entering the interceptor chain
// (handler.go:59-72) and checks the context before calling the user's function
// (handler.go:45-47). So for a unary handler, an accepted POST whose message
// cannot be read is answered without any interceptor ever observing the call,
// and one whose deadline has already passed runs the interceptors but not the
// user's function. The other three RPC kinds do not behave like this (their
// interceptors wrap the reading too, and they have no context check).
func TestAuditC12tFinding3(t *testing.T) {
	const procedure = "/connect.ping.v1.PingService/Ping"
	var userRuns atomic.Int32
	interceptor := &auditC12tF3Interceptor{}
	handler := connect.NewUnaryHandler(procedure,
		func(context.Context, *connect.Request[pingv1.PingRequest]) (*connect.Response[pingv1.PingResponse], error) {
			userRuns.Add(1)
			return connect.NewResponse(&pingv1.PingResponse{}), nil
		},
		connect.WithInterceptors(interceptor),
	)
	cases := []struct {
		name        string
		contentType string
		header      [2]string
		body        []byte
	}{
		// Sanity: these run interceptor and user code exactly once.
		{"sanity: connect, empty proto message", "application/proto", [2]string{"X-Nothing", "x"}, nil},
		{"sanity: grpc, one empty message", "application/grpc", [2]string{"X-Nothing", "x"}, []byte{0, 0, 0, 0, 0}},
		// The message can't be read: no interceptor sees the call.
		{"connect, body is not JSON", "application/json", [2]string{"X-Nothing", "x"}, []byte("{")},
		{"connect, body is not protobuf", "application/proto", [2]string{"X-Nothing", "x"}, []byte{0xff}},
		{"grpc, no message at all", "application/grpc+proto", [2]string{"X-Nothing", "x"}, nil},
		{"grpc-web, two messages", "application/grpc-web+proto", [2]string{"X-Nothing", "x"}, []byte{0, 0, 0, 0, 0, 0, 0, 0, 0, 0}},
		{"grpc, truncated envelope", "application/grpc", [2]string{"X-Nothing", "x"}, []byte{0, 0, 0}},
		// The deadline has passed on arrival: interceptors run, user code doesn't.
		{"connect, Connect-Timeout-Ms: 0", "application/proto", [2]string{"Connect-Timeout-Ms", "0"}, nil},
		{"grpc, Grpc-Timeout: 0n", "application/grpc", [2]string{"Grpc-Timeout", "0n"}, []byte{0, 0, 0, 0, 0}},
	}
	for _, testCase := range cases {
		userRuns.Store(0)
		interceptor.runs.Store(0)
		interceptor.specs = nil
		request := httptest.NewRequest(http.MethodPost, "http://example.com"+procedure, bytes.NewReader(testCase.body))
		request.Proto, request.ProtoMajor, request.ProtoMinor = "HTTP/2.0", 2, 0
		request.Header.Set("Content-Type", testCase.contentType)
		request.Header.Set(testCase.header[0], testCase.header[1])
		recorder := httptest.NewRecorder()
		handler.ServeHTTP(recorder, request)
		switch recorder.Code {
		case http.StatusMethodNotAllowed, http.StatusHTTPVersionNotSupported, http.StatusUnsupportedMediaType:
			t.Errorf("%s: unexpectedly one of the rejected cases: HTTP %d", testCase.name, recorder.Code)
			continue
		}
		if interceptor.runs.Load() != 1 || userRuns.Load() != 1 {
			t.Errorf(
				"%s: POST over HTTP/2 to a unary handler with advertised Content-Type %q is not a rejected case (HTTP status %d, not 405/505/415), "+
					"so the property expects interceptors and user code to run exactly once and to observe Spec{%s, unary}; "+
					"observed interceptor runs = %d (specs seen: %+v), user code runs = %d",
				testCase.name, testCase.contentType, recorder.Code, procedure,
				interceptor.runs.Load(), interceptor.specs, userRuns.Load(),
			)
		}
	}
}
