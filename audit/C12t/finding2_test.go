package connect_test

import (
	"bytes"
	"context"
	"net/http"
	"net/http/httptest"
	"sync/atomic"
	"testing"

	"github.com/bufbuild/connect-go"
	pingv1 "github.com/bufbuild/connect-go/internal/gen/connect/ping/v1"
)

type auditC12tF2Interceptor struct{ runs atomic.Int32 }

func (i *auditC12tF2Interceptor) WrapUnary(next connect.UnaryFunc) connect.UnaryFunc {
	return func(ctx context.Context, req connect.AnyRequest) (connect.AnyResponse, error) {
		i.runs.Add(1)
		return next(ctx, req)
	}
}

func (i *auditC12tF2Interceptor) WrapStreamingClient(next connect.StreamingClientFunc) connect.StreamingClientFunc {
	return next
}

func (i *auditC12tF2Interceptor) WrapStreamingHandler(next connect.StreamingHandlerFunc) connect.StreamingHandlerFunc {
	return func(ctx context.Context, conn connect.StreamingHandlerConn) error {
		i.runs.Add(1)
		return next(ctx, conn)
	}
}

// C12: the only rejected cases are 405 (non-POST), 505 (bidi over HTTP/1.x)
// and 415 (Content-Type not served); "otherwise [user code and interceptors]
// run exactly once".
//
// A POST over HTTP/2 with an advertised Content-Type is none of the rejected
// cases, yet Handler.ServeHTTP answers it itself - interceptors and user code
// run zero times - when the timeout header does not parse or the request names
// a compression the handler does not know.
func TestAuditC12tFinding2(t *testing.T) {
	const procedure = "/connect.ping.v1.PingService/Ping"
	var userRuns atomic.Int32
	interceptor := &auditC12tF2Interceptor{}
	options := connect.WithInterceptors(interceptor)
	handlers := map[string]*connect.Handler{
		"unary": connect.NewUnaryHandler(procedure,
			func(context.Context, *connect.Request[pingv1.PingRequest]) (*connect.Response[pingv1.PingResponse], error) {
				userRuns.Add(1)
				return connect.NewResponse(&pingv1.PingResponse{}), nil
			}, options),
		"client": connect.NewClientStreamHandler(procedure,
			func(context.Context, *connect.ClientStream[pingv1.PingRequest]) (*connect.Response[pingv1.PingResponse], error) {
				userRuns.Add(1)
				return connect.NewResponse(&pingv1.PingResponse{}), nil
			}, options),
		"server": connect.NewServerStreamHandler(procedure,
			func(context.Context, *connect.Request[pingv1.PingRequest], *connect.ServerStream[pingv1.PingResponse]) error {
				userRuns.Add(1)
				return nil
			}, options),
		"bidi": connect.NewBidiStreamHandler(procedure,
			func(context.Context, *connect.BidiStream[pingv1.PingRequest, pingv1.PingResponse]) error {
				userRuns.Add(1)
				return nil
			}, options),
	}
	type testCase struct {
		name        string
		kind        string
		contentType string
		header      [2]string
		body        []byte
	}
	envelope := []byte{0, 0, 0, 0, 0} // one empty, uncompressed message
	cases := []testCase{
		// Sanity: without the extra header, each of these runs exactly once.
		{"sanity connect unary", "unary", "application/proto", [2]string{"X-Nothing", "x"}, nil},
		{"sanity grpc server stream", "server", "application/grpc", [2]string{"X-Nothing", "x"}, envelope},
		// handler.go:198-200 + 214-217: timeout header doesn't parse.
		{"connect unary, Connect-Timeout-Ms: soon", "unary", "application/proto", [2]string{"Connect-Timeout-Ms", "soon"}, nil},
		{"connect bidi, Connect-Timeout-Ms: 1.5", "bidi", "application/connect+proto", [2]string{"Connect-Timeout-Ms", "1.5"}, nil},
		{"grpc client stream, Grpc-Timeout: 10", "client", "application/grpc+proto", [2]string{"Grpc-Timeout", "10"}, nil},
		{"grpc-web server stream, Grpc-Timeout: 1h", "server", "application/grpc-web", [2]string{"Grpc-Timeout", "1h"}, envelope},
		// handler.go:205-213: compression negotiation fails in NewConn.
		{"connect unary, Content-Encoding: br", "unary", "application/json", [2]string{"Content-Encoding", "br"}, []byte("{}")},
		{"connect client stream, Connect-Content-Encoding: br", "client", "application/connect+proto", [2]string{"Connect-Content-Encoding", "br"}, nil},
		{"grpc bidi, Grpc-Encoding: snappy", "bidi", "application/grpc", [2]string{"Grpc-Encoding", "snappy"}, nil},
		{"grpc-web unary, Grpc-Encoding: snappy", "unary", "application/grpc-web+proto", [2]string{"Grpc-Encoding", "snappy"}, envelope},
	}
	for _, testCase := range cases {
		userRuns.Store(0)
		interceptor.runs.Store(0)
		request := httptest.NewRequest(http.MethodPost, "http://example.com"+procedure, bytes.NewReader(testCase.body))
		request.Proto, request.ProtoMajor, request.ProtoMinor = "HTTP/2.0", 2, 0
		request.Header.Set("Content-Type", testCase.contentType)
		request.Header.Set(testCase.header[0], testCase.header[1])
		recorder := httptest.NewRecorder()
		handlers[testCase.kind].ServeHTTP(recorder, request)
		switch recorder.Code {
		case http.StatusMethodNotAllowed, http.StatusHTTPVersionNotSupported, http.StatusUnsupportedMediaType:
			t.Errorf("%s: unexpectedly one of the rejected cases: HTTP %d", testCase.name, recorder.Code)
			continue
		}
		if interceptor.runs.Load() != 1 || userRuns.Load() != 1 {
			t.Errorf(
				"%s: POST over HTTP/2 with advertised Content-Type %q is not a rejected case (HTTP status %d, not 405/505/415), "+
					"so the property expects interceptors and user code to run exactly once; observed interceptor runs = %d, user code runs = %d",
				testCase.name, testCase.contentType, recorder.Code, interceptor.runs.Load(), userRuns.Load(),
			)
		}
	}
}
