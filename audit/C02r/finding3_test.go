package connect_test

import (
	"context"
	"errors"
	"net/http"
	"net/http/httptest"
	"strings"
	"testing"

	connect "github.com/bufbuild/connect-go"
	pingv1 "github.com/bufbuild/connect-go/internal/gen/connect/ping/v1"
	"github.com/bufbuild/connect-go/internal/gen/connect/ping/v1/pingv1connect"
)

type auditC02rF3Server struct {
	pingv1connect.UnimplementedPingServiceHandler
}

var auditC02rF3Message = "quota exceeded for project " + strings.Repeat("p", 300)

func (auditC02rF3Server) CountUp(_ context.Context, _ *connect.Request[pingv1.CountUpRequest], stream *connect.ServerStream[pingv1.CountUpResponse]) error {
	// One small response message (well under the client's limit), then the error.
	if err := stream.Send(&pingv1.CountUpResponse{Number: 1}); err != nil {
		return err
	}
	err := connect.NewError(connect.CodeResourceExhausted, errors.New(auditC02rF3Message))
	err.Meta().Set("X-Quota", "0")
	return err
}

func (auditC02rF3Server) Ping(context.Context, *connect.Request[pingv1.PingRequest]) (*connect.Response[pingv1.PingResponse], error) {
	return nil, connect.NewError(connect.CodeResourceExhausted, errors.New(auditC02rF3Message))
}

func TestAuditC02rFinding3(t *testing.T) {
	mux := http.NewServeMux()
	mux.Handle(pingv1connect.NewPingServiceHandler(auditC02rF3Server{}))
	server := httptest.NewUnstartedServer(mux)
	server.EnableHTTP2 = true
	server.StartTLS()
	defer server.Close()

	check := func(t *testing.T, err error) {
		t.Helper()
		var connectErr *connect.Error
		if !errors.As(err, &connectErr) {
			t.Fatalf("expected a *connect.Error, got %v", err)
		}
		if connectErr.Code() != connect.CodeResourceExhausted {
			t.Errorf("C02 (same code): handler returned %v, client received %v (%.90s)",
				connect.CodeResourceExhausted, connectErr.Code(), err.Error())
		}
		if connectErr.Message() != auditC02rF3Message {
			t.Errorf("C02 (byte-identical message): handler returned a %d-byte message, client received %.90q",
				len(auditC02rF3Message), connectErr.Message())
		}
	}
	// The limit is a limit on *messages*: every response message here is a few bytes.
	limit := connect.WithReadMaxBytes(128)
	protocols := []struct {
		name string
		opts []connect.ClientOption
	}{
		{"grpc", []connect.ClientOption{limit, connect.WithGRPC()}},       // passes (HTTP trailers)
		{"connect", []connect.ClientOption{limit}},                        // stream fails, unary passes
		{"grpcweb", []connect.ClientOption{limit, connect.WithGRPCWeb()}}, // stream fails
	}
	for _, protocol := range protocols {
		client := pingv1connect.NewPingServiceClient(server.Client(), server.URL, protocol.opts...)
		t.Run(protocol.name+"/unary", func(t *testing.T) {
			_, err := client.Ping(context.Background(), connect.NewRequest(&pingv1.PingRequest{}))
			check(t, err)
		})
		t.Run(protocol.name+"/server_stream_after_one_message", func(t *testing.T) {
			stream, err := client.CountUp(context.Background(), connect.NewRequest(&pingv1.CountUpRequest{Number: 1}))
			if err != nil {
				t.Fatal(err)
			}
			defer stream.Close()
			received := 0
			for stream.Receive() {
				received++
			}
			if received != 1 {
				t.Errorf("expected 1 message before the error, got %d", received)
			}
			check(t, stream.Err())
		})
	}
}
