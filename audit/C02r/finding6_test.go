package connect_test

import (
	"context"
	"errors"
	"net/http"
	"net/http/httptest"
	"sort"
	"strings"
	"testing"

	connect "github.com/bufbuild/connect-go"
	pingv1 "github.com/bufbuild/connect-go/internal/gen/connect/ping/v1"
	"github.com/bufbuild/connect-go/internal/gen/connect/ping/v1/pingv1connect"
)

type auditC02rF6Server struct {
	pingv1connect.UnimplementedPingServiceHandler
	messagesFirst int
}

func (s *auditC02rF6Server) CountUp(_ context.Context, _ *connect.Request[pingv1.CountUpRequest], stream *connect.ServerStream[pingv1.CountUpResponse]) error {
	for i := 0; i < s.messagesFirst; i++ {
		if err := stream.Send(&pingv1.CountUpResponse{Number: 1}); err != nil {
			return err
		}
	}
	err := connect.NewError(connect.CodeAborted, errors.New("conflict"))
	// Meta() is an http.Header, i.e. a plain map: code that fills it by
	// assignment (for example when copying metadata that arrived in lower
	// case) and code that uses Add end up with two spellings of one key.
	err.Meta()["x-conflict-id"] = []string{"first"}
	err.Meta().Add("X-Conflict-Id", "second")
	return err
}

func TestAuditC02rFinding6(t *testing.T) {
	protocols := []struct {
		name string
		opts []connect.ClientOption
	}{
		{"connect", nil}, // passes, for contrast
		{"grpcweb", []connect.ClientOption{connect.WithGRPCWeb()}},
	}
	for _, messagesFirst := range []int{0, 1} {
		mux := http.NewServeMux()
		mux.Handle(pingv1connect.NewPingServiceHandler(&auditC02rF6Server{messagesFirst: messagesFirst}))
		server := httptest.NewUnstartedServer(mux)
		server.EnableHTTP2 = true
		server.StartTLS()
		defer server.Close()
		for _, protocol := range protocols {
			client := pingv1connect.NewPingServiceClient(server.Client(), server.URL, protocol.opts...)
			name := protocol.name + "/error_first"
			if messagesFirst > 0 {
				name = protocol.name + "/error_after_one_message"
			}
			t.Run(name, func(t *testing.T) {
				stream, err := client.CountUp(context.Background(), connect.NewRequest(&pingv1.CountUpRequest{Number: 1}))
				if err != nil {
					t.Fatal(err)
				}
				defer stream.Close()
				for stream.Receive() {
				}
				var connectErr *connect.Error
				if !errors.As(stream.Err(), &connectErr) {
					t.Fatalf("expected a *connect.Error, got %v", stream.Err())
				}
				got := append([]string(nil), connectErr.Meta().Values("X-Conflict-Id")...)
				sort.Strings(got)
				if strings.Join(got, ",") != "first,second" {
					t.Errorf("C02 (metadata contains every key/value the handler attached): handler attached x-conflict-id=first and X-Conflict-Id=second, client received X-Conflict-Id=%q", got)
				}
			})
		}
	}
}
