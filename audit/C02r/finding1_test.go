package connect_test

import (
	"context"
	"errors"
	"net/http"
	"net/http/httptest"
	"testing"

	connect "github.com/bufbuild/connect-go"
	pingv1 "github.com/bufbuild/connect-go/internal/gen/connect/ping/v1"
	"github.com/bufbuild/connect-go/internal/gen/connect/ping/v1/pingv1connect"
	"google.golang.org/protobuf/types/known/anypb"
)

// Upstream service: Ping always fails with not_found.
type auditC02rF1Upstream struct {
	pingv1connect.UnimplementedPingServiceHandler
}

func (auditC02rF1Upstream) Ping(context.Context, *connect.Request[pingv1.PingRequest]) (*connect.Response[pingv1.PingResponse], error) {
	err := connect.NewError(connect.CodeNotFound, errors.New("no such user"))
	err.Meta().Set("X-Request-Id", "abc123")
	return nil, err
}

// Gateway: calls the upstream with the library's own client and returns the
// *connect.Error it got (code, message, details and Meta() as the library
// produced them), after attaching one more detail.
type auditC02rF1Gateway struct {
	pingv1connect.UnimplementedPingServiceHandler
	upstream pingv1connect.PingServiceClient
}

func (g *auditC02rF1Gateway) Ping(ctx context.Context, req *connect.Request[pingv1.PingRequest]) (*connect.Response[pingv1.PingResponse], error) {
	res, err := g.upstream.Ping(ctx, connect.NewRequest(req.Msg))
	if err != nil {
		var connectErr *connect.Error
		if errors.As(err, &connectErr) {
			detail, anyErr := anypb.New(&pingv1.PingRequest{Text: "annotated by the gateway"})
			if anyErr != nil {
				return nil, anyErr
			}
			connectErr.AddDetail(detail)
		}
		return nil, err
	}
	return res, nil
}

func TestAuditC02rFinding1(t *testing.T) {
	upstreamMux := http.NewServeMux()
	upstreamMux.Handle(pingv1connect.NewPingServiceHandler(auditC02rF1Upstream{}))
	upstream := httptest.NewServer(upstreamMux)
	defer upstream.Close()

	gatewayMux := http.NewServeMux()
	gatewayMux.Handle(pingv1connect.NewPingServiceHandler(&auditC02rF1Gateway{
		upstream: pingv1connect.NewPingServiceClient(upstream.Client(), upstream.URL),
	}))
	gateway := httptest.NewServer(gatewayMux)
	defer gateway.Close()

	// What the gateway's handler returns (seen from inside the handler).
	client := pingv1connect.NewPingServiceClient(gateway.Client(), gateway.URL) // Connect protocol, unary
	_, err := client.Ping(context.Background(), connect.NewRequest(&pingv1.PingRequest{}))
	if err == nil {
		t.Fatal("C02: the handler returned an error, the client saw success")
	}
	var connectErr *connect.Error
	if !errors.As(err, &connectErr) {
		t.Fatalf("not a *connect.Error: %v", err)
	}
	if connectErr.Code() != connect.CodeNotFound {
		t.Errorf("C02 (same code): handler returned code %v, client received code %v (%v)",
			connect.CodeNotFound, connectErr.Code(), err)
	}
	if connectErr.Message() != "no such user" {
		t.Errorf("C02 (byte-identical message): handler returned %q, client received %q",
			"no such user", connectErr.Message())
	}
	if got := len(connectErr.Details()); got != 1 {
		t.Errorf("C02 (equal details): handler returned 1 detail, client received %d", got)
	}
	if got := connectErr.Meta().Get("X-Request-Id"); got != "abc123" {
		t.Errorf("C02 (metadata): handler's error carried X-Request-Id=abc123, client received %q", got)
	}
}
