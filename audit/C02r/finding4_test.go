package connect_test

import (
	"bytes"
	"context"
	"errors"
	"math"
	"net/http"
	"net/http/httptest"
	"testing"

	connect "github.com/bufbuild/connect-go"
	pingv1 "github.com/bufbuild/connect-go/internal/gen/connect/ping/v1"
	"github.com/bufbuild/connect-go/internal/gen/connect/ping/v1/pingv1connect"
	"google.golang.org/protobuf/types/known/anypb"
	"google.golang.org/protobuf/types/known/structpb"
)

type auditC02rF4Server struct {
	pingv1connect.UnimplementedPingServiceHandler
	detail *anypb.Any
}

func (s *auditC02rF4Server) err() error {
	err := connect.NewError(connect.CodeFailedPrecondition, errors.New("see details"))
	err.AddDetail(s.detail)
	err.Meta().Set("X-Attached", "yes")
	return err
}

func (s *auditC02rF4Server) Ping(context.Context, *connect.Request[pingv1.PingRequest]) (*connect.Response[pingv1.PingResponse], error) {
	return nil, s.err()
}

func (s *auditC02rF4Server) CountUp(_ context.Context, _ *connect.Request[pingv1.CountUpRequest], stream *connect.ServerStream[pingv1.CountUpResponse]) error {
	if err := stream.Send(&pingv1.CountUpResponse{Number: 1}); err != nil {
		return err
	}
	return s.err()
}

func TestAuditC02rFinding4(t *testing.T) {
	nan, err := anypb.New(structpb.NewNumberValue(math.NaN()))
	if err != nil {
		t.Fatal(err)
	}
	details := []struct {
		name   string
		detail *anypb.Any
	}{
		// An Any-wrapped message of a type that isn't linked into this binary:
		// what a handler holds after receiving an error from another service.
		{"type_not_linked_in", &anypb.Any{
			TypeUrl: "type.googleapis.com/acme.billing.v1.QuotaFailure",
			Value:   []byte{0x08, 0x01},
		}},
		// A well-formed Any of a linked-in type whose value has no JSON form.
		{"value_without_json_form", nan},
	}
	protocols := []struct {
		name string
		opts []connect.ClientOption
	}{
		{"grpc", []connect.ClientOption{connect.WithGRPC()}},              // passes: for contrast
		{"connect_proto", nil},                                            // fails
		{"connect_json", []connect.ClientOption{connect.WithProtoJSON()}}, // fails
	}
	for _, d := range details {
		srv := &auditC02rF4Server{detail: d.detail}
		mux := http.NewServeMux()
		mux.Handle(pingv1connect.NewPingServiceHandler(srv))
		server := httptest.NewUnstartedServer(mux)
		server.EnableHTTP2 = true
		server.StartTLS()
		defer server.Close()
		check := func(t *testing.T, err error) {
			t.Helper()
			var connectErr *connect.Error
			if !errors.As(err, &connectErr) {
				t.Fatalf("expected a *connect.Error, got %v", err)
			}
			if connectErr.Code() != connect.CodeFailedPrecondition {
				t.Errorf("C02 (same code): handler returned %v, client received %v (%v)",
					connect.CodeFailedPrecondition, connectErr.Code(), err)
			}
			if connectErr.Message() != "see details" {
				t.Errorf("C02 (byte-identical message): handler returned %q, client received %q",
					"see details", connectErr.Message())
			}
			if got := connectErr.Details(); len(got) != 1 {
				t.Errorf("C02 (equal details): handler returned 1 detail, client received %d", len(got))
			} else if received, ok := got[0].(*anypb.Any); !ok || received.TypeUrl != d.detail.TypeUrl || !bytes.Equal(received.Value, d.detail.Value) {
				t.Errorf("C02 (equal details): handler returned %v, client received %v", d.detail, got[0])
			}
			if got := connectErr.Meta().Get("X-Attached"); got != "yes" {
				t.Errorf("C02 (metadata): handler attached X-Attached=yes, client received %q", got)
			}
		}
		for _, protocol := range protocols {
			client := pingv1connect.NewPingServiceClient(server.Client(), server.URL, protocol.opts...)
			t.Run(d.name+"/"+protocol.name+"/unary", func(t *testing.T) {
				_, err := client.Ping(context.Background(), connect.NewRequest(&pingv1.PingRequest{}))
				check(t, err)
			})
			t.Run(d.name+"/"+protocol.name+"/server_stream_after_one_message", func(t *testing.T) {
				stream, err := client.CountUp(context.Background(), connect.NewRequest(&pingv1.CountUpRequest{Number: 1}))
				if err != nil {
					t.Fatal(err)
				}
				defer stream.Close()
				for stream.Receive() {
				}
				check(t, stream.Err())
			})
		}
	}
}
