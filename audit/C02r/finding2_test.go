package connect_test

import (
	"context"
	"errors"
	"net/http"
	"net/http/httptest"
	"testing"

	connect "github.com/bufbuild/connect-go"
	pingv1 "github.com/bufbuild/connect-go/internal/gen/connect/ping/v1"
	"github.com/bufbuild/connect-go/internal/gen/connect/ping/v1/pingv1connect"
)

type auditC02rF2Server struct {
	pingv1connect.UnimplementedPingServiceHandler
}

func auditC02rF2Error() *connect.Error {
	err := connect.NewError(connect.CodeUnauthenticated, errors.New("token expired"))
	err.Meta().Set("WWW-Authenticate", `Bearer realm="example", error="invalid_token"`)
	err.Meta().Set("Cache-Control", "no-store")
	err.Meta().Set("X-Plain", "kept")
	return err
}

func (auditC02rF2Server) Ping(context.Context, *connect.Request[pingv1.PingRequest]) (*connect.Response[pingv1.PingResponse], error) {
	return nil, auditC02rF2Error()
}

func (auditC02rF2Server) CountUp(_ context.Context, _ *connect.Request[pingv1.CountUpRequest], stream *connect.ServerStream[pingv1.CountUpResponse]) error {
	if err := stream.Send(&pingv1.CountUpResponse{Number: 1}); err != nil {
		return err
	}
	return auditC02rF2Error()
}

func TestAuditC02rFinding2(t *testing.T) {
	mux := http.NewServeMux()
	mux.Handle(pingv1connect.NewPingServiceHandler(auditC02rF2Server{}))
	server := httptest.NewUnstartedServer(mux)
	server.EnableHTTP2 = true
	server.StartTLS()
	defer server.Close()

	check := func(t *testing.T, err error) {
		t.Helper()
		var connectErr *connect.Error
		if !errors.As(err, &connectErr) {
			t.Fatalf("expected a *connect.Error, got %v", err)
		}
		if connectErr.Code() != connect.CodeUnauthenticated || connectErr.Message() != "token expired" {
			t.Errorf("unexpected error %v", err)
		}
		for key, values := range auditC02rF2Error().Meta() {
			got := connectErr.Meta().Values(key)
			if len(got) != 1 || got[0] != values[0] {
				t.Errorf("C02 (metadata contains every key/value the handler attached): handler attached %s=%q, client received %q",
					key, values, got)
			}
		}
	}
	protocols := []struct {
		name string
		opts []connect.ClientOption
	}{
		{"connect", nil}, // passes: shown for contrast
		{"grpcweb", []connect.ClientOption{connect.WithGRPCWeb()}}, // passes
		{"grpc", []connect.ClientOption{connect.WithGRPC()}},       // fails
	}
	for _, protocol := range protocols {
		client := pingv1connect.NewPingServiceClient(server.Client(), server.URL, protocol.opts...)
		t.Run(protocol.name+"/unary", func(t *testing.T) {
			_, err := client.Ping(context.Background(), connect.NewRequest(&pingv1.PingRequest{}))
			check(t, err)
		})
		t.Run(protocol.name+"/server_stream_after_one_message", func(t *testing.T) {
			stream, err := client.CountUp(context.Background(), connect.NewRequest(&pingv1.CountUpRequest{Number: 1}))
			if err != nil {
				t.Fatal(err)
			}
			defer stream.Close()
			for stream.Receive() {
			}
			check(t, stream.Err())
		})
	}
}
