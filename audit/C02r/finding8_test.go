package connect_test

import (
	"context"
	"errors"
	"net/http"
	"net/http/httptest"
	"testing"

	connect "github.com/bufbuild/connect-go"
	pingv1 "github.com/bufbuild/connect-go/internal/gen/connect/ping/v1"
	"github.com/bufbuild/connect-go/internal/gen/connect/ping/v1/pingv1connect"
)

// NOTE: this finding is OUTSIDE the property's quantifier (codes 1..16); it is
// about the unconditional clause "an error is never delivered as success".

type auditC02rF8Server struct {
	pingv1connect.UnimplementedPingServiceHandler
}

func (auditC02rF8Server) CountUp(_ context.Context, _ *connect.Request[pingv1.CountUpRequest], stream *connect.ServerStream[pingv1.CountUpResponse]) error {
	if err := stream.Send(&pingv1.CountUpResponse{Number: 1}); err != nil {
		return err
	}
	// A *connect.Error whose code was never set (Code's zero value), e.g. from
	// connect.NewError(code, err) with code computed by a lookup that misses.
	var code connect.Code
	return connect.NewError(code, errors.New("backend failed half-way"))
}

func TestAuditC02rFinding8(t *testing.T) {
	mux := http.NewServeMux()
	mux.Handle(pingv1connect.NewPingServiceHandler(auditC02rF8Server{}))
	server := httptest.NewUnstartedServer(mux)
	server.EnableHTTP2 = true
	server.StartTLS()
	defer server.Close()
	protocols := []struct {
		name string
		opts []connect.ClientOption
	}{
		{"connect", nil}, // passes: arrives as an error (code unknown)
		{"grpc", []connect.ClientOption{connect.WithGRPC()}},
		{"grpcweb", []connect.ClientOption{connect.WithGRPCWeb()}},
	}
	for _, protocol := range protocols {
		client := pingv1connect.NewPingServiceClient(server.Client(), server.URL, protocol.opts...)
		t.Run(protocol.name+"/server_stream_after_one_message", func(t *testing.T) {
			stream, err := client.CountUp(context.Background(), connect.NewRequest(&pingv1.CountUpRequest{Number: 1}))
			if err != nil {
				t.Fatal(err)
			}
			defer stream.Close()
			for stream.Receive() {
			}
			if stream.Err() == nil {
				t.Errorf("C02 (an error is never delivered as success): the handler returned the error %q, the client's stream ended cleanly (Err() == nil)",
					"backend failed half-way")
			}
		})
	}
}
