package connect_test

import (
	"context"
	"errors"
	"net/http"
	"net/http/httptest"
	"testing"

	connect "github.com/bufbuild/connect-go"
	pingv1 "github.com/bufbuild/connect-go/internal/gen/connect/ping/v1"
	"github.com/bufbuild/connect-go/internal/gen/connect/ping/v1/pingv1connect"
)

type auditC02rF7Server struct {
	pingv1connect.UnimplementedPingServiceHandler
}

func (auditC02rF7Server) Ping(context.Context, *connect.Request[pingv1.PingRequest]) (*connect.Response[pingv1.PingResponse], error) {
	err := connect.NewError(connect.CodeUnavailable, errors.New("try the next trailer"))
	err.Meta().Set("Trailer-Hitch-Id", "th-42")
	err.Meta().Set("Hitch-Id", "plain")
	return nil, err
}

func TestAuditC02rFinding7(t *testing.T) {
	mux := http.NewServeMux()
	mux.Handle(pingv1connect.NewPingServiceHandler(auditC02rF7Server{}))
	server := httptest.NewUnstartedServer(mux)
	server.EnableHTTP2 = true
	server.StartTLS()
	defer server.Close()
	protocols := []struct {
		name string
		opts []connect.ClientOption
	}{
		{"grpc", []connect.ClientOption{connect.WithGRPC()}},       // passes
		{"grpcweb", []connect.ClientOption{connect.WithGRPCWeb()}}, // passes
		{"connect", nil}, // fails
	}
	for _, protocol := range protocols {
		client := pingv1connect.NewPingServiceClient(server.Client(), server.URL, protocol.opts...)
		t.Run(protocol.name+"/unary", func(t *testing.T) {
			_, err := client.Ping(context.Background(), connect.NewRequest(&pingv1.PingRequest{}))
			var connectErr *connect.Error
			if !errors.As(err, &connectErr) {
				t.Fatalf("expected a *connect.Error, got %v", err)
			}
			if got := connectErr.Meta().Values("Trailer-Hitch-Id"); len(got) != 1 || got[0] != "th-42" {
				t.Errorf("C02 (metadata contains every key/value the handler attached): handler attached Trailer-Hitch-Id=[th-42], client received Trailer-Hitch-Id=%q", got)
			}
			if got := connectErr.Meta().Values("Hitch-Id"); len(got) != 1 || got[0] != "plain" {
				t.Errorf("C02 (metadata): handler attached Hitch-Id=[plain], client received Hitch-Id=%q", got)
			}
		})
	}
}
