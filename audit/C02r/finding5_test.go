package connect_test

import (
	"bytes"
	"context"
	"errors"
	"net/http"
	"net/http/httptest"
	"testing"

	connect "github.com/bufbuild/connect-go"
	pingv1 "github.com/bufbuild/connect-go/internal/gen/connect/ping/v1"
	"github.com/bufbuild/connect-go/internal/gen/connect/ping/v1/pingv1connect"
	"google.golang.org/protobuf/proto"
	"google.golang.org/protobuf/types/known/anypb"
)

// The detail is an Any-wrapped connect.ping.v1.PingRequest (a type that IS
// linked in) written by a peer with a newer schema: field 1 (number) = 7 and
// one field this binary doesn't know, field 99 = 5.
func auditC02rF5Detail() *anypb.Any {
	return &anypb.Any{
		TypeUrl: "type.googleapis.com/connect.ping.v1.PingRequest",
		Value:   []byte{0x08, 0x07, 0x98, 0x06, 0x05},
	}
}

type auditC02rF5Server struct {
	pingv1connect.UnimplementedPingServiceHandler
}

func (auditC02rF5Server) Ping(context.Context, *connect.Request[pingv1.PingRequest]) (*connect.Response[pingv1.PingResponse], error) {
	err := connect.NewError(connect.CodeFailedPrecondition, errors.New("see details"))
	err.AddDetail(auditC02rF5Detail())
	return nil, err
}

func (auditC02rF5Server) CountUp(_ context.Context, _ *connect.Request[pingv1.CountUpRequest], stream *connect.ServerStream[pingv1.CountUpResponse]) error {
	if err := stream.Send(&pingv1.CountUpResponse{Number: 1}); err != nil {
		return err
	}
	err := connect.NewError(connect.CodeFailedPrecondition, errors.New("see details"))
	err.AddDetail(auditC02rF5Detail())
	return err
}

func TestAuditC02rFinding5(t *testing.T) {
	mux := http.NewServeMux()
	mux.Handle(pingv1connect.NewPingServiceHandler(auditC02rF5Server{}))
	server := httptest.NewUnstartedServer(mux)
	server.EnableHTTP2 = true
	server.StartTLS()
	defer server.Close()

	check := func(t *testing.T, err error) {
		t.Helper()
		var connectErr *connect.Error
		if !errors.As(err, &connectErr) {
			t.Fatalf("expected a *connect.Error, got %v", err)
		}
		if len(connectErr.Details()) != 1 {
			t.Fatalf("C02 (equal details): handler returned 1 detail, client received %d (%v)", len(connectErr.Details()), err)
		}
		want := auditC02rF5Detail()
		got, ok := connectErr.Details()[0].(*anypb.Any)
		if !ok {
			t.Fatalf("detail is a %T", connectErr.Details()[0])
		}
		if !proto.Equal(want, got) || !bytes.Equal(want.Value, got.Value) {
			t.Errorf("C02 (equal details): handler returned detail %v (value bytes %x), client received %v (value bytes %x)",
				want, want.Value, got, got.Value)
		}
	}
	protocols := []struct {
		name string
		opts []connect.ClientOption
	}{
		{"grpc", []connect.ClientOption{connect.WithGRPC()}},       // passes
		{"grpcweb", []connect.ClientOption{connect.WithGRPCWeb()}}, // passes
		{"connect", nil}, // fails
	}
	for _, protocol := range protocols {
		client := pingv1connect.NewPingServiceClient(server.Client(), server.URL, protocol.opts...)
		t.Run(protocol.name+"/unary", func(t *testing.T) {
			_, err := client.Ping(context.Background(), connect.NewRequest(&pingv1.PingRequest{}))
			check(t, err)
		})
		t.Run(protocol.name+"/server_stream_after_one_message", func(t *testing.T) {
			stream, err := client.CountUp(context.Background(), connect.NewRequest(&pingv1.CountUpRequest{Number: 1}))
			if err != nil {
				t.Fatal(err)
			}
			defer stream.Close()
			for stream.Receive() {
			}
			check(t, stream.Err())
		})
	}
}
