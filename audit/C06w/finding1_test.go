package connect_test

import (
	"bufio"
	"context"
	"errors"
	"net"
	"net/http"
	"sync"
	"testing"
	"time"

	connect "github.com/bufbuild/connect-go"
	pingv1 "github.com/bufbuild/connect-go/internal/gen/connect/ping/v1"
)

// TestAuditC06wFinding1: property C06 says that for ANY HTTP response - any
// status - every client call terminates and fails with a coded error whose
// code is derived from the HTTP status. A server that answers
// "101 Switching Protocols" (a complete, body-less HTTP response) and then
// keeps the connection open makes every client call block forever: net/http
// hands the raw connection over as Response.Body for a 101, the call's context
// no longer governs it, and the library reads that "body" to its end
// (Connect unary: validateResponse decodes the error body; all other
// protocols/stream types: CloseResponse -> duplexHTTPCall.CloseRead -> discard).
// Not even the call's own deadline ends the call.
func TestAuditC06wFinding1(t *testing.T) {
	listener, err := net.Listen("tcp", "127.0.0.1:0")
	if err != nil {
		t.Fatal(err)
	}
	var (
		mu    sync.Mutex
		conns []net.Conn
	)
	t.Cleanup(func() {
		listener.Close()
		mu.Lock()
		defer mu.Unlock()
		for _, c := range conns {
			c.Close()
		}
	})
	go func() {
		for {
			conn, err := listener.Accept()
			if err != nil {
				return
			}
			mu.Lock()
			conns = append(conns, conn)
			mu.Unlock()
			go func(conn net.Conn) {
				reader := bufio.NewReader(conn)
				for { // request head
					line, err := reader.ReadString('\n')
					if err != nil {
						return
					}
					if line == "\r\n" {
						break
					}
				}
				_, _ = conn.Write([]byte(
					"HTTP/1.1 101 Switching Protocols\r\n" +
						"Connection: Upgrade\r\n" +
						"Upgrade: foo\r\n" +
						"\r\n",
				))
				// The response is complete. The server now speaks "foo" and waits
				// for the client; it swallows whatever else arrives.
				buf := make([]byte, 4096)
				for {
					if _, err := reader.Read(buf); err != nil {
						return
					}
				}
			}(conn)
		}
	}()
	url := "http://" + listener.Addr().String() + "/connect.ping.v1.PingService/Ping"

	const (
		callDeadline = 500 * time.Millisecond
		watchdog     = 3 * time.Second
	)
	type call struct {
		name string
		run  func(context.Context, *connect.Client[pingv1.PingRequest, pingv1.PingResponse]) error
	}
	calls := []call{
		{"unary", func(ctx context.Context, client *connect.Client[pingv1.PingRequest, pingv1.PingResponse]) error {
			_, err := client.CallUnary(ctx, connect.NewRequest(&pingv1.PingRequest{}))
			return err
		}},
		{"server-stream", func(ctx context.Context, client *connect.Client[pingv1.PingRequest, pingv1.PingResponse]) error {
			stream, err := client.CallServerStream(ctx, connect.NewRequest(&pingv1.PingRequest{}))
			if err != nil {
				return err
			}
			for stream.Receive() {
			}
			err = stream.Err()
			_ = stream.Close()
			return err
		}},
		{"client-stream", func(ctx context.Context, client *connect.Client[pingv1.PingRequest, pingv1.PingResponse]) error {
			stream := client.CallClientStream(ctx)
			_ = stream.Send(&pingv1.PingRequest{})
			_, err := stream.CloseAndReceive()
			return err
		}},
	}
	protocols := []struct {
		name string
		opts []connect.ClientOption
	}{
		{"connect", nil},
		{"grpc", []connect.ClientOption{connect.WithGRPC()}},
		{"grpcweb", []connect.ClientOption{connect.WithGRPCWeb()}},
	}
	for _, protocol := range protocols {
		for _, call := range calls {
			protocol, call := protocol, call
			t.Run(protocol.name+"/"+call.name, func(t *testing.T) {
				client := connect.NewClient[pingv1.PingRequest, pingv1.PingResponse](
					&http.Client{Transport: &http.Transport{}},
					url,
					protocol.opts...,
				)
				done := make(chan error, 1)
				start := time.Now()
				go func() {
					ctx, cancel := context.WithTimeout(context.Background(), callDeadline)
					defer cancel()
					done <- call.run(ctx, client)
				}()
				select {
				case err := <-done:
					var connectErr *connect.Error
					if !errors.As(err, &connectErr) || connectErr.Code() == 0 {
						t.Fatalf("expected (C06) a coded non-OK error for the 101 response, got %v", err)
					}
					t.Logf("call returned after %v: %v", time.Since(start), err)
				case <-time.After(watchdog):
					t.Fatalf(
						"expected (C06): for any HTTP response, any status, the client call terminates with a coded error "+
							"(here: status 101 -> code unknown, or at the latest deadline_exceeded when its %v deadline passes); "+
							"observed: the call is still blocked %v after the complete '101 Switching Protocols' response arrived, "+
							"%v past its own context deadline",
						callDeadline, time.Since(start).Round(time.Millisecond), (time.Since(start) - callDeadline).Round(time.Millisecond),
					)
				}
			})
		}
	}
}
