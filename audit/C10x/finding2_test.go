package connect_test

import (
	"bytes"
	"context"
	"encoding/json"
	"io"
	"net/http"
	"net/http/httptest"
	"sync/atomic"
	"testing"

	connect "github.com/bufbuild/connect-go"
	pingv1 "github.com/bufbuild/connect-go/internal/gen/connect/ping/v1"
	"github.com/bufbuild/connect-go/internal/gen/connect/ping/v1/pingv1connect"
)

type auditC10xF2Server struct {
	pingv1connect.UnimplementedPingServiceHandler

	ran atomic.Bool
}

func (s *auditC10xF2Server) Ping(
	_ context.Context,
	_ *connect.Request[pingv1.PingRequest],
) (*connect.Response[pingv1.PingResponse], error) {
	s.ran.Store(true)
	return connect.NewResponse(&pingv1.PingResponse{}), nil
}

// C10: a malformed timeout is rejected as invalid_argument without running
// user code. The handler parses the timeout first, but reports the error only
// after it has built the connection - and building the connection has its own
// error path (compression negotiation), which returns first. So a request
// whose timeout is malformed is answered with "unimplemented", and the
// malformed timeout is never reported, when the request also names a
// compression the server doesn't have.
func TestAuditC10xFinding2(t *testing.T) {
	t.Parallel()
	server := &auditC10xF2Server{}
	mux := http.NewServeMux()
	mux.Handle(pingv1connect.NewPingServiceHandler(server))

	const grpcInvalidArgument = "3" // numeric gRPC status for invalid_argument

	type testCase struct {
		name          string
		contentType   string
		timeoutHeader string
		timeoutValue  string
		encHeader     string
		body          []byte
	}
	envelope := []byte{0, 0, 0, 0, 0} // one empty, uncompressed message
	cases := []testCase{
		{"connect_unary", "application/proto", "Connect-Timeout-Ms", "12x", "Content-Encoding", nil},
		{"grpc", "application/grpc", "Grpc-Timeout", "5", "Grpc-Encoding", envelope},          // missing unit
		{"grpc_web", "application/grpc-web", "Grpc-Timeout", "5s", "Grpc-Encoding", envelope}, // unknown unit
	}
	// code returns the error code the response carries, as the protocol spells it.
	code := func(t *testing.T, tc testCase, res *http.Response) string {
		t.Helper()
		body, _ := io.ReadAll(res.Body)
		if tc.name == "connect_unary" {
			var wire struct {
				Code string `json:"code"`
			}
			if err := json.Unmarshal(body, &wire); err != nil {
				t.Fatalf("HTTP %d, body %q is not a Connect error: %v", res.StatusCode, body, err)
			}
			return wire.Code
		}
		if status := res.Header.Get("Grpc-Status"); status != "" {
			return status
		}
		return res.Trailer.Get("Grpc-Status")
	}
	do := func(t *testing.T, tc testCase, unknownCompression bool) string {
		t.Helper()
		server.ran.Store(false)
		req := httptest.NewRequest(
			http.MethodPost,
			"http://localhost/connect.ping.v1.PingService/Ping",
			bytes.NewReader(tc.body),
		)
		req.Header.Set("Content-Type", tc.contentType)
		req.Header.Set(tc.timeoutHeader, tc.timeoutValue)
		if unknownCompression {
			req.Header.Set(tc.encHeader, "zstd")
		}
		recorder := httptest.NewRecorder()
		mux.ServeHTTP(recorder, req)
		if server.ran.Load() {
			t.Errorf("user code ran for a request with malformed %s %q", tc.timeoutHeader, tc.timeoutValue)
		}
		return code(t, tc, recorder.Result())
	}
	for _, tc := range cases {
		tc := tc
		t.Run(tc.name, func(t *testing.T) {
			want := "invalid_argument"
			if tc.name != "connect_unary" {
				want = grpcInvalidArgument
			}
			// Control: the malformed timeout on its own is rejected as the property says.
			if got := do(t, tc, false); got != want {
				t.Errorf("control: malformed %s %q: expected code %s, got %q", tc.timeoutHeader, tc.timeoutValue, want, got)
			}
			// The same malformed timeout, on a request that also names an unknown compression.
			if got := do(t, tc, true); got != want {
				t.Errorf("C10 violated (a malformed timeout is rejected as invalid_argument): "+
					"request with malformed %s: %q and %s: zstd: expected error code %s (invalid_argument), "+
					"observed %q (12 = unimplemented): the malformed timeout is never reported",
					tc.timeoutHeader, tc.timeoutValue, tc.encHeader, want, got)
			}
		})
	}
}
