package connect_test

import (
	"context"
	"fmt"
	"net/http"
	"net/http/httptest"
	"strings"
	"testing"

	"github.com/bufbuild/connect-go"
	pingv1 "github.com/bufbuild/connect-go/internal/gen/connect/ping/v1"
)

// auditC12xF3Codec is a registered codec whose (non-empty, hence allowed) name
// contains the list separator of HTTP header fields.
type auditC12xF3Codec struct{ name string }

func (c auditC12xF3Codec) Name() string                { return c.name }
func (c auditC12xF3Codec) Marshal(any) ([]byte, error) { return []byte("{}"), nil }
func (c auditC12xF3Codec) Unmarshal([]byte, any) error { return nil }

// With a codec named "a, b" registered:
//
// (1) Accept-Post is a comma-separated list. What the handler sends reads, to
// any recipient, as a list containing "application/a" and "b" - neither of
// which the handler accepts - so the header does not list exactly the content
// types that are accepted.
//
// (2) ServeHTTP matches the Content-Type field lines joined by ", " against
// the advertised types, but the protocol handlers then pick the codec from the
// first field line only. A POST with the two field lines "application/a" and
// "b" is therefore dispatched as a served Content-Type (no 415) but gets no
// codec: the handler dereferences a nil codec, and user code and interceptors
// never run.
func TestAuditC12xFinding3(t *testing.T) {
	interceptorRuns, userRuns := 0, 0
	newHandler := func() *connect.Handler {
		return connect.NewUnaryHandler(
			"/connect.ping.v1.PingService/Ping",
			func(_ context.Context, _ *connect.Request[pingv1.PingRequest]) (*connect.Response[pingv1.PingResponse], error) {
				userRuns++
				return connect.NewResponse(&pingv1.PingResponse{}), nil
			},
			connect.WithCodec(auditC12xF3Codec{name: "a, b"}),
			connect.WithInterceptors(connect.UnaryInterceptorFunc(func(next connect.UnaryFunc) connect.UnaryFunc {
				return func(ctx context.Context, req connect.AnyRequest) (connect.AnyResponse, error) {
					interceptorRuns++
					return next(ctx, req)
				}
			})),
		)
	}
	post := func(contentType ...string) (rec *httptest.ResponseRecorder, panicked any) {
		req := httptest.NewRequest(http.MethodPost, "/connect.ping.v1.PingService/Ping", strings.NewReader("{}"))
		req.Header["Content-Type"] = contentType
		rec = httptest.NewRecorder()
		defer func() { panicked = recover() }()
		newHandler().ServeHTTP(rec, req)
		return rec, nil
	}

	// (1) Every member of the advertised list must be accepted.
	rec, _ := post("text/plain")
	if rec.Code != http.StatusUnsupportedMediaType {
		t.Fatalf("expected 415 for text/plain, got %d", rec.Code)
	}
	acceptPost := rec.Header().Get("Accept-Post")
	for _, member := range strings.Split(acceptPost, ",") {
		member = strings.TrimSpace(member)
		rec, panicked := post(member)
		if panicked != nil || rec.Code == http.StatusUnsupportedMediaType {
			t.Errorf("C12: Accept-Post must list exactly the accepted content types; the 415 response advertised %q, whose list member %q is therefore expected to be accepted, observed status %d (panic: %v)",
				acceptPost, member, rec.Code, panicked)
		}
	}

	// (2) A Content-Type that passes the dispatch check must reach user code
	// and interceptors exactly once.
	interceptorRuns, userRuns = 0, 0
	rec, panicked := post("application/a", "b")
	if rec.Code == http.StatusUnsupportedMediaType {
		t.Logf("two field lines were rejected with 415 (fine)")
		return
	}
	if panicked != nil || interceptorRuns != 1 || userRuns != 1 {
		t.Errorf("C12: POST with Content-Type field lines [\"application/a\" \"b\"] was not rejected with 415 (status %d), so interceptors and user code are expected to run exactly once; observed interceptor runs %d, user code runs %d, panic: %s",
			rec.Code, interceptorRuns, userRuns, fmt.Sprint(panicked))
	}
}
