package connect_test

import (
	"context"
	"net/http"
	"net/http/httptest"
	"sync"
	"testing"

	"github.com/bufbuild/connect-go"
	pingv1 "github.com/bufbuild/connect-go/internal/gen/connect/ping/v1"
	"github.com/bufbuild/connect-go/internal/gen/connect/ping/v1/pingv1connect"
)

type auditC12xF2SpecRecorder struct {
	mu    sync.Mutex
	specs []connect.Spec
}

func (r *auditC12xF2SpecRecorder) add(spec connect.Spec) {
	r.mu.Lock()
	r.specs = append(r.specs, spec)
	r.mu.Unlock()
}

func (r *auditC12xF2SpecRecorder) WrapUnary(next connect.UnaryFunc) connect.UnaryFunc {
	return func(ctx context.Context, req connect.AnyRequest) (connect.AnyResponse, error) {
		r.add(req.Spec())
		return next(ctx, req)
	}
}

func (r *auditC12xF2SpecRecorder) WrapStreamingClient(next connect.StreamingClientFunc) connect.StreamingClientFunc {
	return func(ctx context.Context, spec connect.Spec) connect.StreamingClientConn {
		r.add(spec)
		return next(ctx, spec)
	}
}

func (r *auditC12xF2SpecRecorder) WrapStreamingHandler(next connect.StreamingHandlerFunc) connect.StreamingHandlerFunc {
	return func(ctx context.Context, conn connect.StreamingHandlerConn) error {
		r.add(conn.Spec())
		return next(ctx, conn)
	}
}

type auditC12xF2PingServer struct {
	pingv1connect.UnimplementedPingServiceHandler
}

func (auditC12xF2PingServer) Ping(_ context.Context, req *connect.Request[pingv1.PingRequest]) (*connect.Response[pingv1.PingResponse], error) {
	return connect.NewResponse(&pingv1.PingResponse{Number: req.Msg.Number}), nil
}

func (auditC12xF2PingServer) CountUp(_ context.Context, req *connect.Request[pingv1.CountUpRequest], stream *connect.ServerStream[pingv1.CountUpResponse]) error {
	return stream.Send(&pingv1.CountUpResponse{Number: 1})
}

// The client derives Spec.Procedure from its URL by splitting the raw string
// on "/": everything after the last slash, query string included, becomes part
// of the procedure. The handler that serves the call sees the procedure it was
// built with, so the two sides' interceptors disagree.
func TestAuditC12xFinding2(t *testing.T) {
	const procedurePing = "/connect.ping.v1.PingService/Ping"
	const procedureCountUp = "/connect.ping.v1.PingService/CountUp"
	handlerSeen := &auditC12xF2SpecRecorder{}
	mux := http.NewServeMux()
	mux.Handle(pingv1connect.NewPingServiceHandler(auditC12xF2PingServer{}, connect.WithInterceptors(handlerSeen)))
	server := httptest.NewServer(mux)
	defer server.Close()

	for _, protocol := range []struct {
		name string
		opts []connect.ClientOption
	}{
		{"connect", nil},
		{"grpc-web", []connect.ClientOption{connect.WithGRPCWeb()}},
	} {
		// Unary.
		clientSeen := &auditC12xF2SpecRecorder{}
		handlerSeen.specs = nil
		unaryURL := server.URL + procedurePing + "?api_key=secret"
		unaryClient := connect.NewClient[pingv1.PingRequest, pingv1.PingResponse](
			server.Client(), unaryURL,
			append([]connect.ClientOption{connect.WithInterceptors(clientSeen)}, protocol.opts...)...,
		)
		if _, err := unaryClient.CallUnary(context.Background(), connect.NewRequest(&pingv1.PingRequest{Number: 1})); err != nil {
			t.Fatalf("%s unary call failed: %v", protocol.name, err)
		}
		if len(clientSeen.specs) != 1 || len(handlerSeen.specs) != 1 {
			t.Fatalf("%s unary: expected one client and one handler interceptor run, got %d and %d", protocol.name, len(clientSeen.specs), len(handlerSeen.specs))
		}
		if got, want := clientSeen.specs[0].Procedure, handlerSeen.specs[0].Procedure; got != want {
			t.Errorf("C12 (%s, unary, URL %q): handler interceptor observed procedure %q (the one the handler was built with, %q), so the calling client's interceptors must see the same; they observed %q",
				protocol.name, unaryURL, want, procedurePing, got)
		}

		// Server streaming.
		clientSeen = &auditC12xF2SpecRecorder{}
		handlerSeen.specs = nil
		streamURL := server.URL + procedureCountUp + "?api_key=secret"
		streamClient := connect.NewClient[pingv1.CountUpRequest, pingv1.CountUpResponse](
			server.Client(), streamURL,
			append([]connect.ClientOption{connect.WithInterceptors(clientSeen)}, protocol.opts...)...,
		)
		stream, err := streamClient.CallServerStream(context.Background(), connect.NewRequest(&pingv1.CountUpRequest{Number: 1}))
		if err != nil {
			t.Fatalf("%s server stream call failed: %v", protocol.name, err)
		}
		for stream.Receive() {
		}
		if err := stream.Err(); err != nil {
			t.Fatalf("%s server stream failed: %v", protocol.name, err)
		}
		_ = stream.Close()
		if len(clientSeen.specs) != 1 || len(handlerSeen.specs) != 1 {
			t.Fatalf("%s server stream: expected one client and one handler interceptor run, got %d and %d", protocol.name, len(clientSeen.specs), len(handlerSeen.specs))
		}
		if got, want := clientSeen.specs[0].Procedure, handlerSeen.specs[0].Procedure; got != want {
			t.Errorf("C12 (%s, server stream, URL %q): handler interceptor observed procedure %q (the one the handler was built with, %q), so the calling client's interceptors must see the same; they observed %q",
				protocol.name, streamURL, want, procedureCountUp, got)
		}
	}
}
