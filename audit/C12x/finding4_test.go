package connect_test

import (
	"context"
	"net/http"
	"net/http/httptest"
	"strings"
	"testing"

	"github.com/bufbuild/connect-go"
	pingv1 "github.com/bufbuild/connect-go/internal/gen/connect/ping/v1"
)

type auditC12xF4Counter struct {
	interceptorRuns int
	userRuns        int
}

func (c *auditC12xF4Counter) WrapUnary(next connect.UnaryFunc) connect.UnaryFunc {
	return func(ctx context.Context, req connect.AnyRequest) (connect.AnyResponse, error) {
		c.interceptorRuns++
		return next(ctx, req)
	}
}

func (c *auditC12xF4Counter) WrapStreamingClient(next connect.StreamingClientFunc) connect.StreamingClientFunc {
	return next
}

func (c *auditC12xF4Counter) WrapStreamingHandler(next connect.StreamingHandlerFunc) connect.StreamingHandlerFunc {
	return func(ctx context.Context, conn connect.StreamingHandlerConn) error {
		c.interceptorRuns++
		return next(ctx, conn)
	}
}

// C12 names exactly three rejected cases (non-POST -> 405, bidi over HTTP/1.x
// -> 505, unserved Content-Type -> 415) and says that otherwise user code and
// interceptors run exactly once. Each request below is a POST over HTTP/2 with
// an advertised Content-Type and a well-formed body, so none of them is in a
// rejected case - yet the handler answers without running the interceptors
// and/or the user code.
func TestAuditC12xFinding4(t *testing.T) {
	const procedure = "/connect.ping.v1.PingService/Ping"
	const emptyEnvelope = "\x00\x00\x00\x00\x00"
	newUnary := func(counter *auditC12xF4Counter) *connect.Handler {
		return connect.NewUnaryHandler(procedure,
			func(_ context.Context, _ *connect.Request[pingv1.PingRequest]) (*connect.Response[pingv1.PingResponse], error) {
				counter.userRuns++
				return connect.NewResponse(&pingv1.PingResponse{}), nil
			},
			connect.WithInterceptors(counter),
		)
	}
	newBidi := func(counter *auditC12xF4Counter) *connect.Handler {
		return connect.NewBidiStreamHandler(procedure,
			func(_ context.Context, _ *connect.BidiStream[pingv1.PingRequest, pingv1.PingResponse]) error {
				counter.userRuns++
				return nil
			},
			connect.WithInterceptors(counter),
		)
	}
	cases := []struct {
		name        string
		newHandler  func(*auditC12xF4Counter) *connect.Handler
		contentType string
		body        string
		header      [2]string // one extra request header; empty for the control cases
	}{
		// Controls: the same requests without the extra header run everything once.
		{"control/connect-unary", newUnary, "application/json", "{}", [2]string{}},
		{"control/grpc-unary", newUnary, "application/grpc+proto", emptyEnvelope, [2]string{}},
		{"control/connect-bidi", newBidi, "application/connect+proto", "", [2]string{}},
		// Unparseable timeout: neither interceptors nor user code run.
		{"connect-unary/Connect-Timeout-Ms:soon", newUnary, "application/json", "{}", [2]string{"Connect-Timeout-Ms", "soon"}},
		{"grpc-unary/Grpc-Timeout:1x", newUnary, "application/grpc+proto", emptyEnvelope, [2]string{"Grpc-Timeout", "1x"}},
		{"grpc-web-bidi/Grpc-Timeout:1x", newBidi, "application/grpc-web+proto", "", [2]string{"Grpc-Timeout", "1x"}},
		{"connect-bidi/Connect-Timeout-Ms:12345678901", newBidi, "application/connect+proto", "", [2]string{"Connect-Timeout-Ms", "12345678901"}},
		// Unknown request compression: neither interceptors nor user code run.
		{"connect-unary/Content-Encoding:br", newUnary, "application/json", "{}", [2]string{"Content-Encoding", "br"}},
		{"grpc-unary/Grpc-Encoding:br", newUnary, "application/grpc+proto", emptyEnvelope, [2]string{"Grpc-Encoding", "br"}},
		{"connect-bidi/Connect-Content-Encoding:br", newBidi, "application/connect+proto", "", [2]string{"Connect-Content-Encoding", "br"}},
		// A valid timeout of zero: the interceptors run, the user code doesn't.
		{"connect-unary/Connect-Timeout-Ms:0", newUnary, "application/json", "{}", [2]string{"Connect-Timeout-Ms", "0"}},
		{"grpc-unary/Grpc-Timeout:0n", newUnary, "application/grpc+proto", emptyEnvelope, [2]string{"Grpc-Timeout", "0n"}},
	}
	for _, testCase := range cases {
		counter := &auditC12xF4Counter{}
		handler := testCase.newHandler(counter)
		request := httptest.NewRequest(http.MethodPost, procedure, strings.NewReader(testCase.body))
		request.Proto, request.ProtoMajor, request.ProtoMinor = "HTTP/2.0", 2, 0
		request.Header.Set("Content-Type", testCase.contentType)
		if testCase.header[0] != "" {
			request.Header.Set(testCase.header[0], testCase.header[1])
		}
		recorder := httptest.NewRecorder()
		handler.ServeHTTP(recorder, request)
		status := recorder.Code
		if status == http.StatusMethodNotAllowed || status == http.StatusHTTPVersionNotSupported || status == http.StatusUnsupportedMediaType {
			continue // a rejected case in the sense of C12: nothing may run, which isn't what's tested here
		}
		if counter.interceptorRuns != 1 || counter.userRuns != 1 {
			t.Errorf("C12 (%s): POST over HTTP/2 with served Content-Type %q was not rejected with 405/505/415 (HTTP status %d, grpc-status %q), so interceptors and user code are expected to run exactly once each; observed interceptor runs %d, user code runs %d",
				testCase.name, testCase.contentType, status,
				recorder.Header().Get("Grpc-Status")+recorder.Result().Trailer.Get("Grpc-Status"), //nolint:bodyclose
				counter.interceptorRuns, counter.userRuns)
		}
	}
}
