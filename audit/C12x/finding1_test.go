package connect_test

import (
	"context"
	"net/http"
	"net/http/httptest"
	"sync"
	"testing"

	"github.com/bufbuild/connect-go"
	pingv1 "github.com/bufbuild/connect-go/internal/gen/connect/ping/v1"
)

// auditC12xF1SpecRecorder records every Spec an interceptor chain observes.
type auditC12xF1SpecRecorder struct {
	mu    sync.Mutex
	specs []connect.Spec
}

func (r *auditC12xF1SpecRecorder) WrapUnary(next connect.UnaryFunc) connect.UnaryFunc {
	return func(ctx context.Context, req connect.AnyRequest) (connect.AnyResponse, error) {
		r.mu.Lock()
		r.specs = append(r.specs, req.Spec())
		r.mu.Unlock()
		return next(ctx, req)
	}
}

func (r *auditC12xF1SpecRecorder) WrapStreamingClient(next connect.StreamingClientFunc) connect.StreamingClientFunc {
	return next
}

func (r *auditC12xF1SpecRecorder) WrapStreamingHandler(next connect.StreamingHandlerFunc) connect.StreamingHandlerFunc {
	return next
}

// A handler built with a procedure name that has a single path segment
// ("/Ping", as a hand-written, non-Protobuf service might use) must show its
// interceptors and its user code a Spec carrying that procedure, and the
// calling client's interceptors must see the same procedure.
func TestAuditC12xFinding1(t *testing.T) {
	const procedure = "/Ping"
	handlerSeen := &auditC12xF1SpecRecorder{}
	clientSeen := &auditC12xF1SpecRecorder{}
	var userSpec connect.Spec
	userRuns := 0

	mux := http.NewServeMux()
	mux.Handle(procedure, connect.NewUnaryHandler(
		procedure,
		func(_ context.Context, req *connect.Request[pingv1.PingRequest]) (*connect.Response[pingv1.PingResponse], error) {
			userRuns++
			userSpec = req.Spec()
			return connect.NewResponse(&pingv1.PingResponse{Number: req.Msg.Number}), nil
		},
		connect.WithInterceptors(handlerSeen),
	))
	server := httptest.NewServer(mux)
	defer server.Close()

	client := connect.NewClient[pingv1.PingRequest, pingv1.PingResponse](
		server.Client(),
		server.URL+procedure,
		connect.WithInterceptors(clientSeen),
	)
	res, err := client.CallUnary(context.Background(), connect.NewRequest(&pingv1.PingRequest{Number: 42}))
	if err != nil {
		t.Fatalf("call failed: %v", err)
	}
	if res.Msg.Number != 42 {
		t.Fatalf("unexpected response %v", res.Msg)
	}
	if userRuns != 1 || len(handlerSeen.specs) != 1 || len(clientSeen.specs) != 1 {
		t.Fatalf("expected user code, handler interceptor and client interceptor to run once each, got %d/%d/%d",
			userRuns, len(handlerSeen.specs), len(clientSeen.specs))
	}
	handlerSpec, clientSpec := handlerSeen.specs[0], clientSeen.specs[0]
	if handlerSpec.Procedure != procedure {
		t.Errorf("C12: handler interceptor must observe the procedure the handler was built with: expected %q, observed %q",
			procedure, handlerSpec.Procedure)
	}
	if userSpec.Procedure != procedure {
		t.Errorf("C12: user code must observe the procedure the handler was built with: expected %q, observed %q",
			procedure, userSpec.Procedure)
	}
	if clientSpec.Procedure != handlerSpec.Procedure {
		t.Errorf("C12: handler-side Spec must match what the calling client's interceptors see: client interceptor observed procedure %q, handler interceptor observed %q (client URL %q)",
			clientSpec.Procedure, handlerSpec.Procedure, server.URL+procedure)
	}
}
