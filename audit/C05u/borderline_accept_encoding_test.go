package connect_test

import (
	"bytes"
	"compress/gzip"
	"context"
	"io"
	"net/http"
	"net/http/httptest"
	"strings"
	"testing"

	connect "github.com/bufbuild/connect-go"
	pingv1 "github.com/bufbuild/connect-go/internal/gen/connect/ping/v1"
	"google.golang.org/protobuf/proto"
)

// The peer compresses its request with "gzip" but tells the handler that the
// only response encoding it accepts is "zz" (which the handler also
// supports). The handler answers in gzip: an encoding the peer did not list.
// gRPC's compression spec says such a response fails on a conformant client
// with INTERNAL; the Connect spec lets the server choose only among the
// listed codings (or identity).
func TestAuditC05uBorderlineAcceptEncoding(t *testing.T) {
	t.Parallel()
	zz := connect.WithCompression("zz",
		func() connect.Decompressor { return &gzip.Reader{} },
		func() connect.Compressor { return gzip.NewWriter(io.Discard) },
	)
	mux := http.NewServeMux()
	mux.Handle("/s/CountUp", connect.NewServerStreamHandler("/s/CountUp",
		func(_ context.Context, _ *connect.Request[pingv1.CountUpRequest], stream *connect.ServerStream[pingv1.CountUpResponse]) error {
			return stream.Send(&pingv1.CountUpResponse{Number: 1})
		}, zz))
	mux.Handle("/u/Ping", connect.NewUnaryHandler("/u/Ping",
		func(_ context.Context, req *connect.Request[pingv1.PingRequest]) (*connect.Response[pingv1.PingResponse], error) {
			return connect.NewResponse(&pingv1.PingResponse{Number: 1}), nil
		}, zz))
	server := httptest.NewServer(mux)
	defer server.Close()
	httpClient := &http.Client{Transport: &http.Transport{DisableCompression: true}}

	gz := func(b []byte) []byte {
		var buf bytes.Buffer
		w := gzip.NewWriter(&buf)
		_, _ = w.Write(b)
		_ = w.Close()
		return buf.Bytes()
	}
	envelope := func(flags byte, payload []byte) []byte {
		n := len(payload)
		return append([]byte{flags, byte(n >> 24), byte(n >> 16), byte(n >> 8), byte(n)}, payload...)
	}
	msg, _ := proto.Marshal(&pingv1.CountUpRequest{Number: 1})

	for _, tc := range []struct {
		name, path, contentType, encodingHeader, acceptHeader string
		body                                                  []byte
	}{
		{"grpc", "/s/CountUp", "application/grpc+proto", "Grpc-Encoding", "Grpc-Accept-Encoding", envelope(1, gz(msg))},
		{"grpcweb", "/s/CountUp", "application/grpc-web+proto", "Grpc-Encoding", "Grpc-Accept-Encoding", envelope(1, gz(msg))},
		{"connect_streaming", "/s/CountUp", "application/connect+proto", "Connect-Content-Encoding", "Connect-Accept-Encoding", envelope(1, gz(msg))},
		{"connect_unary", "/u/Ping", "application/proto", "Content-Encoding", "Accept-Encoding", gz(msg)},
	} {
		tc := tc
		t.Run(tc.name, func(t *testing.T) {
			req, err := http.NewRequest(http.MethodPost, server.URL+tc.path, bytes.NewReader(tc.body))
			if err != nil {
				t.Fatal(err)
			}
			req.Header.Set("Content-Type", tc.contentType)
			req.Header.Set(tc.encodingHeader, "gzip")
			req.Header.Set(tc.acceptHeader, "zz")
			res, err := httpClient.Do(req)
			if err != nil {
				t.Fatal(err)
			}
			defer res.Body.Close()
			body, _ := io.ReadAll(res.Body)
			if res.StatusCode != http.StatusOK {
				t.Fatalf("unexpected HTTP status %d, body %q", res.StatusCode, body)
			}
			got := strings.TrimSpace(res.Header.Get(tc.encodingHeader))
			if got != "" && got != "identity" && got != "zz" {
				t.Errorf("property: the response is decodable by a strictly spec-following peer, i.e. compressed only with an encoding the peer listed in %s (zz) or not at all; observed response %s: %q (%d body bytes)",
					tc.acceptHeader, tc.encodingHeader, got, len(body))
			}
		})
	}
}
