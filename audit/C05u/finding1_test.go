package connect_test

import (
	"context"
	"net/http"
	"net/http/httptest"
	"testing"

	connect "github.com/bufbuild/connect-go"
	pingv1 "github.com/bufbuild/connect-go/internal/gen/connect/ping/v1"
)

// A body-less ("trailers-only") gRPC or gRPC-Web response with grpc-status 0
// carries its trailing metadata in the HTTP headers. Per the gRPC spec,
// everything but :status and content-type in such a response is trailing
// metadata. The client only treats it that way when the status is non-zero.
func TestAuditC05uFinding1(t *testing.T) {
	t.Parallel()
	mux := http.NewServeMux()
	// (a) this library's own handler: a server-streaming procedure that sends
	// no messages, sets a response trailer and returns nil.
	mux.Handle("/lib/CountUp", connect.NewServerStreamHandler(
		"/lib/CountUp",
		func(_ context.Context, _ *connect.Request[pingv1.CountUpRequest], stream *connect.ServerStream[pingv1.CountUpResponse]) error {
			stream.ResponseTrailer().Set("X-App-Trailer", "supplied-as-trailer")
			return nil // zero messages, OK status
		},
	))
	// (b) an independent peer: a hand-written conformant Trailers-Only gRPC
	// response (as grpc-go sends for an empty, successful server stream).
	mux.HandleFunc("/raw/CountUp", func(w http.ResponseWriter, r *http.Request) {
		w.Header().Set("Content-Type", r.Header.Get("Content-Type"))
		w.Header().Set("Grpc-Status", "0")
		w.Header().Set("X-App-Trailer", "supplied-as-trailer")
		w.WriteHeader(http.StatusOK)
	})
	server := httptest.NewServer(mux)
	defer server.Close()

	for _, tc := range []struct {
		name string
		path string
		opt  connect.ClientOption
	}{
		{"grpcweb_library_handler", "/lib/CountUp", connect.WithGRPCWeb()},
		{"grpc_raw_trailers_only_peer", "/raw/CountUp", connect.WithGRPC()},
		{"grpcweb_raw_trailers_only_peer", "/raw/CountUp", connect.WithGRPCWeb()},
	} {
		tc := tc
		t.Run(tc.name, func(t *testing.T) {
			client := connect.NewClient[pingv1.CountUpRequest, pingv1.CountUpResponse](
				server.Client(), server.URL+tc.path, tc.opt,
			)
			stream, err := client.CallServerStream(context.Background(), connect.NewRequest(&pingv1.CountUpRequest{Number: 1}))
			if err != nil {
				t.Fatal(err)
			}
			for stream.Receive() {
				t.Fatal("unexpected message")
			}
			if err := stream.Err(); err != nil {
				t.Fatalf("unexpected error: %v", err)
			}
			if got := stream.ResponseTrailer().Get("X-App-Trailer"); got != "supplied-as-trailer" {
				t.Errorf("property: decoding the trailers-only response yields the trailing metadata the application supplied (X-App-Trailer=supplied-as-trailer in the trailers); observed ResponseTrailer()=%v, ResponseHeader()=%v",
					stream.ResponseTrailer(), stream.ResponseHeader())
			}
			if got := stream.ResponseHeader().Get("X-App-Trailer"); got != "" {
				t.Errorf("property: the application supplied no response *header* X-App-Trailer; observed ResponseHeader()[X-App-Trailer]=%q", got)
			}
			_ = stream.Close()
		})
	}
}
