package connect_test

import (
	"context"
	"errors"
	"net/http"
	"net/http/httptest"
	"testing"

	connect "github.com/bufbuild/connect-go"
	pingv1 "github.com/bufbuild/connect-go/internal/gen/connect/ping/v1"
)

// A gRPC-Web response: one message, then the final 0x80 frame with exactly
// one grpc-status (10) and exactly one x-app-trailer. Every Receive call made
// after the stream has ended merges that same trailers block into the
// client's view of the trailers (and the error's metadata) once more.
func TestAuditC05uFinding2(t *testing.T) {
	t.Parallel()
	mux := http.NewServeMux()
	mux.Handle("/ping/CumSum", connect.NewBidiStreamHandler(
		"/ping/CumSum",
		func(_ context.Context, stream *connect.BidiStream[pingv1.CumSumRequest, pingv1.CumSumResponse]) error {
			stream.ResponseTrailer().Set("X-App-Trailer", "once")
			if err := stream.Send(&pingv1.CumSumResponse{Sum: 1}); err != nil {
				return err
			}
			return connect.NewError(connect.CodeAborted, errors.New("boom"))
		},
	))
	server := httptest.NewUnstartedServer(mux)
	server.EnableHTTP2 = true
	server.StartTLS()
	defer server.Close()

	client := connect.NewClient[pingv1.CumSumRequest, pingv1.CumSumResponse](
		server.Client(), server.URL+"/ping/CumSum", connect.WithGRPCWeb(),
	)
	stream := client.CallBidiStream(context.Background())
	if err := stream.Send(&pingv1.CumSumRequest{Number: 1}); err != nil {
		t.Fatal(err)
	}
	if err := stream.CloseRequest(); err != nil {
		t.Fatal(err)
	}
	if _, err := stream.Receive(); err != nil {
		t.Fatal(err)
	}
	for i := 1; i <= 3; i++ {
		_, err := stream.Receive()
		if connect.CodeOf(err) != connect.CodeAborted {
			t.Fatalf("Receive #%d after the last message: expected the server's aborted error, got %v", i, err)
		}
		var connectErr *connect.Error
		if !errors.As(err, &connectErr) {
			t.Fatalf("not a *connect.Error: %v", err)
		}
		trailer := stream.ResponseTrailer()
		if got := trailer.Values("X-App-Trailer"); len(got) != 1 || got[0] != "once" {
			t.Errorf("property: decoding yields the metadata the application supplied - trailer X-App-Trailer: [once]; after %d Receive calls at the end of the stream ResponseTrailer() has X-App-Trailer: %v", i, got)
		}
		if got := trailer.Values("Grpc-Status"); len(got) != 1 {
			t.Errorf("property: the response carries exactly one grpc-status; after %d Receive calls at the end of the stream ResponseTrailer() has Grpc-Status: %v", i, got)
		}
		if got := connectErr.Meta().Values("X-App-Trailer"); len(got) != 1 {
			t.Errorf("property: the error's metadata is what the application supplied (X-App-Trailer: [once]); error returned by Receive #%d has X-App-Trailer: %v", i, got)
		}
	}
	_ = stream.CloseResponse()
}
