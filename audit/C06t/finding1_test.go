package connect_test

import (
	"context"
	"encoding/binary"
	"errors"
	"net/http"
	"net/http/httptest"
	"testing"
	"time"

	connect "github.com/bufbuild/connect-go"
	pingv1 "github.com/bufbuild/connect-go/internal/gen/connect/ping/v1"
	"google.golang.org/protobuf/types/known/anypb"
)

// Property C06: for ANY response body bytes, every client call terminates and
// either succeeds or returns a coded non-OK error.
//
// Observed: with the JSON codec and a response message type that is (or
// contains) google.protobuf.Any, the seven body bytes `{"a":}` make the client
// spin forever inside protoJSONCodec.Unmarshal (codec.go), which hands the
// peer's bytes to protojson of the pinned google.golang.org/protobuf v1.28.0
// without any guard. The call never returns - not even after its context's
// deadline has passed.
func TestAuditC06tFinding1(t *testing.T) {
	const poison = `{"a":}`
	envelope := func(flags byte, data string) []byte {
		out := make([]byte, 5, 5+len(data))
		out[0] = flags
		binary.BigEndian.PutUint32(out[1:], uint32(len(data)))
		return append(out, data...)
	}
	cases := []struct {
		name        string
		options     []connect.ClientOption
		contentType string
		body        []byte
	}{
		{
			name:        "connect unary",
			options:     []connect.ClientOption{connect.WithProtoJSON()},
			contentType: "application/json",
			body:        []byte(poison),
		},
		{
			name:        "grpc-web unary",
			options:     []connect.ClientOption{connect.WithProtoJSON(), connect.WithGRPCWeb()},
			contentType: "application/grpc-web+json",
			body:        append(envelope(0, poison), envelope(0x80, "grpc-status: 0\r\n")...),
		},
	}
	for _, testCase := range cases {
		testCase := testCase
		t.Run(testCase.name, func(t *testing.T) {
			server := httptest.NewServer(http.HandlerFunc(func(w http.ResponseWriter, r *http.Request) {
				w.Header().Set("Content-Type", testCase.contentType)
				w.WriteHeader(http.StatusOK)
				_, _ = w.Write(testCase.body)
			}))
			defer server.Close()
			client := connect.NewClient[pingv1.PingRequest, anypb.Any](
				server.Client(),
				server.URL+"/connect.ping.v1.PingService/Ping",
				testCase.options...,
			)
			// Even a deadline doesn't help the caller.
			ctx, cancel := context.WithTimeout(context.Background(), time.Second)
			defer cancel()
			done := make(chan error, 1)
			go func() {
				_, err := client.CallUnary(ctx, connect.NewRequest(&pingv1.PingRequest{}))
				done <- err
			}()
			select {
			case err := <-done:
				// This is what the property asks for: success, or a coded error.
				if err != nil {
					var connectErr *connect.Error
					if !errors.As(err, &connectErr) || connectErr.Code() == 0 {
						t.Fatalf("expected a Connect error with a non-OK code, got %T %v", err, err)
					}
				}
			case <-time.After(5 * time.Second):
				t.Fatalf(
					"property C06 expects every client call to terminate (succeeding or returning a coded non-OK error) "+
						"for any response body bytes; observed: CallUnary with the JSON codec and response type "+
						"google.protobuf.Any is still running 5s after the server answered 200 with body %q "+
						"(and 4s after the call's context deadline): the client loops forever in protojson",
					testCase.body,
				)
			}
		})
	}
}
