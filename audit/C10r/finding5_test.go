package connect_test

import (
	"bytes"
	"io"
	"net/http"
	"net/http/httptest"
	"strings"
	"testing"

	"github.com/bufbuild/connect-go/internal/gen/connect/ping/v1/pingv1connect"
)

// C10: "a malformed [timeout] ... is rejected as invalid_argument without
// running user code."
//
// Handler.ServeHTTP parses the timeout first but defers reporting the error
// until after protocolHandler.NewConn. When NewConn itself fails (the request
// names a compression the handler doesn't know), ServeHTTP returns early and
// the timeout error is dropped: the malformed timeout is answered with
// unimplemented instead of invalid_argument.
func TestAuditC10rFinding5(t *testing.T) {
	t.Parallel()
	mux := http.NewServeMux()
	mux.Handle(pingv1connect.NewPingServiceHandler(pingv1connect.UnimplementedPingServiceHandler{}))
	server := httptest.NewUnstartedServer(mux)
	server.EnableHTTP2 = true
	server.StartTLS()
	defer server.Close()

	cases := []struct {
		name          string
		path          string
		contentType   string
		timeoutHeader string
		timeout       string
		encHeader     string
		body          []byte
	}{
		{"connect unary", "Ping", "application/json", "Connect-Timeout-Ms", "10s", "Content-Encoding", []byte("{}")},
		{"connect streaming", "CountUp", "application/connect+json", "Connect-Timeout-Ms", "abc", "Connect-Content-Encoding", []byte{0, 0, 0, 0, 2, '{', '}'}},
		{"grpc", "Ping", "application/grpc+proto", "Grpc-Timeout", "5X", "Grpc-Encoding", []byte{0, 0, 0, 0, 0}},
		{"grpc-web", "Ping", "application/grpc-web+proto", "Grpc-Timeout", "123456789S", "Grpc-Encoding", []byte{0, 0, 0, 0, 0}},
	}
	for _, testCase := range cases {
		request, err := http.NewRequest(http.MethodPost, server.URL+"/connect.ping.v1.PingService/"+testCase.path, bytes.NewReader(testCase.body))
		if err != nil {
			t.Fatal(err)
		}
		request.Header.Set("Content-Type", testCase.contentType)
		request.Header.Set("Te", "trailers")
		request.Header.Set(testCase.timeoutHeader, testCase.timeout)
		request.Header.Set(testCase.encHeader, "zstd-unknown")
		response, err := server.Client().Do(request)
		if err != nil {
			t.Fatal(err)
		}
		responseBody, _ := io.ReadAll(response.Body)
		response.Body.Close()

		var code string
		if strings.HasPrefix(testCase.contentType, "application/grpc") {
			status := response.Header.Get("Grpc-Status")
			if status == "" {
				status = response.Trailer.Get("Grpc-Status")
			}
			if status == "" {
				lower := strings.ToLower(string(responseBody))
				if idx := strings.Index(lower, "grpc-status: "); idx >= 0 {
					status = strings.SplitN(lower[idx+len("grpc-status: "):], "\r", 2)[0]
				}
			}
			code = "grpc-status " + status
			if status == "3" {
				code = "invalid_argument"
			}
		} else {
			code = "HTTP " + response.Status + " " + string(responseBody)
			if strings.Contains(string(responseBody), `"code":"invalid_argument"`) {
				code = "invalid_argument"
			}
		}
		if code != "invalid_argument" {
			t.Errorf(
				"%s, %s: %q together with %s: zstd-unknown: C10 expects: malformed timeout => rejected as invalid_argument; observed: %s",
				testCase.name, testCase.timeoutHeader, testCase.timeout, testCase.encHeader, code,
			)
		}
	}
}
