package connect_test

import (
	"bytes"
	"context"
	"io"
	"net/http"
	"net/http/httptest"
	"sync"
	"testing"
	"time"

	"github.com/bufbuild/connect-go"
	pingv1 "github.com/bufbuild/connect-go/internal/gen/connect/ping/v1"
	"github.com/bufbuild/connect-go/internal/gen/connect/ping/v1/pingv1connect"
)

type auditC10rF3Server struct {
	pingv1connect.UnimplementedPingServiceHandler

	mu        sync.Mutex
	ran       bool
	has       bool
	remaining time.Duration
}

func (s *auditC10rF3Server) Ping(ctx context.Context, _ *connect.Request[pingv1.PingRequest]) (*connect.Response[pingv1.PingResponse], error) {
	deadline, ok := ctx.Deadline()
	s.mu.Lock()
	s.ran, s.has = true, ok
	if ok {
		s.remaining = time.Until(deadline)
	}
	s.mu.Unlock()
	return connect.NewResponse(&pingv1.PingResponse{}), nil
}

// C10: the gRPC timeout grammar is "at most 8 digits plus unit"; a value
// "beyond the grammar's digit limit" is malformed and must be "rejected as
// invalid_argument without running user code".
//
// grpcParseTimeout enforces the limit on the numeric magnitude (num >
// 99999999) instead of on the number of digits, so a Grpc-Timeout with 9 or
// more digits whose leading digits are zeros is accepted and user code runs.
// (The Connect handler, in contrast, checks the string length and rejects
// "00000000001".)
func TestAuditC10rFinding3(t *testing.T) {
	t.Parallel()
	svc := &auditC10rF3Server{}
	mux := http.NewServeMux()
	mux.Handle(pingv1connect.NewPingServiceHandler(svc))
	server := httptest.NewUnstartedServer(mux)
	server.EnableHTTP2 = true
	server.StartTLS()
	defer server.Close()

	cases := []struct {
		contentType string
		timeout     string
	}{
		{"application/grpc+proto", "000000005S"},               // 9 digits
		{"application/grpc+proto", "00000000000000000005S"},    // 20 digits
		{"application/grpc-web+proto", "000000005S"},           // 9 digits
		{"application/grpc-web+proto", "0000000000000000100m"}, // 19 digits
	}
	for _, testCase := range cases {
		svc.mu.Lock()
		svc.ran, svc.has, svc.remaining = false, false, 0
		svc.mu.Unlock()

		// One empty, uncompressed message.
		body := bytes.NewReader([]byte{0, 0, 0, 0, 0})
		request, err := http.NewRequest(http.MethodPost, server.URL+"/connect.ping.v1.PingService/Ping", body)
		if err != nil {
			t.Fatal(err)
		}
		request.Header.Set("Content-Type", testCase.contentType)
		request.Header.Set("Te", "trailers")
		request.Header.Set("Grpc-Timeout", testCase.timeout)
		response, err := server.Client().Do(request)
		if err != nil {
			t.Fatal(err)
		}
		responseBody, _ := io.ReadAll(response.Body)
		response.Body.Close()
		status := response.Header.Get("Grpc-Status")
		if status == "" {
			status = response.Trailer.Get("Grpc-Status")
		}
		if status == "" { // gRPC-Web: trailers travel in the body
			lower := bytes.ToLower(responseBody)
			if idx := bytes.Index(lower, []byte("grpc-status: ")); idx >= 0 {
				rest := lower[idx+len("grpc-status: "):]
				if end := bytes.IndexByte(rest, '\r'); end >= 0 {
					rest = rest[:end]
				}
				status = string(rest)
			}
		}

		svc.mu.Lock()
		ran, has, remaining := svc.ran, svc.has, svc.remaining
		svc.mu.Unlock()
		if ran || status != "3" {
			t.Errorf(
				"%s, Grpc-Timeout: %q (%d digits): C10 expects: more than 8 digits is malformed => grpc-status 3 (invalid_argument), user code does not run; "+
					"observed: handler ran=%v (context has deadline=%v, %v away), grpc-status=%q, body=%q",
				testCase.contentType, testCase.timeout, len(testCase.timeout)-1,
				ran, has, remaining.Round(time.Millisecond), status, responseBody,
			)
		}
	}
}
