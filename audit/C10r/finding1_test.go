package connect_test

import (
	"context"
	"net/http"
	"net/http/httptest"
	"sync"
	"testing"
	"time"

	"github.com/bufbuild/connect-go"
	pingv1 "github.com/bufbuild/connect-go/internal/gen/connect/ping/v1"
)

// C10: "without a client deadline the handler's context has none".
//
// A *connect.Request that was used for CallUnary under a deadline keeps the
// timeout header the protocol client wrote into Request.Header(). CallUnary
// itself was repaired to delete a lingering timeout header before each call,
// but CallServerStream merges Request.Header() into the outgoing header map
// AFTER the protocol client has decided about the timeout header, so the stale
// timeout is sent by a server-streaming call whose context has no deadline.
func TestAuditC10rFinding1(t *testing.T) {
	t.Parallel()

	type observed struct {
		hasDeadline bool
		remaining   time.Duration
		timeoutHdrs []string
	}
	var (
		mu   sync.Mutex
		seen *observed
	)
	const (
		unaryProcedure  = "/audit.C10r/Unary"
		streamProcedure = "/audit.C10r/Stream"
	)
	mux := http.NewServeMux()
	mux.Handle(unaryProcedure, connect.NewUnaryHandler(
		unaryProcedure,
		func(_ context.Context, _ *connect.Request[pingv1.CountUpRequest]) (*connect.Response[pingv1.CountUpResponse], error) {
			return connect.NewResponse(&pingv1.CountUpResponse{}), nil
		},
	))
	mux.Handle(streamProcedure, connect.NewServerStreamHandler(
		streamProcedure,
		func(ctx context.Context, req *connect.Request[pingv1.CountUpRequest], _ *connect.ServerStream[pingv1.CountUpResponse]) error {
			deadline, ok := ctx.Deadline()
			obs := &observed{hasDeadline: ok}
			if ok {
				obs.remaining = time.Until(deadline)
			}
			obs.timeoutHdrs = append(obs.timeoutHdrs, req.Header().Values("Connect-Timeout-Ms")...)
			obs.timeoutHdrs = append(obs.timeoutHdrs, req.Header().Values("Grpc-Timeout")...)
			mu.Lock()
			seen = obs
			mu.Unlock()
			return nil
		},
	))
	server := httptest.NewUnstartedServer(mux)
	server.EnableHTTP2 = true
	server.StartTLS()
	defer server.Close()

	protocols := []struct {
		name  string
		opts  []connect.ClientOption
		reuse bool // really reuse the Request of an earlier CallUnary
		stale [2]string
	}{
		// The Request is first used for CallUnary under a 5 s deadline, which
		// writes Connect-Timeout-Ms into Request.Header().
		{"connect (Request reused after CallUnary under a deadline)", nil, true, [2]string{}},
		// For gRPC a Request reused wholesale fails for an unrelated reason
		// (duplicated Content-Type/Te), so here the header map carries only a
		// timeout, e.g. metadata forwarded from an incoming request. CallUnary
		// deletes such a header; CallServerStream sends it.
		{"grpc (Request header carries a Grpc-Timeout)", []connect.ClientOption{connect.WithGRPC()}, false, [2]string{"Grpc-Timeout", "5S"}},
		{"grpcweb (Request header carries a Grpc-Timeout)", []connect.ClientOption{connect.WithGRPCWeb()}, false, [2]string{"Grpc-Timeout", "5S"}},
	}
	for _, protocol := range protocols {
		unaryClient := connect.NewClient[pingv1.CountUpRequest, pingv1.CountUpResponse](
			server.Client(), server.URL+unaryProcedure, protocol.opts...,
		)
		streamClient := connect.NewClient[pingv1.CountUpRequest, pingv1.CountUpResponse](
			server.Client(), server.URL+streamProcedure, protocol.opts...,
		)
		request := connect.NewRequest(&pingv1.CountUpRequest{Number: 1})

		if protocol.reuse {
			// First use: a unary call under a 5 s deadline.
			ctx, cancel := context.WithTimeout(context.Background(), 5*time.Second)
			_, err := unaryClient.CallUnary(ctx, request)
			cancel()
			if err != nil {
				t.Fatalf("%s: unary call: %v", protocol.name, err)
			}
		} else {
			request.Header().Set(protocol.stale[0], protocol.stale[1])
		}

		// Second use of the same Request: a server-streaming call WITHOUT a
		// client deadline.
		mu.Lock()
		seen = nil
		mu.Unlock()
		stream, err := streamClient.CallServerStream(context.Background(), request)
		if err != nil {
			t.Fatalf("%s: server stream call: %v", protocol.name, err)
		}
		for stream.Receive() {
		}
		if err := stream.Err(); err != nil {
			t.Fatalf("%s: server stream: %v", protocol.name, err)
		}
		_ = stream.Close()

		mu.Lock()
		obs := seen
		mu.Unlock()
		if obs == nil {
			t.Fatalf("%s: handler did not run", protocol.name)
		}
		if obs.hasDeadline {
			t.Errorf(
				"%s: C10 expects: client context has no deadline => handler context has no deadline; "+
					"observed: handler context has a deadline %v away (timeout header(s) received: %q)",
				protocol.name, obs.remaining, obs.timeoutHdrs,
			)
		}
	}
}
