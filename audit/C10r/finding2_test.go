package connect_test

import (
	"context"
	"net/http"
	"net/http/httptest"
	"sync"
	"testing"
	"time"

	"github.com/bufbuild/connect-go"
	pingv1 "github.com/bufbuild/connect-go/internal/gen/connect/ping/v1"
	"github.com/bufbuild/connect-go/internal/gen/connect/ping/v1/pingv1connect"
)

type auditC10rF2Server struct {
	pingv1connect.UnimplementedPingServiceHandler

	mu       sync.Mutex
	deadline time.Time
	has      bool
	ran      bool
}

func (s *auditC10rF2Server) Sum(ctx context.Context, stream *connect.ClientStream[pingv1.SumRequest]) (*connect.Response[pingv1.SumResponse], error) {
	deadline, ok := ctx.Deadline()
	s.mu.Lock()
	s.deadline, s.has, s.ran = deadline, ok, true
	s.mu.Unlock()
	for stream.Receive() {
	}
	return connect.NewResponse(&pingv1.SumResponse{}), nil
}

// C10: "the timeout sent to the server is never longer than the time
// remaining ... and the handler's context gets the corresponding deadline"
// (title: deadlines are never extended).
//
// For client-streaming and bidi calls the timeout header is computed when the
// stream is constructed (CallClientStream / CallBidiStream), but the HTTP
// request - and with it the header - is only sent on the first Send (or
// CloseRequest). Whatever time passes in between is added to the deadline the
// handler sees: the timeout on the wire is longer than the time remaining when
// it is sent, and the handler's deadline lies after the client's.
func TestAuditC10rFinding2(t *testing.T) {
	t.Parallel()
	const (
		clientTimeout = 3 * time.Second
		idle          = 1 * time.Second // time between creating the stream and first Send
		slack         = 100 * time.Millisecond
	)
	protocols := []struct {
		name string
		opts []connect.ClientOption
	}{
		{"connect", nil},
		{"grpc", []connect.ClientOption{connect.WithGRPC()}},
		{"grpcweb", []connect.ClientOption{connect.WithGRPCWeb()}},
	}
	for _, protocol := range protocols {
		protocol := protocol
		t.Run(protocol.name, func(t *testing.T) {
			t.Parallel()
			svc := &auditC10rF2Server{}
			mux := http.NewServeMux()
			mux.Handle(pingv1connect.NewPingServiceHandler(svc))
			server := httptest.NewUnstartedServer(mux)
			server.EnableHTTP2 = true
			server.StartTLS()
			defer server.Close()
			client := pingv1connect.NewPingServiceClient(server.Client(), server.URL, protocol.opts...)

			ctx, cancel := context.WithTimeout(context.Background(), clientTimeout)
			defer cancel()
			clientDeadline, _ := ctx.Deadline()

			stream := client.Sum(ctx)
			sentHeader := stream.RequestHeader().Get("Connect-Timeout-Ms") + stream.RequestHeader().Get("Grpc-Timeout")
			time.Sleep(idle) // e.g. the application prepares its first message
			remainingAtSend := time.Until(clientDeadline)
			if err := stream.Send(&pingv1.SumRequest{Number: 1}); err != nil {
				t.Fatalf("send: %v", err)
			}
			if _, err := stream.CloseAndReceive(); err != nil {
				t.Fatalf("close and receive: %v", err)
			}

			svc.mu.Lock()
			ran, has, handlerDeadline := svc.ran, svc.has, svc.deadline
			svc.mu.Unlock()
			if !ran {
				t.Fatal("handler did not run")
			}
			if !has {
				t.Fatal("handler context has no deadline")
			}
			if extended := handlerDeadline.Sub(clientDeadline); extended > slack {
				t.Errorf(
					"C10 expects: timeout sent <= time remaining (%v when the request was sent), so the handler's deadline is not after the client's; "+
						"observed: timeout header %q was sent, handler deadline is %v AFTER the client's deadline",
					remainingAtSend.Round(time.Millisecond), sentHeader, extended.Round(time.Millisecond),
				)
			}
		})
	}
}
