package connect_test

import (
	"context"
	"net/http"
	"net/http/httptest"
	"strings"
	"testing"

	"github.com/bufbuild/connect-go"
	pingv1 "github.com/bufbuild/connect-go/internal/gen/connect/ping/v1"
	"google.golang.org/protobuf/proto"
)

// Property C09: with a read limit of N bytes on a client, "every message of at
// most N bytes is accepted ... at every position in a stream, in every
// protocol". The limit is documented (WithReadMaxBytes) to "apply to each
// Protobuf message".
//
// Observed: envelopeReader.Read applies the limit to every envelope, whatever
// its flags - also to the gRPC-Web trailers block and to the Connect
// end-of-stream block, which are protocol metadata and not messages. A client
// whose limit is smaller than that block rejects calls in which every message
// is well within the limit.
func TestAuditC09yFinding1(t *testing.T) {
	const trailerKey = "X-Audit-Trailer"
	trailerValue := strings.Repeat("t", 64)

	// The handlers never compress, so what's on the wire is the encoded message
	// itself: wire size == encoded size for every message below.
	noCompression := connect.WithCompressMinBytes(1 << 30)
	mux := http.NewServeMux()
	mux.Handle("/audit.v1.Audit/Unary", connect.NewUnaryHandler(
		"/audit.v1.Audit/Unary",
		func(_ context.Context, req *connect.Request[pingv1.PingRequest]) (*connect.Response[pingv1.PingResponse], error) {
			return connect.NewResponse(&pingv1.PingResponse{Number: req.Msg.Number}), nil
		},
		noCompression,
	))
	mux.Handle("/audit.v1.Audit/ServerStream", connect.NewServerStreamHandler(
		"/audit.v1.Audit/ServerStream",
		func(_ context.Context, req *connect.Request[pingv1.PingRequest], stream *connect.ServerStream[pingv1.PingResponse]) error {
			stream.ResponseTrailer().Set(trailerKey, trailerValue)
			for i := 0; i < 3; i++ {
				if err := stream.Send(&pingv1.PingResponse{Number: req.Msg.Number}); err != nil {
					return err
				}
			}
			return nil
		},
		noCompression,
	))
	mux.Handle("/audit.v1.Audit/ClientStream", connect.NewClientStreamHandler(
		"/audit.v1.Audit/ClientStream",
		func(_ context.Context, stream *connect.ClientStream[pingv1.PingRequest]) (*connect.Response[pingv1.PingResponse], error) {
			for stream.Receive() {
			}
			if err := stream.Err(); err != nil {
				return nil, err
			}
			res := connect.NewResponse(&pingv1.PingResponse{Number: 1})
			res.Trailer().Set(trailerKey, trailerValue)
			return res, nil
		},
		noCompression,
	))
	server := httptest.NewUnstartedServer(mux)
	server.EnableHTTP2 = true
	server.StartTLS()
	t.Cleanup(server.Close)

	// Every message in this test is PingResponse{Number: 1}: 2 bytes encoded.
	msgSize := proto.Size(&pingv1.PingResponse{Number: 1})

	t.Run("grpcweb_unary", func(t *testing.T) {
		const limit = 16 // 8x the size of the only message
		client := connect.NewClient[pingv1.PingRequest, pingv1.PingResponse](
			server.Client(), server.URL+"/audit.v1.Audit/Unary",
			connect.WithGRPCWeb(), connect.WithReadMaxBytes(limit),
		)
		res, err := client.CallUnary(context.Background(), connect.NewRequest(&pingv1.PingRequest{Number: 1}))
		if err != nil {
			t.Fatalf("property: a %d-byte response message must be accepted by a gRPC-Web client with read limit %d; observed: call failed with %v",
				msgSize, limit, err)
		}
		if res.Msg.Number != 1 {
			t.Fatalf("unexpected response %v", res.Msg)
		}
	})
	t.Run("grpcweb_server_stream", func(t *testing.T) {
		const limit = 16
		client := connect.NewClient[pingv1.PingRequest, pingv1.PingResponse](
			server.Client(), server.URL+"/audit.v1.Audit/ServerStream",
			connect.WithGRPCWeb(), connect.WithReadMaxBytes(limit),
		)
		stream, err := client.CallServerStream(context.Background(), connect.NewRequest(&pingv1.PingRequest{Number: 1}))
		if err != nil {
			t.Fatal(err)
		}
		defer stream.Close()
		received := 0
		for stream.Receive() {
			received++
		}
		if err := stream.Err(); err != nil || received != 3 {
			t.Fatalf("property: a stream of three %d-byte messages must be accepted by a gRPC-Web client with read limit %d; observed: %d messages, then the call failed with %v",
				msgSize, limit, received, err)
		}
	})
	t.Run("connect_server_stream", func(t *testing.T) {
		const limit = 32 // 16x the size of every message
		client := connect.NewClient[pingv1.PingRequest, pingv1.PingResponse](
			server.Client(), server.URL+"/audit.v1.Audit/ServerStream",
			connect.WithReadMaxBytes(limit),
		)
		stream, err := client.CallServerStream(context.Background(), connect.NewRequest(&pingv1.PingRequest{Number: 1}))
		if err != nil {
			t.Fatal(err)
		}
		defer stream.Close()
		received := 0
		for stream.Receive() {
			received++
		}
		if err := stream.Err(); err != nil || received != 3 {
			t.Fatalf("property: a stream of three %d-byte messages must be accepted by a Connect client with read limit %d; observed: %d messages, then the call failed with %v",
				msgSize, limit, received, err)
		}
		if got := stream.ResponseTrailer().Get(trailerKey); got != trailerValue {
			t.Fatalf("trailer lost: %q", got)
		}
	})
	t.Run("connect_client_stream", func(t *testing.T) {
		const limit = 32
		client := connect.NewClient[pingv1.PingRequest, pingv1.PingResponse](
			server.Client(), server.URL+"/audit.v1.Audit/ClientStream",
			connect.WithReadMaxBytes(limit),
		)
		stream := client.CallClientStream(context.Background())
		if err := stream.Send(&pingv1.PingRequest{Number: 1}); err != nil {
			t.Fatal(err)
		}
		res, err := stream.CloseAndReceive()
		if err != nil {
			t.Fatalf("property: the single %d-byte response message must be accepted by a Connect client with read limit %d; observed: call failed with %v",
				msgSize, limit, err)
		}
		if res.Msg.Number != 1 {
			t.Fatalf("unexpected response %v", res.Msg)
		}
	})
}
