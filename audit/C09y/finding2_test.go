package connect_test

import (
	"context"
	"errors"
	"net/http"
	"net/http/httptest"
	"strings"
	"testing"

	"github.com/bufbuild/connect-go"
	pingv1 "github.com/bufbuild/connect-go/internal/gen/connect/ping/v1"
	"google.golang.org/protobuf/proto"
)

// Property C09: when a message exceeds the read limit, "that call fails with
// the documented error" (invalid_argument: message size S is larger than
// configured max N) "at every position in a stream, in every protocol".
//
// Observed: a gRPC (HTTP/2) client that hits an oversized message goes on to
// drain the body and read the HTTP trailers; if they carry a non-OK status,
// that status replaces the read-limit error. The Connect and gRPC-Web clients
// report the read-limit error for the very same response.
func TestAuditC09yFinding2(t *testing.T) {
	const limit = 64
	big := &pingv1.PingResponse{Text: strings.Repeat("x", 4*limit)}

	mux := http.NewServeMux()
	mux.Handle("/audit.v1.Audit/ServerStream", connect.NewServerStreamHandler(
		"/audit.v1.Audit/ServerStream",
		func(_ context.Context, _ *connect.Request[pingv1.PingRequest], stream *connect.ServerStream[pingv1.PingResponse]) error {
			if err := stream.Send(&pingv1.PingResponse{Number: 1}); err != nil {
				return err
			}
			if err := stream.Send(big); err != nil {
				return err
			}
			// Something unrelated goes wrong later in the stream.
			return connect.NewError(connect.CodeAborted, errors.New("unrelated failure after the big message"))
		},
		connect.WithCompressMinBytes(1<<30), // never compress: wire size == encoded size
	))
	server := httptest.NewUnstartedServer(mux)
	server.EnableHTTP2 = true
	server.StartTLS()
	t.Cleanup(server.Close)

	for _, protocol := range []struct {
		name string
		opts []connect.ClientOption
	}{
		{"connect", nil},
		{"grpcweb", []connect.ClientOption{connect.WithGRPCWeb()}},
		{"grpc", []connect.ClientOption{connect.WithGRPC()}},
	} {
		protocol := protocol
		t.Run(protocol.name, func(t *testing.T) {
			opts := append([]connect.ClientOption{connect.WithReadMaxBytes(limit)}, protocol.opts...)
			client := connect.NewClient[pingv1.PingRequest, pingv1.PingResponse](
				server.Client(), server.URL+"/audit.v1.Audit/ServerStream", opts...,
			)
			stream, err := client.CallServerStream(context.Background(), connect.NewRequest(&pingv1.PingRequest{}))
			if err != nil {
				t.Fatal(err)
			}
			defer stream.Close()
			received := 0
			for stream.Receive() {
				received++
				if size := proto.Size(stream.Msg()); size > limit {
					t.Fatalf("a %d-byte message was delivered with read limit %d", size, limit)
				}
			}
			err = stream.Err()
			if received != 1 {
				t.Fatalf("expected exactly the one small message, got %d", received)
			}
			if connect.CodeOf(err) != connect.CodeInvalidArgument ||
				!strings.Contains(err.Error(), "is larger than configured max 64") {
				t.Fatalf("property: the second message (%d bytes) exceeds the read limit %d, so the call must fail with the documented error "+
					"(invalid_argument: message size %d is larger than configured max %d); observed: %v",
					proto.Size(big), limit, proto.Size(big), limit, err)
			}
		})
	}
}
