package connect_test

import (
	"context"
	"encoding/binary"
	"fmt"
	"io"
	"net/http"
	"net/http/httptest"
	"testing"

	connect "github.com/bufbuild/connect-go"
	pingv1 "github.com/bufbuild/connect-go/internal/gen/connect/ping/v1"
	"github.com/bufbuild/connect-go/internal/gen/connect/ping/v1/pingv1connect"
	"google.golang.org/protobuf/proto"
)

// auditC04v2Body delivers data and then fails every further Read with err.
type auditC04v2Body struct {
	data []byte
	pos  int
	err  error
}

func (b *auditC04v2Body) Read(p []byte) (int, error) {
	if b.pos >= len(b.data) {
		return 0, b.err
	}
	n := copy(p, b.data[b.pos:])
	b.pos += n
	return n, nil
}

func (b *auditC04v2Body) Close() error { return nil }

type auditC04v2Server struct {
	pingv1connect.UnimplementedPingServiceHandler

	received []int64
	err      error
	done     bool
}

func (s *auditC04v2Server) Sum(_ context.Context, stream *connect.ClientStream[pingv1.SumRequest]) (*connect.Response[pingv1.SumResponse], error) {
	var sum int64
	for stream.Receive() {
		s.received = append(s.received, stream.Msg().Number)
		sum += stream.Msg().Number
	}
	s.err = stream.Err()
	s.done = true
	if s.err != nil {
		return nil, s.err
	}
	return connect.NewResponse(&pingv1.SumResponse{Sum: sum}), nil
}

func auditC04v2Envelope(t *testing.T, number int64) []byte {
	t.Helper()
	payload, err := proto.Marshal(&pingv1.SumRequest{Number: number})
	if err != nil {
		t.Fatal(err)
	}
	out := make([]byte, 5+len(payload))
	binary.BigEndian.PutUint32(out[1:5], uint32(len(payload)))
	copy(out[5:], payload)
	return out
}

// The client streams Sum(1), Sum(2). The request body breaks three bytes into
// the five-byte prefix of the second message - in the middle of a message -
// and the transport reports that with an error of its own. In the failing
// case that error wraps io.EOF (as *url.Error{Err: io.EOF} or a
// fmt.Errorf("...: %w", io.EOF) from a body-wrapping middleware do); in the
// controls it is io.ErrUnexpectedEOF or a plain error, or the same
// EOF-wrapping error strikes inside the payload instead of the prefix.
func TestAuditC04vFinding2(t *testing.T) {
	first, second := auditC04v2Envelope(t, 1), auditC04v2Envelope(t, 2)
	full := append(append([]byte{}, first...), second...)
	wrappedEOF := fmt.Errorf("read request body: connection lost: %w", io.EOF)
	for _, protocol := range []struct{ name, contentType string }{
		{"connect", "application/connect+proto"},
		{"grpc", "application/grpc"},
		{"grpcweb", "application/grpc-web+proto"},
	} {
		for _, testCase := range []struct {
			name string
			cut  int
			err  error
		}{
			{"control: unexpected EOF 3 bytes into the 2nd prefix", len(first) + 3, io.ErrUnexpectedEOF},
			{"control: plain transport error 3 bytes into the 2nd prefix", len(first) + 3, fmt.Errorf("connection lost")},
			{"control: EOF-wrapping transport error 1 byte into the 2nd payload", len(first) + 6, wrappedEOF},
			{"EOF-wrapping transport error 3 bytes into the 2nd prefix", len(first) + 3, wrappedEOF},
		} {
			server := &auditC04v2Server{}
			mux := http.NewServeMux()
			mux.Handle(pingv1connect.NewPingServiceHandler(server))
			request := httptest.NewRequest(
				http.MethodPost,
				"http://example.test/connect.ping.v1.PingService/Sum",
				&auditC04v2Body{data: full[:testCase.cut], err: testCase.err},
			)
			request.Header.Set("Content-Type", protocol.contentType)
			recorder := httptest.NewRecorder()
			mux.ServeHTTP(recorder, request)
			if !server.done {
				t.Fatalf("%s/%s: handler did not run to completion", protocol.name, testCase.name)
			}
			if server.err == nil {
				t.Errorf(
					"%s/%s: C04 expects the handler to see a coded error, because the request body failed in the middle of a message (after %d of %d bytes, with %q); observed a clean end of the request stream: ClientStream.Err()==nil after messages %v, and the handler answered with a success response",
					protocol.name, testCase.name, testCase.cut, len(full), testCase.err, server.received,
				)
			} else {
				t.Logf("%s/%s: handler sees %v (as it should)", protocol.name, testCase.name, server.err)
			}
		}
	}
}
