package connect_test

import (
	"context"
	"net/http"
	"net/http/httptest"
	"sync"
	"testing"

	"github.com/bufbuild/connect-go"
	pingv1 "github.com/bufbuild/connect-go/internal/gen/connect/ping/v1"
	"google.golang.org/protobuf/proto"
)

// C01: the sequence of messages the receiving side's API yields equals the
// sequence the sending side passed in - same count, order and content.
//
// A unary Connect call whose only message cannot be marshaled (here: a proto3
// string that isn't valid UTF-8) fails on the client with a marshaling error
// before a single byte is written. The client's error path then calls
// CloseRequest, which *starts* the HTTP request with an empty body. An empty
// Connect unary body is the encoding of the zero-valued message, so the
// handler is invoked with a message nobody sent.
func TestAuditC01sFinding1(t *testing.T) {
	var (
		mu       sync.Mutex
		received []*pingv1.PingRequest
	)
	mux := http.NewServeMux()
	mux.Handle("/audit.v1.Audit/Ping", connect.NewUnaryHandler(
		"/audit.v1.Audit/Ping",
		func(_ context.Context, req *connect.Request[pingv1.PingRequest]) (*connect.Response[pingv1.PingResponse], error) {
			mu.Lock()
			received = append(received, proto.Clone(req.Msg).(*pingv1.PingRequest))
			mu.Unlock()
			return connect.NewResponse(&pingv1.PingResponse{}), nil
		},
	))
	server := httptest.NewServer(mux)
	defer server.Close()

	client := connect.NewClient[pingv1.PingRequest, pingv1.PingResponse](
		server.Client(),
		server.URL+"/audit.v1.Audit/Ping",
	)
	// Not a zero-valued message, and not encodable: proto3 strings must be UTF-8.
	sent := &pingv1.PingRequest{Number: 42, Text: "\xff\xfe"}
	_, err := client.CallUnary(context.Background(), connect.NewRequest(sent))
	if err == nil {
		t.Fatalf("precondition: expected CallUnary to fail for an unmarshalable message")
	}
	t.Logf("client: CallUnary failed as expected: %v", err)

	mu.Lock()
	defer mu.Unlock()
	if len(received) != 0 {
		t.Fatalf("C01 violated: the client's Send failed (%v), so the sender delivered 0 messages; "+
			"expected the handler to receive 0 messages, but it was invoked %d time(s) with message %q "+
			"(zero-valued=%v), which is neither absent nor equal to the message passed in (%q)",
			err, len(received), received[0].String(), proto.Equal(received[0], &pingv1.PingRequest{}), sent.String())
	}
}
