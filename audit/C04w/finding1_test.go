package connect_test

import (
	"bytes"
	"context"
	"encoding/binary"
	"errors"
	"fmt"
	"io"
	"net/http"
	"net/http/httptest"
	"testing"

	connect "github.com/bufbuild/connect-go"
	pingv1 "github.com/bufbuild/connect-go/internal/gen/connect/ping/v1"
	"google.golang.org/protobuf/proto"
)

// c04wF1Body delivers data and then fails with endErr (never a bare io.EOF).
type c04wF1Body struct {
	data   *bytes.Reader
	endErr error
}

func (b *c04wF1Body) Read(p []byte) (int, error) {
	if b.data.Len() == 0 {
		return 0, b.endErr
	}
	return b.data.Read(p)
}
func (b *c04wF1Body) Close() error { return nil }

func c04wF1Envelope(t *testing.T, msg proto.Message) []byte {
	t.Helper()
	payload, err := proto.Marshal(msg)
	if err != nil {
		t.Fatal(err)
	}
	out := make([]byte, 5, 5+len(payload))
	binary.BigEndian.PutUint32(out[1:], uint32(len(payload)))
	return append(out, payload...)
}

// The request body of a client-streaming call carries two complete messages
// and then FAILS: its Read returns a transport error (one that happens to wrap
// io.EOF, as "connection went away" errors do), not io.EOF. The failure falls
// on a message boundary. C04: "a handler never sees a clean end of the request
// stream when the request body failed".
func TestAuditC04wFinding1(t *testing.T) {
	transportErr := fmt.Errorf("read tcp 10.0.0.1:443->10.0.0.2:5555: connection lost: %w", io.EOF)
	for _, contentType := range []string{"application/grpc", "application/grpc-web", "application/connect+proto"} {
		contentType := contentType
		t.Run(contentType, func(t *testing.T) {
			var (
				called   bool
				received []int64
				seenErr  error
			)
			handler := connect.NewClientStreamHandler(
				"/connect.ping.v1.PingService/Sum",
				func(_ context.Context, stream *connect.ClientStream[pingv1.SumRequest]) (*connect.Response[pingv1.SumResponse], error) {
					called = true
					var sum int64
					for stream.Receive() {
						received = append(received, stream.Msg().Number)
						sum += stream.Msg().Number
					}
					seenErr = stream.Err()
					if seenErr != nil {
						return nil, seenErr
					}
					return connect.NewResponse(&pingv1.SumResponse{Sum: sum}), nil
				},
			)
			var body []byte
			body = append(body, c04wF1Envelope(t, &pingv1.SumRequest{Number: 1})...)
			body = append(body, c04wF1Envelope(t, &pingv1.SumRequest{Number: 2})...)
			// (the client meant to send Number: 3 as well; the connection died first)
			request := httptest.NewRequest(http.MethodPost, "/connect.ping.v1.PingService/Sum", nil)
			request.Body = &c04wF1Body{data: bytes.NewReader(body), endErr: transportErr}
			request.ContentLength = -1
			request.Header.Set("Content-Type", contentType)
			request.ProtoMajor, request.ProtoMinor = 2, 0
			recorder := httptest.NewRecorder()
			handler.ServeHTTP(recorder, request)
			if !called {
				t.Fatalf("handler not called; response %d %v", recorder.Code, recorder.Header())
			}
			if seenErr == nil {
				t.Errorf("C04 violated: the request body failed with %q (a non-io.EOF error) after %d complete messages, "+
					"so the handler must see a coded error, not a clean end of the request stream; "+
					"observed: ClientStream.Err() == nil after messages %v, handler answered as if the request were complete "+
					"(response headers %v, trailers/body %q)",
					transportErr, 2, received, recorder.Header(), recorder.Body.String())
			} else {
				var connectErr *connect.Error
				if !errors.As(seenErr, &connectErr) {
					t.Errorf("handler saw an uncoded error: %v", seenErr)
				}
			}
		})
	}
}
