package connect_test

import (
	"bytes"
	"context"
	"errors"
	"io"
	"net/http"
	"net/http/httptest"
	"testing"

	connect "github.com/bufbuild/connect-go"
	pingv1 "github.com/bufbuild/connect-go/internal/gen/connect/ping/v1"
)

// c04wF3Writer is a ResponseWriter whose k-th Write fails after writing only
// half of the data (a short write); the writes before and after it succeed.
type c04wF3Writer struct {
	*httptest.ResponseRecorder
	k, n int
}

func (w *c04wF3Writer) Write(p []byte) (int, error) {
	w.n++
	if w.n == w.k {
		n, _ := w.ResponseRecorder.Write(p[:len(p)/2])
		return n, errors.New("write tcp: short write")
	}
	return w.ResponseRecorder.Write(p)
}

// c04wF3Client runs the handler in-process behind the failing writer and hands
// the client exactly the bytes that reached the wire.
type c04wF3Client struct {
	handler http.Handler
	k       int
}

func (c *c04wF3Client) Do(req *http.Request) (*http.Response, error) {
	body, err := io.ReadAll(req.Body)
	_ = req.Body.Close()
	if err != nil {
		return nil, err
	}
	serverReq := httptest.NewRequest(http.MethodPost, req.URL.String(), bytes.NewReader(body))
	serverReq.Header = req.Header.Clone()
	serverReq.ProtoMajor, serverReq.ProtoMinor = 2, 0
	writer := &c04wF3Writer{ResponseRecorder: httptest.NewRecorder(), k: c.k}
	c.handler.ServeHTTP(writer, serverReq)
	res := writer.Result()
	res.ProtoMajor, res.ProtoMinor = 2, 0
	return res, nil
}

// Failure of the k-th write on the handler side, k = 2: the payload of the
// first response message of a Connect server stream is written short. The
// handler implementation does the right thing (Send returns the error, it
// returns it), but connectStreamingHandlerConn.Close then writes the
// end-of-stream envelope onto the same body, right behind the half-written
// message. The client completes the truncated message with the first byte of
// that envelope and delivers a message the server never sent.
func TestAuditC04wFinding3(t *testing.T) {
	sent := []int64{1, 2, 3}
	var sendErr error
	handler := connect.NewServerStreamHandler(
		"/connect.ping.v1.PingService/CountUp",
		func(_ context.Context, _ *connect.Request[pingv1.CountUpRequest], stream *connect.ServerStream[pingv1.CountUpResponse]) error {
			for _, number := range sent {
				if err := stream.Send(&pingv1.CountUpResponse{Number: number}); err != nil {
					sendErr = err
					return err
				}
			}
			return nil
		},
		// Don't compress tiny messages (the error in the end-of-stream envelope
		// is longer, and is compressed: its flags byte is 0x03).
		connect.WithCompressMinBytes(8),
	)
	// writes: 1 = prefix of message 1, 2 = payload of message 1 (fails short), ...
	client := connect.NewClient[pingv1.CountUpRequest, pingv1.CountUpResponse](
		&c04wF3Client{handler: handler, k: 2},
		"http://example.com/connect.ping.v1.PingService/CountUp",
	)
	stream, err := client.CallServerStream(context.Background(), connect.NewRequest(&pingv1.CountUpRequest{Number: 3}))
	if err != nil {
		t.Fatalf("CallServerStream: %v", err)
	}
	var delivered []int64
	for stream.Receive() {
		delivered = append(delivered, stream.Msg().Number)
	}
	callErr := stream.Err()
	_ = stream.Close()
	if sendErr == nil {
		t.Fatalf("test setup: the handler's Send did not fail")
	}
	if callErr == nil {
		t.Errorf("C04 violated: write 2 of the response failed, the call must fail with a coded error; observed success, delivered %v", delivered)
	}
	for i, number := range delivered {
		if i >= len(sent) || sent[i] != number {
			t.Errorf("C04 violated: the messages delivered before the failure must be a prefix of those sent %v "+
				"(the handler's first Send failed with %q, so nothing was sent completely); "+
				"observed: the client delivered %v (then failed with: %v)", sent, sendErr, delivered, callErr)
			break
		}
	}
}
