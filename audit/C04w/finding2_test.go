package connect_test

import (
	"compress/gzip"
	"context"
	"fmt"
	"io"
	"net/http"
	"net/http/httptest"
	"sync"
	"testing"

	connect "github.com/bufbuild/connect-go"
	pingv1 "github.com/bufbuild/connect-go/internal/gen/connect/ping/v1"
)

// c04wF2Compressor fails every Write with an error that wraps io.EOF (its
// backend went away).
type c04wF2Compressor struct{}

func (c04wF2Compressor) Write([]byte) (int, error) {
	return 0, fmt.Errorf("compressor backend went away: %w", io.EOF)
}
func (c04wF2Compressor) Close() error    { return nil }
func (c04wF2Compressor) Reset(io.Writer) {}

// The client cannot write its request message: compressing it fails. The
// error wraps io.EOF, which compressionPool.Compress (unlike every other
// codec/compressor error path) does not hide; connectUnaryClientConn.Send and
// CallUnary then take it for "the server hung up, go and read its answer",
// close the request body cleanly and send an EMPTY body - a valid (zero)
// message that the caller never sent. The call reports success.
func TestAuditC04wFinding2(t *testing.T) {
	var (
		mu       sync.Mutex
		received []*pingv1.PingRequest
	)
	handler := connect.NewUnaryHandler(
		"/connect.ping.v1.PingService/Ping",
		func(_ context.Context, req *connect.Request[pingv1.PingRequest]) (*connect.Response[pingv1.PingResponse], error) {
			mu.Lock()
			received = append(received, req.Msg)
			mu.Unlock()
			return connect.NewResponse(&pingv1.PingResponse{Number: req.Msg.Number, Text: req.Msg.Text}), nil
		},
	)
	mux := http.NewServeMux()
	mux.Handle("/connect.ping.v1.PingService/Ping", handler)
	server := httptest.NewServer(mux)
	defer server.Close()

	client := connect.NewClient[pingv1.PingRequest, pingv1.PingResponse](
		server.Client(),
		server.URL+"/connect.ping.v1.PingService/Ping",
		connect.WithAcceptCompression(
			"flaky",
			func() connect.Decompressor { return &gzip.Reader{} },
			func() connect.Compressor { return c04wF2Compressor{} },
		),
		connect.WithSendCompression("flaky"),
	)
	res, err := client.CallUnary(context.Background(), connect.NewRequest(&pingv1.PingRequest{Number: 42, Text: "forty-two"}))
	mu.Lock()
	defer mu.Unlock()
	if err == nil {
		t.Errorf("C04 violated: writing the request failed (the message could not be compressed, so not one byte of it was sent), "+
			"so the call must fail with a coded error; observed: CallUnary succeeded with response {number=%d text=%q}", res.Msg.Number, res.Msg.Text)
	}
	for _, msg := range received {
		if msg.Number != 42 || msg.Text != "forty-two" {
			t.Errorf("C04 violated: the messages delivered must be a prefix of those sent (sent: one message number=42 text=\"forty-two\", none of which got out); "+
				"observed: the handler was called with a message the client never sent: {number=%d text=%q}", msg.Number, msg.Text)
		}
	}
}
