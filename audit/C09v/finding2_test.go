package connect_test

import (
	"context"
	"net/http"
	"net/http/httptest"
	"strings"
	"testing"

	connect "github.com/bufbuild/connect-go"
	pingv1 "github.com/bufbuild/connect-go/internal/gen/connect/ping/v1"
	"google.golang.org/protobuf/proto"
)

// C09: with a read limit of N bytes on a client, "every message of at most N
// bytes is accepted ... at every position in a stream, in every protocol", for
// all N >= 1.
//
// Observed: envelopeReader applies the message limit to every envelope,
// including the ones that are not messages: the Connect end-of-stream envelope
// and the gRPC-Web trailers envelope. Whenever that block is larger than N,
// the call fails with "message size X is larger than configured max N" although
// every message the peer sent is within the limit - and for calls with a single
// response (unary over gRPC-Web, client streaming over Connect or gRPC-Web) the
// in-limit response message is never handed to the application. The same calls
// succeed over gRPC and over unary Connect, where the metadata travels in HTTP
// headers/trailers.
func TestAuditC09vFinding2(t *testing.T) {
	// Nothing is compressed, so that wire size and message size are the same.
	noCompression := connect.WithCompressMinBytes(1 << 30)
	mux := http.NewServeMux()
	// Unary: the response is a 2-byte message, no user metadata at all.
	mux.Handle("/audit.S/Unary", connect.NewUnaryHandler(
		"/audit.S/Unary",
		func(_ context.Context, _ *connect.Request[pingv1.PingRequest]) (*connect.Response[pingv1.PingResponse], error) {
			return connect.NewResponse(&pingv1.PingResponse{Number: 1}), nil
		},
		noCompression,
	))
	// Client streaming: the response is a 12-byte message plus ~100 bytes of
	// trailing metadata.
	mux.Handle("/audit.S/Sum", connect.NewClientStreamHandler(
		"/audit.S/Sum",
		func(_ context.Context, stream *connect.ClientStream[pingv1.PingRequest]) (*connect.Response[pingv1.PingResponse], error) {
			for stream.Receive() {
			}
			if err := stream.Err(); err != nil {
				return nil, err
			}
			res := connect.NewResponse(&pingv1.PingResponse{Text: "0123456789"})
			res.Trailer().Set("X-Checksum", strings.Repeat("c", 100))
			return res, nil
		},
		noCompression,
	))
	server := httptest.NewUnstartedServer(mux)
	server.EnableHTTP2 = true
	server.StartTLS()
	defer server.Close()

	protocols := []struct {
		name string
		opt  connect.ClientOption
	}{
		{"connect", connect.WithClientOptions()},
		{"grpc", connect.WithGRPC()},
		{"grpcweb", connect.WithGRPCWeb()},
	}

	t.Run("unary_limit16_message2", func(t *testing.T) {
		const limit = 16
		for _, protocol := range protocols {
			protocol := protocol
			t.Run(protocol.name, func(t *testing.T) {
				client := connect.NewClient[pingv1.PingRequest, pingv1.PingResponse](
					server.Client(), server.URL+"/audit.S/Unary",
					connect.WithReadMaxBytes(limit), protocol.opt,
				)
				res, err := client.CallUnary(context.Background(), connect.NewRequest(&pingv1.PingRequest{}))
				if err != nil {
					t.Fatalf(
						"property C09 expects a response message of %d bytes to be accepted with a read limit of %d; observed the call failing with %q",
						proto.Size(&pingv1.PingResponse{Number: 1}), limit, err.Error(),
					)
				}
				if res.Msg.Number != 1 {
					t.Fatalf("unexpected response %v", res.Msg)
				}
			})
		}
	})

	t.Run("clientstream_limit64_message12_trailers100", func(t *testing.T) {
		const limit = 64
		for _, protocol := range protocols {
			protocol := protocol
			t.Run(protocol.name, func(t *testing.T) {
				client := connect.NewClient[pingv1.PingRequest, pingv1.PingResponse](
					server.Client(), server.URL+"/audit.S/Sum",
					connect.WithReadMaxBytes(limit), protocol.opt,
				)
				stream := client.CallClientStream(context.Background())
				if err := stream.Send(&pingv1.PingRequest{}); err != nil {
					t.Fatal(err)
				}
				res, err := stream.CloseAndReceive()
				if err != nil {
					t.Fatalf(
						"property C09 expects a response message of %d bytes to be accepted with a read limit of %d; observed the call failing with %q",
						proto.Size(&pingv1.PingResponse{Text: "0123456789"}), limit, err.Error(),
					)
				}
				if res.Msg.Text != "0123456789" {
					t.Fatalf("unexpected response %v", res.Msg)
				}
			})
		}
	})

	// The smallest limits in the quantifier (N >= 1): a Connect stream can't be
	// received at all, because its mandatory end-of-stream envelope "{}" is two
	// bytes long.
	t.Run("clientstream_limit1_message0", func(t *testing.T) {
		const limit = 1
		mux := http.NewServeMux()
		mux.Handle("/audit.S/Empty", connect.NewClientStreamHandler(
			"/audit.S/Empty",
			func(_ context.Context, stream *connect.ClientStream[pingv1.PingRequest]) (*connect.Response[pingv1.PingResponse], error) {
				for stream.Receive() {
				}
				return connect.NewResponse(&pingv1.PingResponse{}), stream.Err()
			},
			noCompression,
		))
		server := httptest.NewUnstartedServer(mux)
		server.EnableHTTP2 = true
		server.StartTLS()
		defer server.Close()
		for _, protocol := range protocols {
			protocol := protocol
			t.Run(protocol.name, func(t *testing.T) {
				client := connect.NewClient[pingv1.PingRequest, pingv1.PingResponse](
					server.Client(), server.URL+"/audit.S/Empty",
					connect.WithReadMaxBytes(limit), protocol.opt,
				)
				stream := client.CallClientStream(context.Background())
				if err := stream.Send(&pingv1.PingRequest{}); err != nil {
					t.Fatal(err)
				}
				if _, err := stream.CloseAndReceive(); err != nil {
					t.Fatalf(
						"property C09 expects a response message of 0 bytes to be accepted with a read limit of %d; observed the call failing with %q",
						limit, err.Error(),
					)
				}
			})
		}
	})
}
