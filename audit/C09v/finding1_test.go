package connect_test

import (
	"context"
	"net/http"
	"net/http/httptest"
	"strings"
	"testing"

	connect "github.com/bufbuild/connect-go"
	pingv1 "github.com/bufbuild/connect-go/internal/gen/connect/ping/v1"
)

// C09: with a read limit of N bytes on a client, a call in which the peer sends
// a message larger than N "fails with the documented error" (invalid_argument,
// "message size X is larger than configured max N") - at every position in a
// stream and in every protocol.
//
// Observed: a gRPC client that receives an oversize message goes on to drain
// the response and, if the HTTP trailers carry a non-OK status, reports that
// status instead. The size violation is never reported. Connect and gRPC-Web
// clients report the documented error for the very same server behaviour.
func TestAuditC09vFinding1(t *testing.T) {
	const limit = 1024
	mux := http.NewServeMux()
	mux.Handle("/audit.S/Stream", connect.NewServerStreamHandler(
		"/audit.S/Stream",
		func(_ context.Context, _ *connect.Request[pingv1.PingRequest], stream *connect.ServerStream[pingv1.PingResponse]) error {
			// One message within the client's limit, then one of about 2*limit.
			if err := stream.Send(&pingv1.PingResponse{Text: "ok"}); err != nil {
				return err
			}
			if err := stream.Send(&pingv1.PingResponse{Text: strings.Repeat("a", 2*limit)}); err != nil {
				return err
			}
			return connect.NewError(connect.CodeAborted, errStr("boom"))
		},
		connect.WithCompressMinBytes(1<<30), // send uncompressed
	))
	server := httptest.NewUnstartedServer(mux)
	server.EnableHTTP2 = true
	server.StartTLS()
	defer server.Close()

	for _, proto := range []struct {
		name string
		opt  connect.ClientOption
	}{
		{"connect", connect.WithClientOptions()},
		{"grpcweb", connect.WithGRPCWeb()},
		{"grpc", connect.WithGRPC()},
	} {
		proto := proto
		t.Run(proto.name, func(t *testing.T) {
			client := connect.NewClient[pingv1.PingRequest, pingv1.PingResponse](
				server.Client(),
				server.URL+"/audit.S/Stream",
				connect.WithReadMaxBytes(limit),
				proto.opt,
			)
			stream, err := client.CallServerStream(context.Background(), connect.NewRequest(&pingv1.PingRequest{}))
			if err != nil {
				t.Fatal(err)
			}
			defer stream.Close()
			delivered := 0
			for stream.Receive() {
				delivered++
				if n := len(stream.Msg().Text); n > limit {
					t.Errorf("message of %d bytes delivered with a read limit of %d", n, limit)
				}
			}
			if delivered != 1 {
				t.Errorf("expected exactly the first (small) message to be delivered, got %d messages", delivered)
			}
			err = stream.Err()
			if err == nil {
				t.Fatalf("expected the call to fail: the second message exceeds the read limit")
			}
			if connect.CodeOf(err) != connect.CodeInvalidArgument ||
				!strings.Contains(err.Error(), "is larger than configured max 1024") {
				t.Errorf(
					"property C09 expects the call to fail with the documented read-limit error "+
						"(invalid_argument: message size ... is larger than configured max %d); observed %q (code %v): "+
						"the oversize message was silently skipped and the status from the trailers reported instead",
					limit, err.Error(), connect.CodeOf(err),
				)
			}
		})
	}
}

type errStr string

func (e errStr) Error() string { return string(e) }
