package connect_test

import (
	"bytes"
	"os/exec"
	"path/filepath"
	"strings"
	"testing"

	"google.golang.org/protobuf/proto"
	"google.golang.org/protobuf/types/descriptorpb"
	"google.golang.org/protobuf/types/pluginpb"
)

// TestAuditC17yFinding4: the generator's output is not a function of the
// descriptors: the first line embeds filepath.Base(os.Args[0]), so the very
// same CodeGeneratorRequest yields different bytes depending on the file name
// of the plugin executable (protoc --plugin=protoc-gen-connect-go=/any/name,
// a ".exe" suffix on Windows, a bazel/hermetic wrapper, ...). In particular the
// checked-in ping.connect.go is only reproduced when the binary happens to be
// called exactly "protoc-gen-connect-go".
func TestAuditC17yFinding4(t *testing.T) {
	binDir := t.TempDir()
	canonical := auditC17yF4Build(t, binDir, "protoc-gen-connect-go", "./cmd/protoc-gen-connect-go")
	renamed := auditC17yF4Build(t, binDir, "connect-go-plugin", "./cmd/protoc-gen-connect-go")
	fd := auditC17yF4File("acme.v1", "example.com/gen/acme/v1;acmev1",
		[]auditC17yF4Service{{name: "Svc", methods: auditC17yF4All4()}})
	req := &pluginpb.CodeGeneratorRequest{
		FileToGenerate: []string{fd.GetName()},
		ProtoFile:      []*descriptorpb.FileDescriptorProto{fd},
	}
	content := func(bin string) string {
		res := auditC17yF4Run(t, bin, req)
		if res.Error != nil {
			t.Fatalf("generator failed: %s", res.GetError())
		}
		if len(res.File) != 1 {
			t.Fatalf("expected one generated file, got %d", len(res.File))
		}
		return res.File[0].GetContent()
	}
	first := content(canonical)
	if again := content(canonical); again != first {
		t.Errorf("two runs of the same binary on the same request differ")
	}
	other := content(renamed)
	if other != first {
		line := func(s string) string { return strings.SplitN(s, "\n", 2)[0] }
		t.Errorf("property C17 expects deterministic output (the same descriptors give the same Go source); "+
			"observed: identical CodeGeneratorRequest, identical program, executable named %q emits first line %q, "+
			"executable named %q emits first line %q",
			filepath.Base(canonical), line(first), filepath.Base(renamed), line(other))
	}
}

// ---- helpers (self-contained; names are suffixed so that several finding files can coexist) ----

type auditC17yF4Method struct {
	name   string
	cs, ss bool
}

type auditC17yF4Service struct {
	name    string
	methods []auditC17yF4Method
}

// auditC17yF4File builds the descriptor of a proto3 file
//
//	package <pkg>; option go_package = "<goPackage>";
//	message Req {} message Res {}
//	service <name> { rpc <method>([stream] Req) returns ([stream] Res); ... } ...
func auditC17yF4File(pkg, goPackage string, services []auditC17yF4Service) *descriptorpb.FileDescriptorProto {
	fd := &descriptorpb.FileDescriptorProto{
		Name:    proto.String("a.proto"),
		Syntax:  proto.String("proto3"),
		Package: proto.String(pkg),
		Options: &descriptorpb.FileOptions{GoPackage: proto.String(goPackage)},
		MessageType: []*descriptorpb.DescriptorProto{
			{Name: proto.String("Req")},
			{Name: proto.String("Res")},
		},
	}
	for _, s := range services {
		sd := &descriptorpb.ServiceDescriptorProto{Name: proto.String(s.name)}
		for _, m := range s.methods {
			md := &descriptorpb.MethodDescriptorProto{
				Name:       proto.String(m.name),
				InputType:  proto.String("." + pkg + ".Req"),
				OutputType: proto.String("." + pkg + ".Res"),
			}
			if m.cs {
				md.ClientStreaming = proto.Bool(true)
			}
			if m.ss {
				md.ServerStreaming = proto.Bool(true)
			}
			sd.Method = append(sd.Method, md)
		}
		fd.Service = append(fd.Service, sd)
	}
	return fd
}

func auditC17yF4All4() []auditC17yF4Method {
	return []auditC17yF4Method{
		{name: "Unary"},
		{name: "ClientStream", cs: true},
		{name: "ServerStream", ss: true},
		{name: "Bidi", cs: true, ss: true},
	}
}

// auditC17yF4Build builds a main package (given in go-build syntax) of this
// module or its dependencies into dir/name.
func auditC17yF4Build(t *testing.T, dir, name, pkg string) string {
	t.Helper()
	out := filepath.Join(dir, name)
	cmd := exec.Command("go", "build", "-o", out, pkg)
	if b, err := cmd.CombinedOutput(); err != nil {
		t.Fatalf("go build %s: %v\n%s", pkg, err, b)
	}
	return out
}

// auditC17yF4Run speaks the protoc plugin protocol with the binary.
func auditC17yF4Run(t *testing.T, bin string, req *pluginpb.CodeGeneratorRequest) *pluginpb.CodeGeneratorResponse {
	t.Helper()
	in, err := proto.Marshal(req)
	if err != nil {
		t.Fatal(err)
	}
	cmd := exec.Command(bin)
	cmd.Stdin = bytes.NewReader(in)
	var stdout, stderr bytes.Buffer
	cmd.Stdout, cmd.Stderr = &stdout, &stderr
	if err := cmd.Run(); err != nil {
		t.Fatalf("property C17 expects the generator to succeed on a valid file; plugin %s failed: %v\nstderr: %s", bin, err, stderr.String())
	}
	res := &pluginpb.CodeGeneratorResponse{}
	if err := proto.Unmarshal(stdout.Bytes(), res); err != nil {
		t.Fatal(err)
	}
	return res
}
