package connect_test

import (
	"bytes"
	"os"
	"os/exec"
	"path/filepath"
	"strings"
	"testing"

	"google.golang.org/protobuf/proto"
	"google.golang.org/protobuf/types/descriptorpb"
	"google.golang.org/protobuf/types/pluginpb"
)

// TestAuditC17yFinding1: a go_package whose last import-path element is
// "opts", "baseURL" or "httpClient" (the parameter names of the generated
// New<Service>Client constructor), or "<service>Client" (the name of the
// generated unexported client struct), makes the generated code fail to
// type-check: protogen names the import of the message package after the last
// path element, and the generator's own identifiers shadow / collide with it.
func TestAuditC17yFinding1(t *testing.T) {
	for _, base := range []string{"acmev1" /* control: compiles */, "opts", "baseURL", "httpClient", "svcClient"} {
		base := base
		t.Run(base, func(t *testing.T) {
			scratch := "auditc17yf1"
			goPackage := auditC17yF1Module + "/internal/" + scratch + "/" + base
			// package acme.v1; option go_package = ".../<base>";
			// service Svc { 4 methods, one per streaming kind }
			fd := auditC17yF1File("acme.v1", goPackage, []auditC17yF1Service{{name: "Svc", methods: auditC17yF1All4()}})
			_, compileErr := auditC17yF1GenerateAndCompile(t, scratch, fd)
			if compileErr != "" {
				t.Errorf("property C17 expects the generated code for a valid file (go_package %q, service acme.v1.Svc) "+
					"to type-check against the library; observed: the generator succeeded but `go build` of its output fails:\n%s",
					goPackage, compileErr)
			}
		})
	}
}

// ---- helpers (self-contained; names are suffixed so that several finding files can coexist) ----

type auditC17yF1Method struct {
	name   string
	cs, ss bool
}

type auditC17yF1Service struct {
	name    string
	methods []auditC17yF1Method
}

// auditC17yF1File builds the descriptor of a proto3 file
//
//	package <pkg>; option go_package = "<goPackage>";
//	message Req {} message Res {}
//	service <name> { rpc <method>([stream] Req) returns ([stream] Res); ... } ...
func auditC17yF1File(pkg, goPackage string, services []auditC17yF1Service) *descriptorpb.FileDescriptorProto {
	fd := &descriptorpb.FileDescriptorProto{
		Name:    proto.String("a.proto"),
		Syntax:  proto.String("proto3"),
		Package: proto.String(pkg),
		Options: &descriptorpb.FileOptions{GoPackage: proto.String(goPackage)},
		MessageType: []*descriptorpb.DescriptorProto{
			{Name: proto.String("Req")},
			{Name: proto.String("Res")},
		},
	}
	for _, s := range services {
		sd := &descriptorpb.ServiceDescriptorProto{Name: proto.String(s.name)}
		for _, m := range s.methods {
			md := &descriptorpb.MethodDescriptorProto{
				Name:       proto.String(m.name),
				InputType:  proto.String("." + pkg + ".Req"),
				OutputType: proto.String("." + pkg + ".Res"),
			}
			if m.cs {
				md.ClientStreaming = proto.Bool(true)
			}
			if m.ss {
				md.ServerStreaming = proto.Bool(true)
			}
			sd.Method = append(sd.Method, md)
		}
		fd.Service = append(fd.Service, sd)
	}
	return fd
}

func auditC17yF1All4() []auditC17yF1Method {
	return []auditC17yF1Method{
		{name: "Unary"},
		{name: "ClientStream", cs: true},
		{name: "ServerStream", ss: true},
		{name: "Bidi", cs: true, ss: true},
	}
}

// auditC17yF1Build builds a main package (given in go-build syntax) of this
// module or its dependencies into dir/name.
func auditC17yF1Build(t *testing.T, dir, name, pkg string) string {
	t.Helper()
	out := filepath.Join(dir, name)
	cmd := exec.Command("go", "build", "-o", out, pkg)
	if b, err := cmd.CombinedOutput(); err != nil {
		t.Fatalf("go build %s: %v\n%s", pkg, err, b)
	}
	return out
}

// auditC17yF1Run speaks the protoc plugin protocol with the binary.
func auditC17yF1Run(t *testing.T, bin string, req *pluginpb.CodeGeneratorRequest) *pluginpb.CodeGeneratorResponse {
	t.Helper()
	in, err := proto.Marshal(req)
	if err != nil {
		t.Fatal(err)
	}
	cmd := exec.Command(bin)
	cmd.Stdin = bytes.NewReader(in)
	var stdout, stderr bytes.Buffer
	cmd.Stdout, cmd.Stderr = &stdout, &stderr
	if err := cmd.Run(); err != nil {
		t.Fatalf("property C17 expects the generator to succeed on a valid file; plugin %s failed: %v\nstderr: %s", bin, err, stderr.String())
	}
	res := &pluginpb.CodeGeneratorResponse{}
	if err := proto.Unmarshal(stdout.Bytes(), res); err != nil {
		t.Fatal(err)
	}
	return res
}

const auditC17yF1Module = "github.com/bufbuild/connect-go"

// auditC17yF1GenerateAndCompile runs protoc-gen-go and the UNCHANGED
// protoc-gen-connect-go on fd, writes the output below
// <repo>/internal/<scratch>/ (removed again at the end of the test; the
// go_package of fd must start with <module>/internal/<scratch>/) and compiles
// every generated package with `go build`. It returns the generated
// *.connect.go contents and the compiler output ("" if everything compiles).
func auditC17yF1GenerateAndCompile(t *testing.T, scratch string, fd *descriptorpb.FileDescriptorProto) (map[string]string, string) {
	t.Helper()
	binDir := t.TempDir()
	connectBin := auditC17yF1Build(t, binDir, "protoc-gen-connect-go", "./cmd/protoc-gen-connect-go")
	goBin := auditC17yF1Build(t, binDir, "protoc-gen-go", "google.golang.org/protobuf/cmd/protoc-gen-go")
	req := &pluginpb.CodeGeneratorRequest{
		FileToGenerate: []string{fd.GetName()},
		ProtoFile:      []*descriptorpb.FileDescriptorProto{fd},
		// paths=import (the default); strip the module prefix so that file
		// names are relative to the repository root.
		Parameter: proto.String("module=" + auditC17yF1Module),
	}
	connectRes := auditC17yF1Run(t, connectBin, req)
	if connectRes.Error != nil {
		t.Fatalf("property C17 expects the generator to succeed on a valid file; protoc-gen-connect-go reported: %s", connectRes.GetError())
	}
	goRes := auditC17yF1Run(t, goBin, req)
	if goRes.Error != nil {
		t.Fatalf("protoc-gen-go rejected the file (test bug): %s", goRes.GetError())
	}
	scratchDir := filepath.Join("internal", scratch)
	if err := os.RemoveAll(scratchDir); err != nil {
		t.Fatal(err)
	}
	t.Cleanup(func() { os.RemoveAll(scratchDir) })
	connectFiles := map[string]string{}
	pkgDirs := map[string]bool{}
	for _, res := range []*pluginpb.CodeGeneratorResponse{goRes, connectRes} {
		for _, f := range res.File {
			name := filepath.FromSlash(f.GetName())
			if !strings.HasPrefix(name, scratchDir+string(filepath.Separator)) {
				t.Fatalf("generated file %q is outside %q (test bug)", name, scratchDir)
			}
			if err := os.MkdirAll(filepath.Dir(name), 0o755); err != nil {
				t.Fatal(err)
			}
			if err := os.WriteFile(name, []byte(f.GetContent()), 0o644); err != nil {
				t.Fatal(err)
			}
			pkgDirs["./"+filepath.ToSlash(filepath.Dir(name))] = true
			if res == connectRes {
				connectFiles[f.GetName()] = f.GetContent()
			}
		}
	}
	if len(connectFiles) != 1 {
		t.Fatalf("expected exactly one *.connect.go file, got %d", len(connectFiles))
	}
	args := []string{"build"}
	for dir := range pkgDirs {
		args = append(args, dir)
	}
	out, err := exec.Command("go", args...).CombinedOutput()
	if err != nil {
		return connectFiles, string(out)
	}
	return connectFiles, ""
}
