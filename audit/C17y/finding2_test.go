package connect_test

import (
	"bytes"
	"os"
	"os/exec"
	"path/filepath"
	"strings"
	"testing"

	"google.golang.org/protobuf/proto"
	"google.golang.org/protobuf/types/descriptorpb"
	"google.golang.org/protobuf/types/pluginpb"
)

// TestAuditC17yFinding2: two services in one file whose names differ by the
// prefix "New" or "Unimplemented" make the generator emit the same Go
// identifier twice (New<Foo>Client is both the constructor of Foo's client and
// the client interface of service NewFoo; Unimplemented<Foo>Handler is both the
// stub struct of Foo and the handler interface of UnimplementedFoo).
func TestAuditC17yFinding2(t *testing.T) {
	for _, second := range []string{"NewFoo", "UnimplementedFoo"} {
		second := second
		t.Run("Foo+"+second, func(t *testing.T) {
			scratch := "auditc17yf2"
			goPackage := auditC17yF2Module + "/internal/" + scratch + "/acmev1"
			fd := auditC17yF2File("acme.v1", goPackage, []auditC17yF2Service{
				{name: "Foo", methods: auditC17yF2All4()},
				{name: second, methods: auditC17yF2All4()},
			})
			_, compileErr := auditC17yF2GenerateAndCompile(t, scratch, fd)
			if compileErr != "" {
				t.Errorf("property C17 expects the generated code for a valid file with services acme.v1.Foo and acme.v1.%s "+
					"to type-check against the library; observed: the generator succeeded but `go build` of its output fails:\n%s",
					second, compileErr)
			}
		})
	}
}

// ---- helpers (self-contained; names are suffixed so that several finding files can coexist) ----

type auditC17yF2Method struct {
	name   string
	cs, ss bool
}

type auditC17yF2Service struct {
	name    string
	methods []auditC17yF2Method
}

// auditC17yF2File builds the descriptor of a proto3 file
//
//	package <pkg>; option go_package = "<goPackage>";
//	message Req {} message Res {}
//	service <name> { rpc <method>([stream] Req) returns ([stream] Res); ... } ...
func auditC17yF2File(pkg, goPackage string, services []auditC17yF2Service) *descriptorpb.FileDescriptorProto {
	fd := &descriptorpb.FileDescriptorProto{
		Name:    proto.String("a.proto"),
		Syntax:  proto.String("proto3"),
		Package: proto.String(pkg),
		Options: &descriptorpb.FileOptions{GoPackage: proto.String(goPackage)},
		MessageType: []*descriptorpb.DescriptorProto{
			{Name: proto.String("Req")},
			{Name: proto.String("Res")},
		},
	}
	for _, s := range services {
		sd := &descriptorpb.ServiceDescriptorProto{Name: proto.String(s.name)}
		for _, m := range s.methods {
			md := &descriptorpb.MethodDescriptorProto{
				Name:       proto.String(m.name),
				InputType:  proto.String("." + pkg + ".Req"),
				OutputType: proto.String("." + pkg + ".Res"),
			}
			if m.cs {
				md.ClientStreaming = proto.Bool(true)
			}
			if m.ss {
				md.ServerStreaming = proto.Bool(true)
			}
			sd.Method = append(sd.Method, md)
		}
		fd.Service = append(fd.Service, sd)
	}
	return fd
}

func auditC17yF2All4() []auditC17yF2Method {
	return []auditC17yF2Method{
		{name: "Unary"},
		{name: "ClientStream", cs: true},
		{name: "ServerStream", ss: true},
		{name: "Bidi", cs: true, ss: true},
	}
}

// auditC17yF2Build builds a main package (given in go-build syntax) of this
// module or its dependencies into dir/name.
func auditC17yF2Build(t *testing.T, dir, name, pkg string) string {
	t.Helper()
	out := filepath.Join(dir, name)
	cmd := exec.Command("go", "build", "-o", out, pkg)
	if b, err := cmd.CombinedOutput(); err != nil {
		t.Fatalf("go build %s: %v\n%s", pkg, err, b)
	}
	return out
}

// auditC17yF2Run speaks the protoc plugin protocol with the binary.
func auditC17yF2Run(t *testing.T, bin string, req *pluginpb.CodeGeneratorRequest) *pluginpb.CodeGeneratorResponse {
	t.Helper()
	in, err := proto.Marshal(req)
	if err != nil {
		t.Fatal(err)
	}
	cmd := exec.Command(bin)
	cmd.Stdin = bytes.NewReader(in)
	var stdout, stderr bytes.Buffer
	cmd.Stdout, cmd.Stderr = &stdout, &stderr
	if err := cmd.Run(); err != nil {
		t.Fatalf("property C17 expects the generator to succeed on a valid file; plugin %s failed: %v\nstderr: %s", bin, err, stderr.String())
	}
	res := &pluginpb.CodeGeneratorResponse{}
	if err := proto.Unmarshal(stdout.Bytes(), res); err != nil {
		t.Fatal(err)
	}
	return res
}

const auditC17yF2Module = "github.com/bufbuild/connect-go"

// auditC17yF2GenerateAndCompile runs protoc-gen-go and the UNCHANGED
// protoc-gen-connect-go on fd, writes the output below
// <repo>/internal/<scratch>/ (removed again at the end of the test; the
// go_package of fd must start with <module>/internal/<scratch>/) and compiles
// every generated package with `go build`. It returns the generated
// *.connect.go contents and the compiler output ("" if everything compiles).
func auditC17yF2GenerateAndCompile(t *testing.T, scratch string, fd *descriptorpb.FileDescriptorProto) (map[string]string, string) {
	t.Helper()
	binDir := t.TempDir()
	connectBin := auditC17yF2Build(t, binDir, "protoc-gen-connect-go", "./cmd/protoc-gen-connect-go")
	goBin := auditC17yF2Build(t, binDir, "protoc-gen-go", "google.golang.org/protobuf/cmd/protoc-gen-go")
	req := &pluginpb.CodeGeneratorRequest{
		FileToGenerate: []string{fd.GetName()},
		ProtoFile:      []*descriptorpb.FileDescriptorProto{fd},
		// paths=import (the default); strip the module prefix so that file
		// names are relative to the repository root.
		Parameter: proto.String("module=" + auditC17yF2Module),
	}
	connectRes := auditC17yF2Run(t, connectBin, req)
	if connectRes.Error != nil {
		t.Fatalf("property C17 expects the generator to succeed on a valid file; protoc-gen-connect-go reported: %s", connectRes.GetError())
	}
	goRes := auditC17yF2Run(t, goBin, req)
	if goRes.Error != nil {
		t.Fatalf("protoc-gen-go rejected the file (test bug): %s", goRes.GetError())
	}
	scratchDir := filepath.Join("internal", scratch)
	if err := os.RemoveAll(scratchDir); err != nil {
		t.Fatal(err)
	}
	t.Cleanup(func() { os.RemoveAll(scratchDir) })
	connectFiles := map[string]string{}
	pkgDirs := map[string]bool{}
	for _, res := range []*pluginpb.CodeGeneratorResponse{goRes, connectRes} {
		for _, f := range res.File {
			name := filepath.FromSlash(f.GetName())
			if !strings.HasPrefix(name, scratchDir+string(filepath.Separator)) {
				t.Fatalf("generated file %q is outside %q (test bug)", name, scratchDir)
			}
			if err := os.MkdirAll(filepath.Dir(name), 0o755); err != nil {
				t.Fatal(err)
			}
			if err := os.WriteFile(name, []byte(f.GetContent()), 0o644); err != nil {
				t.Fatal(err)
			}
			pkgDirs["./"+filepath.ToSlash(filepath.Dir(name))] = true
			if res == connectRes {
				connectFiles[f.GetName()] = f.GetContent()
			}
		}
	}
	if len(connectFiles) != 1 {
		t.Fatalf("expected exactly one *.connect.go file, got %d", len(connectFiles))
	}
	args := []string{"build"}
	for dir := range pkgDirs {
		args = append(args, dir)
	}
	out, err := exec.Command("go", args...).CombinedOutput()
	if err != nil {
		return connectFiles, string(out)
	}
	return connectFiles, ""
}
