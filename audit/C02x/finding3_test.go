package connect_test

import (
	"context"
	"errors"
	"net/http"
	"net/http/httptest"
	"strings"
	"testing"

	connect "github.com/bufbuild/connect-go"
	pingv1 "github.com/bufbuild/connect-go/internal/gen/connect/ping/v1"
)

// Property C02: the client receives the handler's code and byte-identical
// message, for all valid UTF-8 messages ("long" ones included), in every
// protocol and RPC kind.
//
// WithReadMaxBytes is documented to limit "each Protobuf message". On a client
// it also limits the handler's *error*: an error whose wire form is larger than
// the limit is thrown away and replaced
//   - Connect unary: by a code guessed from the HTTP status ("unknown: 409
//     Conflict" for CodeAborted),
//   - Connect streaming and gRPC-Web (error after messages): by
//     "invalid_argument: message size N is larger than configured max".
// Only gRPC, whose errors travel in HTTP trailers, delivers the error.
func TestAuditC02xFinding3(t *testing.T) {
	message := strings.Repeat("m", 2048) // 2 KiB of text; the client reads messages up to 1 KiB
	fail := func() error {
		return connect.NewError(connect.CodeAborted, errors.New(message))
	}
	mux := http.NewServeMux()
	mux.Handle("/unary", connect.NewUnaryHandler("/unary",
		func(context.Context, *connect.Request[pingv1.PingRequest]) (*connect.Response[pingv1.PingResponse], error) {
			return nil, fail()
		}))
	mux.Handle("/stream", connect.NewServerStreamHandler("/stream",
		func(_ context.Context, _ *connect.Request[pingv1.PingRequest], stream *connect.ServerStream[pingv1.PingResponse]) error {
			if err := stream.Send(&pingv1.PingResponse{Number: 1}); err != nil {
				return err
			}
			return fail()
		}))
	server := httptest.NewUnstartedServer(mux)
	server.EnableHTTP2 = true
	server.StartTLS()
	defer server.Close()

	check := func(name string, err error) {
		t.Helper()
		var connectErr *connect.Error
		if !errors.As(err, &connectErr) {
			t.Errorf("%s: expected a *connect.Error, got %v", name, err)
			return
		}
		if connectErr.Code() != connect.CodeAborted {
			t.Errorf("%s: property C02 expects the handler's code %v; observed %v (error: %.120v)",
				name, connect.CodeAborted, connectErr.Code(), connectErr)
		}
		if connectErr.Message() != message {
			t.Errorf("%s: property C02 expects the handler's byte-identical %d-byte message; observed %.120q",
				name, len(message), connectErr.Message())
		}
	}
	for _, protocol := range []struct {
		name string
		opts []connect.ClientOption
	}{
		{"grpc", []connect.ClientOption{connect.WithGRPC()}},
		{"grpcweb", []connect.ClientOption{connect.WithGRPCWeb()}},
		{"connect", nil},
	} {
		opts := append([]connect.ClientOption{connect.WithReadMaxBytes(1024)}, protocol.opts...)
		unary := connect.NewClient[pingv1.PingRequest, pingv1.PingResponse](server.Client(), server.URL+"/unary", opts...)
		_, err := unary.CallUnary(context.Background(), connect.NewRequest(&pingv1.PingRequest{}))
		check(protocol.name+"/unary", err)

		streaming := connect.NewClient[pingv1.PingRequest, pingv1.PingResponse](server.Client(), server.URL+"/stream", opts...)
		stream, err := streaming.CallServerStream(context.Background(), connect.NewRequest(&pingv1.PingRequest{}))
		if err != nil {
			t.Fatalf("%s/stream: %v", protocol.name, err)
		}
		received := 0
		for stream.Receive() {
			received++
		}
		if received != 1 {
			t.Errorf("%s/server-stream: expected the 1 message sent before the error, got %d", protocol.name, received)
		}
		check(protocol.name+"/server-stream after 1 message", stream.Err())
		_ = stream.Close()
	}
}
