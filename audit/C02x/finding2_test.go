package connect_test

import (
	"context"
	"errors"
	"net/http"
	"net/http/httptest"
	"testing"

	connect "github.com/bufbuild/connect-go"
	pingv1 "github.com/bufbuild/connect-go/internal/gen/connect/ping/v1"
	"google.golang.org/protobuf/proto"
	"google.golang.org/protobuf/types/known/anypb"
)

// Property C02: the client receives "the same code, byte-identical message,
// equal details in the same order ... in every protocol".
//
// A detail is an Any-wrapped message. When the Any's type isn't in the
// handler binary's global Protobuf registry (an upstream's error passed on by
// a proxy, a dynamicpb message, a hand-built Any), the Connect protocol - unary
// and streaming - can't render the error at all: it serializes details with
// protojson, which must expand every Any. The client then gets CodeInternal
// "marshal error: ..." in place of the handler's code and message, and no
// details. The gRPC protocols pass the same error through untouched.
func TestAuditC02xFinding2(t *testing.T) {
	detail := &anypb.Any{
		TypeUrl: "type.googleapis.com/acme.billing.v1.QuotaInfo", // not linked into this binary
		Value:   []byte{0x08, 0x2a},                               // field 1 = 42
	}
	fail := func() error {
		err := connect.NewError(connect.CodeResourceExhausted, errors.New("quota used up"))
		err.AddDetail(detail)
		return err
	}
	mux := http.NewServeMux()
	mux.Handle("/unary", connect.NewUnaryHandler("/unary",
		func(context.Context, *connect.Request[pingv1.PingRequest]) (*connect.Response[pingv1.PingResponse], error) {
			return nil, fail()
		}))
	mux.Handle("/stream", connect.NewServerStreamHandler("/stream",
		func(_ context.Context, _ *connect.Request[pingv1.PingRequest], stream *connect.ServerStream[pingv1.PingResponse]) error {
			if err := stream.Send(&pingv1.PingResponse{Number: 1}); err != nil {
				return err
			}
			return fail()
		}))
	server := httptest.NewUnstartedServer(mux)
	server.EnableHTTP2 = true
	server.StartTLS()
	defer server.Close()

	check := func(name string, err error) {
		t.Helper()
		var connectErr *connect.Error
		if !errors.As(err, &connectErr) {
			t.Errorf("%s: expected a *connect.Error, got %v", name, err)
			return
		}
		if connectErr.Code() != connect.CodeResourceExhausted {
			t.Errorf("%s: property C02 expects the handler's code %v; observed %v (error: %v)",
				name, connect.CodeResourceExhausted, connectErr.Code(), connectErr)
		}
		if connectErr.Message() != "quota used up" {
			t.Errorf("%s: property C02 expects the byte-identical message %q; observed %q",
				name, "quota used up", connectErr.Message())
		}
		if len(connectErr.Details()) != 1 {
			t.Errorf("%s: property C02 expects 1 detail equal to the handler's; observed %d details",
				name, len(connectErr.Details()))
			return
		}
		got, ok := connectErr.Details()[0].(*anypb.Any)
		if !ok || !proto.Equal(got, detail) {
			t.Errorf("%s: property C02 expects detail %v; observed %v", name, detail, connectErr.Details()[0])
		}
	}
	for _, protocol := range []struct {
		name string
		opts []connect.ClientOption
	}{
		{"grpc", []connect.ClientOption{connect.WithGRPC()}},
		{"grpcweb", []connect.ClientOption{connect.WithGRPCWeb()}},
		{"connect", nil},
	} {
		unary := connect.NewClient[pingv1.PingRequest, pingv1.PingResponse](server.Client(), server.URL+"/unary", protocol.opts...)
		_, err := unary.CallUnary(context.Background(), connect.NewRequest(&pingv1.PingRequest{}))
		check(protocol.name+"/unary", err)

		streaming := connect.NewClient[pingv1.PingRequest, pingv1.PingResponse](server.Client(), server.URL+"/stream", protocol.opts...)
		stream, err := streaming.CallServerStream(context.Background(), connect.NewRequest(&pingv1.PingRequest{}))
		if err != nil {
			t.Fatalf("%s/stream: %v", protocol.name, err)
		}
		for stream.Receive() {
		}
		check(protocol.name+"/server-stream after 1 message", stream.Err())
		_ = stream.Close()
	}
}
