package connect_test

import (
	"context"
	"errors"
	"net/http"
	"net/http/httptest"
	"strings"
	"testing"

	connect "github.com/bufbuild/connect-go"
	pingv1 "github.com/bufbuild/connect-go/internal/gen/connect/ping/v1"
)

// Property C02: the client receives the handler's code and byte-identical
// message for all valid UTF-8 messages, "long" ones included, in every
// protocol.
//
// With the gRPC protocol served over HTTP/1.1 (which this library's handlers
// and clients do for unary, client- and server-streaming calls), the error
// travels in the chunked body's trailer section. The handler conn writes the
// message twice (percent-encoded in Grpc-Message and again inside the base64
// Grpc-Status-Details-Bin), plus all of the error's metadata, so a message of
// 2 KiB already makes a trailer section larger than the 4 KiB that net/http's
// client accepts. The client then reports invalid_argument "incomplete
// envelope: http: suspiciously long trailer after chunked body": the handler's
// code and message are lost. Over HTTP/2 the same call is fine, as are
// gRPC-Web and Connect over HTTP/1.1.
func TestAuditC02xFinding5(t *testing.T) {
	message := strings.Repeat("m", 2048)
	fail := func() error {
		return connect.NewError(connect.CodeAborted, errors.New(message))
	}
	mux := http.NewServeMux()
	mux.Handle("/unary", connect.NewUnaryHandler("/unary",
		func(context.Context, *connect.Request[pingv1.PingRequest]) (*connect.Response[pingv1.PingResponse], error) {
			return nil, fail()
		}))
	mux.Handle("/stream", connect.NewServerStreamHandler("/stream",
		func(_ context.Context, _ *connect.Request[pingv1.PingRequest], stream *connect.ServerStream[pingv1.PingResponse]) error {
			if err := stream.Send(&pingv1.PingResponse{Number: 1}); err != nil {
				return err
			}
			return fail()
		}))
	http1 := httptest.NewServer(mux)
	defer http1.Close()
	http2 := httptest.NewUnstartedServer(mux)
	http2.EnableHTTP2 = true
	http2.StartTLS()
	defer http2.Close()

	check := func(name string, err error) {
		t.Helper()
		var connectErr *connect.Error
		if !errors.As(err, &connectErr) {
			t.Errorf("%s: expected a *connect.Error, got %v", name, err)
			return
		}
		if connectErr.Code() != connect.CodeAborted {
			t.Errorf("%s: property C02 expects the handler's code %v; observed %v (error: %.160v)",
				name, connect.CodeAborted, connectErr.Code(), connectErr)
		}
		if connectErr.Message() != message {
			t.Errorf("%s: property C02 expects the handler's byte-identical %d-byte message; observed %.160q",
				name, len(message), connectErr.Message())
		}
	}
	for _, server := range []struct {
		name   string
		server *httptest.Server
	}{
		{"HTTP/2", http2},
		{"HTTP/1.1", http1},
	} {
		for _, protocol := range []struct {
			name string
			opts []connect.ClientOption
		}{
			{"connect", nil},
			{"grpcweb", []connect.ClientOption{connect.WithGRPCWeb()}},
			{"grpc", []connect.ClientOption{connect.WithGRPC()}},
		} {
			name := server.name + "/" + protocol.name
			unary := connect.NewClient[pingv1.PingRequest, pingv1.PingResponse](server.server.Client(), server.server.URL+"/unary", protocol.opts...)
			_, err := unary.CallUnary(context.Background(), connect.NewRequest(&pingv1.PingRequest{}))
			check(name+"/unary", err)

			streaming := connect.NewClient[pingv1.PingRequest, pingv1.PingResponse](server.server.Client(), server.server.URL+"/stream", protocol.opts...)
			stream, err := streaming.CallServerStream(context.Background(), connect.NewRequest(&pingv1.PingRequest{}))
			if err != nil {
				t.Fatalf("%s/stream: %v", name, err)
			}
			for stream.Receive() {
			}
			check(name+"/server-stream after 1 message", stream.Err())
			_ = stream.Close()
		}
	}
}
