package connect_test

import (
	"context"
	"errors"
	"net/http"
	"net/http/httptest"
	"testing"

	connect "github.com/bufbuild/connect-go"
	pingv1 "github.com/bufbuild/connect-go/internal/gen/connect/ping/v1"
)

// Property C02: the client's error has "metadata containing every key/value
// the handler attached - in every protocol".
//
// The unary Connect protocol sends trailers as HTTP headers prefixed with
// "Trailer-", and sends an error's metadata as plain HTTP headers. The handler
// side doesn't keep the two apart: metadata whose key itself begins with
// "Trailer-" goes out unescaped, the client takes it for a trailer, strips the
// prefix and files it under a different key. Err.Meta() then has no such key.
// Every other protocol (and Connect streaming) delivers the pair as attached.
func TestAuditC02xFinding4(t *testing.T) {
	const key, value = "Trailer-Park", "lot 7"
	fail := func() error {
		err := connect.NewError(connect.CodeNotFound, errors.New("no such lot"))
		err.Meta().Set(key, value)
		return err
	}
	mux := http.NewServeMux()
	mux.Handle("/unary", connect.NewUnaryHandler("/unary",
		func(context.Context, *connect.Request[pingv1.PingRequest]) (*connect.Response[pingv1.PingResponse], error) {
			return nil, fail()
		}))
	mux.Handle("/stream", connect.NewServerStreamHandler("/stream",
		func(context.Context, *connect.Request[pingv1.PingRequest], *connect.ServerStream[pingv1.PingResponse]) error {
			return fail()
		}))
	server := httptest.NewUnstartedServer(mux)
	server.EnableHTTP2 = true
	server.StartTLS()
	defer server.Close()

	check := func(name string, err error) {
		t.Helper()
		var connectErr *connect.Error
		if !errors.As(err, &connectErr) {
			t.Errorf("%s: expected a *connect.Error, got %v", name, err)
			return
		}
		if connectErr.Code() != connect.CodeNotFound {
			t.Errorf("%s: expected code not_found, got %v", name, connectErr.Code())
		}
		if got := connectErr.Meta().Values(key); len(got) != 1 || got[0] != value {
			t.Errorf("%s: property C02 expects the error's metadata to contain %s: %q as attached by the handler; observed %q under that key (and %q under %q)",
				name, key, value, got, connectErr.Meta().Values("Park"), "Park")
		}
	}
	for _, protocol := range []struct {
		name string
		opts []connect.ClientOption
	}{
		{"grpc", []connect.ClientOption{connect.WithGRPC()}},
		{"grpcweb", []connect.ClientOption{connect.WithGRPCWeb()}},
		{"connect", nil},
	} {
		streaming := connect.NewClient[pingv1.PingRequest, pingv1.PingResponse](server.Client(), server.URL+"/stream", protocol.opts...)
		stream, err := streaming.CallServerStream(context.Background(), connect.NewRequest(&pingv1.PingRequest{}))
		if err != nil {
			t.Fatalf("%s/stream: %v", protocol.name, err)
		}
		for stream.Receive() {
		}
		check(protocol.name+"/server-stream", stream.Err())
		_ = stream.Close()

		unary := connect.NewClient[pingv1.PingRequest, pingv1.PingResponse](server.Client(), server.URL+"/unary", protocol.opts...)
		_, err = unary.CallUnary(context.Background(), connect.NewRequest(&pingv1.PingRequest{}))
		check(protocol.name+"/unary", err)
	}
}
