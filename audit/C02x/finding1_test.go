package connect_test

import (
	"context"
	"errors"
	"net/http"
	"net/http/httptest"
	"testing"

	connect "github.com/bufbuild/connect-go"
	pingv1 "github.com/bufbuild/connect-go/internal/gen/connect/ping/v1"
)

// Property C02: the client's error carries "metadata containing every
// key/value the handler attached - in every protocol ... and RPC kind".
//
// A handler that rejects a call with CodeUnauthenticated and the usual
// WWW-Authenticate challenge (or Cache-Control, Authorization, Pragma, If-*...)
// in the error's metadata: with the gRPC protocol over HTTP/2 the pairs never
// reach the client. The gRPC handler conn sends all error metadata as HTTP
// trailers - also when no header has been written yet - and net/http silently
// drops trailer names that RFC 7230 4.1.2 forbids.
func TestAuditC02xFinding1(t *testing.T) {
	attached := http.Header{
		"Www-Authenticate": {`Bearer realm="api"`},
		"Cache-Control":    {"no-store"},
		"X-Control":        {"ok"}, // an ordinary key, to show the rest works
	}
	fail := func() error {
		err := connect.NewError(connect.CodeUnauthenticated, errors.New("token expired"))
		for key, values := range attached {
			for _, value := range values {
				err.Meta().Add(key, value)
			}
		}
		return err
	}
	mux := http.NewServeMux()
	mux.Handle("/unary", connect.NewUnaryHandler("/unary",
		func(context.Context, *connect.Request[pingv1.PingRequest]) (*connect.Response[pingv1.PingResponse], error) {
			return nil, fail()
		}))
	mux.Handle("/stream", connect.NewServerStreamHandler("/stream",
		func(_ context.Context, _ *connect.Request[pingv1.PingRequest], stream *connect.ServerStream[pingv1.PingResponse]) error {
			if err := stream.Send(&pingv1.PingResponse{Number: 1}); err != nil {
				return err
			}
			return fail()
		}))
	server := httptest.NewUnstartedServer(mux)
	server.EnableHTTP2 = true
	server.StartTLS()
	defer server.Close()

	check := func(name string, err error) {
		t.Helper()
		var connectErr *connect.Error
		if !errors.As(err, &connectErr) {
			t.Errorf("%s: expected a *connect.Error, got %v", name, err)
			return
		}
		if connectErr.Code() != connect.CodeUnauthenticated || connectErr.Message() != "token expired" {
			t.Errorf("%s: expected unauthenticated/%q, got %v/%q", name, "token expired", connectErr.Code(), connectErr.Message())
		}
		for key, values := range attached {
			for _, want := range values {
				found := false
				for _, got := range connectErr.Meta().Values(key) {
					found = found || got == want
				}
				if !found {
					t.Errorf("%s: property C02 expects the error's metadata to contain %s: %q as attached by the handler; observed values for that key: %q",
						name, key, want, connectErr.Meta().Values(key))
				}
			}
		}
	}
	for _, protocol := range []struct {
		name string
		opts []connect.ClientOption
	}{
		{"connect", nil},
		{"grpcweb", []connect.ClientOption{connect.WithGRPCWeb()}},
		{"grpc", []connect.ClientOption{connect.WithGRPC()}},
	} {
		unary := connect.NewClient[pingv1.PingRequest, pingv1.PingResponse](server.Client(), server.URL+"/unary", protocol.opts...)
		_, err := unary.CallUnary(context.Background(), connect.NewRequest(&pingv1.PingRequest{}))
		check(protocol.name+"/unary", err)

		streaming := connect.NewClient[pingv1.PingRequest, pingv1.PingResponse](server.Client(), server.URL+"/stream", protocol.opts...)
		stream, err := streaming.CallServerStream(context.Background(), connect.NewRequest(&pingv1.PingRequest{}))
		if err != nil {
			t.Fatalf("%s/stream: %v", protocol.name, err)
		}
		for stream.Receive() {
		}
		check(protocol.name+"/server-stream after 1 message", stream.Err())
		_ = stream.Close()
	}
}
