package connect_test

import (
	"bytes"
	"compress/gzip"
	"context"
	"encoding/binary"
	"io"
	"net/http"
	"net/http/httptest"
	"strings"
	"testing"

	connect "github.com/bufbuild/connect-go"
	pingv1 "github.com/bufbuild/connect-go/internal/gen/connect/ping/v1"
	"google.golang.org/protobuf/proto"
)

// C05, finding 7: when the request is compressed, the handler compresses the
// response with the same algorithm WITHOUT looking at the accept-encoding
// header. A peer that sends gzip but explicitly announces that it accepts only
// "identity" responses gets a gzip response, which it cannot decode (the gRPC
// compression spec has such a client fail with INTERNAL; Connect's
// Accept-Encoding is plain HTTP content negotiation).
func TestAuditC05aFinding7(t *testing.T) {
	const procedure = "/connect.ping.v1.PingService/Ping"
	server := httptest.NewServer(connect.NewUnaryHandler(
		procedure,
		func(_ context.Context, req *connect.Request[pingv1.PingRequest]) (*connect.Response[pingv1.PingResponse], error) {
			return connect.NewResponse(&pingv1.PingResponse{Text: req.Msg.Text}), nil
		},
	))
	defer server.Close()
	msg, err := proto.Marshal(&pingv1.PingRequest{Text: strings.Repeat("a", 1000)})
	if err != nil {
		t.Fatal(err)
	}
	var gzipped bytes.Buffer
	gzipWriter := gzip.NewWriter(&gzipped)
	_, _ = gzipWriter.Write(msg)
	_ = gzipWriter.Close()
	frame := make([]byte, 5, 5+gzipped.Len())
	frame[0] = 1 // compressed
	binary.BigEndian.PutUint32(frame[1:], uint32(gzipped.Len()))
	frame = append(frame, gzipped.Bytes()...)

	post := func(t *testing.T, contentType string, header map[string]string, body []byte) (*http.Response, []byte) {
		t.Helper()
		req, err := http.NewRequest(http.MethodPost, server.URL+procedure, bytes.NewReader(body))
		if err != nil {
			t.Fatal(err)
		}
		req.Header.Set("Content-Type", contentType)
		for key, value := range header {
			req.Header.Set(key, value)
		}
		res, err := (&http.Transport{DisableCompression: true}).RoundTrip(req)
		if err != nil {
			t.Fatal(err)
		}
		defer res.Body.Close()
		data, err := io.ReadAll(res.Body)
		if err != nil {
			t.Fatal(err)
		}
		return res, data
	}

	t.Run("connect_unary", func(t *testing.T) {
		res, body := post(t, "application/proto",
			map[string]string{"Content-Encoding": "gzip", "Accept-Encoding": "identity"},
			gzipped.Bytes())
		if res.StatusCode != http.StatusOK {
			t.Fatalf("HTTP %d: %q", res.StatusCode, body)
		}
		if got := res.Header.Get("Content-Encoding"); got != "" && got != "identity" {
			t.Fatalf("C05 violated: the peer sent Accept-Encoding: identity, so a decodable response is "+
				"uncompressed (no Content-Encoding, or identity); observed Content-Encoding: %q", got)
		}
	})
	t.Run("grpc", func(t *testing.T) {
		res, body := post(t, "application/grpc+proto",
			map[string]string{"Grpc-Encoding": "gzip", "Grpc-Accept-Encoding": "identity", "Te": "trailers"},
			frame)
		if res.StatusCode != http.StatusOK || len(body) < 5 {
			t.Fatalf("HTTP %d: %q", res.StatusCode, body)
		}
		encoding := res.Header.Get("Grpc-Encoding")
		if (encoding != "" && encoding != "identity") || body[0]&1 != 0 {
			t.Fatalf("C05 violated: the peer sent grpc-accept-encoding: identity, so a decodable response has "+
				"no grpc-encoding (or identity) and an unset compressed flag; observed Grpc-Encoding: %q, "+
				"first message flags %#x", encoding, body[0])
		}
	})
}
