package connect_test

import (
	"bytes"
	"compress/gzip"
	"context"
	"encoding/binary"
	"io"
	"net/http"
	"net/http/httptest"
	"testing"

	connect "github.com/bufbuild/connect-go"
	pingv1 "github.com/bufbuild/connect-go/internal/gen/connect/ping/v1"
	"google.golang.org/protobuf/proto"
)

// C05, finding 6: the handler matches the request's media type and content
// coding with exact, case-sensitive string comparison. Both are
// case-insensitive tokens: the protocols' grammars are ABNF (RFC 5234: literal
// strings are case-insensitive), RFC 9110 section 8.3.1 says media types are
// case-insensitive and section 8.4.1 says "all content codings are
// case-insensitive". A conformant peer that spells them with a different legal
// casing is turned away (HTTP 415 / "unimplemented: unknown compression").
func TestAuditC05aFinding6(t *testing.T) {
	const procedure = "/connect.ping.v1.PingService/Ping"
	handler := connect.NewUnaryHandler(
		procedure,
		func(_ context.Context, req *connect.Request[pingv1.PingRequest]) (*connect.Response[pingv1.PingResponse], error) {
			return connect.NewResponse(&pingv1.PingResponse{Text: req.Msg.Text}), nil
		},
	)
	server := httptest.NewServer(handler)
	defer server.Close()
	msg, err := proto.Marshal(&pingv1.PingRequest{Text: "hi"})
	if err != nil {
		t.Fatal(err)
	}
	frame := make([]byte, 5, 5+len(msg))
	binary.BigEndian.PutUint32(frame[1:], uint32(len(msg)))
	frame = append(frame, msg...)
	var gzipped bytes.Buffer
	gzipWriter := gzip.NewWriter(&gzipped)
	_, _ = gzipWriter.Write(msg)
	_ = gzipWriter.Close()

	cases := []struct {
		name        string
		contentType string
		header      map[string]string
		body        []byte
	}{
		{"control_lowercase", "application/proto", nil, msg},
		{"connect_media_type_casing", "Application/Proto", nil, msg},
		{"grpc_media_type_casing", "Application/gRPC", nil, frame},
		{"grpc_web_media_type_casing", "application/grpc-web+PROTO", nil, frame},
		{"connect_content_coding_casing", "application/proto", map[string]string{"Content-Encoding": "GZIP"}, gzipped.Bytes()},
	}
	for _, testCase := range cases {
		testCase := testCase
		t.Run(testCase.name, func(t *testing.T) {
			req, err := http.NewRequest(http.MethodPost, server.URL+procedure, bytes.NewReader(testCase.body))
			if err != nil {
				t.Fatal(err)
			}
			req.Header.Set("Content-Type", testCase.contentType)
			req.Header.Set("Accept-Encoding", "identity")
			for key, value := range testCase.header {
				req.Header.Set(key, value)
			}
			res, err := (&http.Transport{DisableCompression: true}).RoundTrip(req)
			if err != nil {
				t.Fatal(err)
			}
			defer res.Body.Close()
			body, _ := io.ReadAll(res.Body)
			if res.StatusCode != http.StatusOK {
				t.Fatalf("C05 violated: a conformant request (Content-Type %q, headers %v) must be accepted and decoded "+
					"(expected HTTP 200 with the echoed message); observed HTTP %d, body %q",
					testCase.contentType, testCase.header, res.StatusCode, body)
			}
			if status := res.Header.Get("Grpc-Status"); status != "" && status != "0" {
				t.Fatalf("C05 violated: conformant request rejected with grpc-status %s", status)
			}
		})
	}
}
