package connect_test

import (
	"bytes"
	"context"
	"encoding/binary"
	"errors"
	"io"
	"net/http"
	"net/http/httptest"
	"net/url"
	"testing"

	connect "github.com/bufbuild/connect-go"
	pingv1 "github.com/bufbuild/connect-go/internal/gen/connect/ping/v1"
	"google.golang.org/protobuf/proto"
)

// C05, finding 9: grpc-message is written with leading and trailing spaces
// left as literal spaces. HTTP field values can't carry leading or trailing
// whitespace (RFC 9110 section 5.5: it is stripped when the field is parsed),
// so a peer that reads the status message from grpc-message - the only place
// the gRPC specification defines for it - gets a different message than the
// one the application supplied. Percent-encoding those spaces (which the
// gRPC grammar permits for any byte) would preserve them.
func TestAuditC05aFinding9(t *testing.T) {
	const (
		procedure = "/connect.ping.v1.PingService/Ping"
		message   = "  see section 2  "
	)
	server := httptest.NewServer(connect.NewUnaryHandler(
		procedure,
		func(context.Context, *connect.Request[pingv1.PingRequest]) (*connect.Response[pingv1.PingResponse], error) {
			return nil, connect.NewError(connect.CodeInternal, errors.New(message))
		},
	))
	defer server.Close()
	msg, err := proto.Marshal(&pingv1.PingRequest{Text: "hi"})
	if err != nil {
		t.Fatal(err)
	}
	frame := make([]byte, 5, 5+len(msg))
	binary.BigEndian.PutUint32(frame[1:], uint32(len(msg)))
	frame = append(frame, msg...)
	req, err := http.NewRequest(http.MethodPost, server.URL+procedure, bytes.NewReader(frame))
	if err != nil {
		t.Fatal(err)
	}
	req.Header.Set("Content-Type", "application/grpc+proto")
	req.Header.Set("Te", "trailers")
	res, err := (&http.Transport{DisableCompression: true}).RoundTrip(req)
	if err != nil {
		t.Fatal(err)
	}
	defer res.Body.Close()
	if _, err := io.ReadAll(res.Body); err != nil {
		t.Fatal(err)
	}
	if got := res.Trailer.Get("Grpc-Status"); got != "13" {
		t.Fatalf("expected grpc-status 13 in the HTTP trailers, got %q (trailers %v)", got, res.Trailer)
	}
	raw := res.Trailer.Get("Grpc-Message")
	decoded, err := url.PathUnescape(raw) // percent-decoding per the gRPC spec
	if err != nil {
		t.Fatal(err)
	}
	if decoded != message {
		t.Fatalf("C05 violated: the status message decoded from grpc-message must be the one the application "+
			"supplied (expected %q); observed %q (raw trailer value %q)", message, decoded, raw)
	}
}
