package connect_test

import (
	"bytes"
	"context"
	"io"
	"net/http"
	"net/http/httptest"
	"strings"
	"testing"

	connect "github.com/bufbuild/connect-go"
	pingv1 "github.com/bufbuild/connect-go/internal/gen/connect/ping/v1"
	"google.golang.org/protobuf/proto"
)

// C05, finding 4: a unary handler copies every entry of the application's
// Response.Header() onto the wire, including protocol headers. The
// *connect.Response returned by this library's own client carries the upstream
// call's protocol headers (Content-Type, Content-Encoding, Content-Length,
// Grpc-Encoding, ...), so the most natural gateway handler -
//
//	return upstreamClient.CallUnary(ctx, connect.NewRequest(req.Msg))
//
// - produces a response that no spec-following client can decode: the upstream
// Content-Length/Content-Encoding describe a different body, and Content-Type
// no longer echoes the request's.
func TestAuditC05aFinding4(t *testing.T) {
	const procedure = "/connect.ping.v1.PingService/Ping"
	upstream := httptest.NewServer(connect.NewUnaryHandler(
		procedure,
		func(_ context.Context, req *connect.Request[pingv1.PingRequest]) (*connect.Response[pingv1.PingResponse], error) {
			return connect.NewResponse(&pingv1.PingResponse{Text: req.Msg.Text}), nil
		},
	))
	defer upstream.Close()
	upstreamClient := connect.NewClient[pingv1.PingRequest, pingv1.PingResponse](
		upstream.Client(), upstream.URL+procedure, // Connect protocol, accepts gzip
	)
	gateway := httptest.NewServer(connect.NewUnaryHandler(
		procedure,
		func(ctx context.Context, req *connect.Request[pingv1.PingRequest]) (*connect.Response[pingv1.PingResponse], error) {
			return upstreamClient.CallUnary(ctx, connect.NewRequest(req.Msg))
		},
	))
	defer gateway.Close()

	text := strings.Repeat("a", 1000)
	body, err := proto.Marshal(&pingv1.PingRequest{Text: text})
	if err != nil {
		t.Fatal(err)
	}
	// An independent Connect client that accepts only identity.
	req, err := http.NewRequest(http.MethodPost, gateway.URL+procedure, bytes.NewReader(body))
	if err != nil {
		t.Fatal(err)
	}
	req.Header.Set("Content-Type", "application/proto")
	req.Header.Set("Accept-Encoding", "identity")
	res, err := (&http.Transport{DisableCompression: true}).RoundTrip(req)
	if err != nil {
		t.Fatal(err)
	}
	defer res.Body.Close()
	data, readErr := io.ReadAll(res.Body)
	t.Logf("status=%d header=%v bodylen=%d readErr=%v", res.StatusCode, res.Header, len(data), readErr)

	if got := res.Header.Values("Content-Type"); len(got) != 1 || got[0] != "application/proto" {
		t.Errorf("C05 violated: the response Content-Type must echo the request's "+
			"(expected exactly [application/proto]); observed %q", got)
	}
	if got := res.Header.Get("Content-Encoding"); got != "" && got != "identity" {
		t.Errorf("C05 violated: the client accepts only identity, and the handler configured for this response "+
			"didn't compress it, so no Content-Encoding is expected; observed Content-Encoding: %q", got)
	}
	if readErr != nil {
		t.Fatalf("C05 violated: the response body must be readable and decode to the message the application "+
			"returned; observed read error %v after %d bytes (Content-Length header: %q)",
			readErr, len(data), res.Header.Get("Content-Length"))
	}
	var msg pingv1.PingResponse
	if err := proto.Unmarshal(data, &msg); err != nil || msg.Text != text {
		t.Fatalf("C05 violated: expected the body to be the uncompressed PingResponse the application returned; "+
			"observed %d bytes, unmarshal error %v", len(data), err)
	}
}
