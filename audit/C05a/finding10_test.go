package connect_test

import (
	"bytes"
	"context"
	"encoding/binary"
	"errors"
	"io"
	"net/http"
	"net/http/httptest"
	"testing"

	connect "github.com/bufbuild/connect-go"
	pingv1 "github.com/bufbuild/connect-go/internal/gen/connect/ping/v1"
	"google.golang.org/protobuf/proto"
)

// C05, finding 10: a handler returns a non-nil error whose code is the zero
// Code (connect.NewError(0, err), or an *Error obtained by other means that
// never had a code set). Over gRPC and gRPC-Web the response says
// "grpc-status: 0", i.e. success, although it carries no response message and
// the application reported a failure; the peer can't learn that the call
// failed the way the application said. (Over Connect the same error is sent as
// HTTP 500 with code "code_0", so it is at least an error there.)
func TestAuditC05aFinding10(t *testing.T) {
	const procedure = "/connect.ping.v1.PingService/Ping"
	server := httptest.NewServer(connect.NewUnaryHandler(
		procedure,
		func(context.Context, *connect.Request[pingv1.PingRequest]) (*connect.Response[pingv1.PingResponse], error) {
			return nil, connect.NewError(0, errors.New("boom"))
		},
	))
	defer server.Close()
	msg, err := proto.Marshal(&pingv1.PingRequest{Text: "hi"})
	if err != nil {
		t.Fatal(err)
	}
	frame := make([]byte, 5, 5+len(msg))
	binary.BigEndian.PutUint32(frame[1:], uint32(len(msg)))
	frame = append(frame, msg...)
	for _, contentType := range []string{"application/grpc+proto", "application/grpc-web+proto"} {
		contentType := contentType
		t.Run(contentType, func(t *testing.T) {
			req, err := http.NewRequest(http.MethodPost, server.URL+procedure, bytes.NewReader(frame))
			if err != nil {
				t.Fatal(err)
			}
			req.Header.Set("Content-Type", contentType)
			req.Header.Set("Te", "trailers")
			res, err := (&http.Transport{DisableCompression: true}).RoundTrip(req)
			if err != nil {
				t.Fatal(err)
			}
			defer res.Body.Close()
			body, err := io.ReadAll(res.Body)
			if err != nil {
				t.Fatal(err)
			}
			status := res.Trailer.Get("Grpc-Status")
			if status == "" {
				status = res.Header.Get("Grpc-Status") // body-less gRPC-Web response
			}
			if status == "0" {
				t.Fatalf("C05 violated: the handler returned a non-nil error, so the decoded status must be an "+
					"error (expected a non-zero grpc-status, e.g. 2/unknown); observed grpc-status %q with "+
					"grpc-message %q and %d body bytes - a successful call without a response message",
					status, res.Trailer.Get("Grpc-Message")+res.Header.Get("Grpc-Message"), len(body))
			}
		})
	}
}
