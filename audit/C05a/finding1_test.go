package connect_test

import (
	"bytes"
	"context"
	"encoding/binary"
	"encoding/json"
	"errors"
	"io"
	"net/http"
	"net/http/httptest"
	"testing"

	connect "github.com/bufbuild/connect-go"
	pingv1 "github.com/bufbuild/connect-go/internal/gen/connect/ping/v1"
	"google.golang.org/protobuf/proto"
	"google.golang.org/protobuf/types/known/anypb"
)

// C05, finding 1: a handler returns an error carrying a detail whose message
// type is not linked into the server binary (for example a detail received
// from another service and passed on). Over gRPC the error is sent; over the
// Connect protocol the error can't be serialized, and
//   - a unary response is an error HTTP status with an EMPTY body (not JSON),
//   - a streaming response ends WITHOUT any end-of-stream envelope.
func TestAuditC05aFinding1(t *testing.T) {
	newErr := func() error {
		err := connect.NewError(connect.CodeAborted, errors.New("boom"))
		err.AddDetail(&anypb.Any{
			TypeUrl: "type.googleapis.com/acme.user.v1.NotLinkedIn",
			Value:   []byte{0x08, 0x01},
		})
		return err
	}
	const procedure = "/connect.ping.v1.PingService/Ping"
	request, err := proto.Marshal(&pingv1.PingRequest{Text: "hi"})
	if err != nil {
		t.Fatal(err)
	}
	post := func(t *testing.T, handler http.Handler, contentType string, body []byte) (*http.Response, []byte) {
		t.Helper()
		server := httptest.NewServer(handler)
		t.Cleanup(server.Close)
		req, err := http.NewRequest(http.MethodPost, server.URL+procedure, bytes.NewReader(body))
		if err != nil {
			t.Fatal(err)
		}
		req.Header.Set("Content-Type", contentType)
		res, err := server.Client().Do(req)
		if err != nil {
			t.Fatal(err)
		}
		defer res.Body.Close()
		data, err := io.ReadAll(res.Body)
		if err != nil {
			t.Fatal(err)
		}
		return res, data
	}
	envelope := func(flags byte, data []byte) []byte {
		out := make([]byte, 5, 5+len(data))
		out[0] = flags
		binary.BigEndian.PutUint32(out[1:], uint32(len(data)))
		return append(out, data...)
	}

	t.Run("unary", func(t *testing.T) {
		handler := connect.NewUnaryHandler(
			procedure,
			func(context.Context, *connect.Request[pingv1.PingRequest]) (*connect.Response[pingv1.PingResponse], error) {
				return nil, newErr()
			},
		)
		res, body := post(t, handler, "application/proto", request)
		var wire struct {
			Code    string `json:"code"`
			Message string `json:"message"`
		}
		if err := json.Unmarshal(body, &wire); err != nil {
			t.Fatalf("C05 violated: a unary Connect error must be a JSON body under the code's HTTP status "+
				"(expected HTTP 409 with {\"code\":\"aborted\",\"message\":\"boom\",...}); "+
				"observed HTTP %d with body %q, which is not JSON: %v", res.StatusCode, body, err)
		}
		if wire.Code != "aborted" || wire.Message != "boom" {
			t.Fatalf("C05 violated: expected code=aborted message=boom, observed %+v", wire)
		}
	})

	t.Run("server_stream", func(t *testing.T) {
		handler := connect.NewServerStreamHandler(
			procedure,
			func(_ context.Context, _ *connect.Request[pingv1.PingRequest], stream *connect.ServerStream[pingv1.PingResponse]) error {
				if err := stream.Send(&pingv1.PingResponse{Text: "one"}); err != nil {
					return err
				}
				return newErr()
			},
		)
		res, body := post(t, handler, "application/connect+proto", envelope(0, request))
		if res.StatusCode != http.StatusOK {
			t.Fatalf("expected HTTP 200, got %d", res.StatusCode)
		}
		// Strict decoding of the envelope stream.
		var endStreams, messages int
		rest := body
		for len(rest) > 0 {
			if len(rest) < 5 {
				t.Fatalf("truncated envelope prefix: %q", rest)
			}
			size := int(binary.BigEndian.Uint32(rest[1:5]))
			if len(rest) < 5+size {
				t.Fatalf("truncated envelope: %q", rest)
			}
			if rest[0]&0b10 != 0 {
				endStreams++
			} else {
				messages++
			}
			rest = rest[5+size:]
		}
		if endStreams != 1 {
			t.Fatalf("C05 violated: a Connect stream must end with exactly one end-of-stream envelope carrying the error "+
				"(expected 1 message envelope then 1 end-of-stream envelope with code aborted); "+
				"observed %d message envelope(s) and %d end-of-stream envelope(s); body=%q",
				messages, endStreams, body)
		}
	})

	// For contrast (passes): the same error is sent fine over gRPC-Web.
	t.Run("grpc_web_control", func(t *testing.T) {
		handler := connect.NewUnaryHandler(
			procedure,
			func(context.Context, *connect.Request[pingv1.PingRequest]) (*connect.Response[pingv1.PingResponse], error) {
				return nil, newErr()
			},
		)
		res, _ := post(t, handler, "application/grpc-web+proto", envelope(0, request))
		if got := res.Header.Get("Grpc-Status"); got != "10" {
			t.Fatalf("expected grpc-status 10, got %q", got)
		}
	})
}
