package connect_test

import (
	"bytes"
	"context"
	"encoding/binary"
	"errors"
	"io"
	"net/http"
	"net/http/httptest"
	"strings"
	"testing"

	connect "github.com/bufbuild/connect-go"
	pingv1 "github.com/bufbuild/connect-go/internal/gen/connect/ping/v1"
	"google.golang.org/protobuf/proto"
)

// C05, finding 5: the metadata of an error returned by a handler is merged
// onto the wire unfiltered. Every error returned by this library's own client
// has Meta() = all HTTP headers (and trailers) of the upstream response,
// including Content-Type and Content-Length. A handler that simply returns
// such an error (the usual way to propagate a failure in a gateway) therefore
// writes, for a gRPC-Web caller, a "trailers-only" response with TWO
// Content-Type values and a Content-Length that promises a body which is never
// sent.
func TestAuditC05aFinding5(t *testing.T) {
	const procedure = "/connect.ping.v1.PingService/Ping"
	upstream := httptest.NewServer(connect.NewUnaryHandler(
		procedure,
		func(context.Context, *connect.Request[pingv1.PingRequest]) (*connect.Response[pingv1.PingResponse], error) {
			return nil, connect.NewError(connect.CodeResourceExhausted, errors.New("quota exceeded"))
		},
	))
	defer upstream.Close()
	upstreamClient := connect.NewClient[pingv1.PingRequest, pingv1.PingResponse](
		upstream.Client(), upstream.URL+procedure, // Connect protocol
	)
	gateway := httptest.NewServer(connect.NewUnaryHandler(
		procedure,
		func(ctx context.Context, req *connect.Request[pingv1.PingRequest]) (*connect.Response[pingv1.PingResponse], error) {
			res, err := upstreamClient.CallUnary(ctx, connect.NewRequest(req.Msg))
			if err != nil {
				return nil, err // propagate the upstream failure
			}
			return connect.NewResponse(res.Msg), nil
		},
	))
	defer gateway.Close()

	msg, err := proto.Marshal(&pingv1.PingRequest{Text: "hi"})
	if err != nil {
		t.Fatal(err)
	}
	frame := make([]byte, 5, 5+len(msg))
	binary.BigEndian.PutUint32(frame[1:], uint32(len(msg)))
	frame = append(frame, msg...)
	req, err := http.NewRequest(http.MethodPost, gateway.URL+procedure, bytes.NewReader(frame))
	if err != nil {
		t.Fatal(err)
	}
	req.Header.Set("Content-Type", "application/grpc-web+proto")
	res, err := (&http.Transport{DisableCompression: true}).RoundTrip(req)
	if err != nil {
		t.Fatal(err)
	}
	defer res.Body.Close()
	data, readErr := io.ReadAll(res.Body)
	t.Logf("status=%d header=%v bodylen=%d readErr=%v", res.StatusCode, res.Header, len(data), readErr)

	if got := res.Header.Get("Grpc-Status"); got != "8" {
		t.Fatalf("expected a trailers-only response with grpc-status 8, got %q", got)
	}
	if got := res.Header.Values("Content-Type"); len(got) != 1 || got[0] != "application/grpc-web+proto" {
		t.Errorf("C05 violated: the response Content-Type must echo the request's "+
			"(expected exactly [application/grpc-web+proto]); observed [%s]", strings.Join(got, ", "))
	}
	if readErr != nil {
		t.Errorf("C05 violated: the response must be a well-formed body-less gRPC-Web response; "+
			"observed Content-Length: %s but %d body bytes, so reading the body fails with: %v",
			res.Header.Get("Content-Length"), len(data), readErr)
	}
}
