package connect_test

import (
	"context"
	"encoding/binary"
	"errors"
	"net/http"
	"net/http/httptest"
	"strings"
	"testing"

	connect "github.com/bufbuild/connect-go"
	pingv1 "github.com/bufbuild/connect-go/internal/gen/connect/ping/v1"
)

// C05, finding 2: a conformant Connect server answers with an error that
// carries a detail whose message type is not linked into the client binary.
// The client can't decode the detail and therefore throws away the WHOLE
// error: for unary calls the code and message are replaced by ones derived
// from the HTTP status, for streaming calls the call fails with "internal".
func TestAuditC05aFinding2(t *testing.T) {
	// The error JSON in the format this very library writes for details
	// (protojson Any), with a type the client doesn't know.
	const wireError = `{"code":"aborted","message":"boom","details":[` +
		`{"@type":"type.googleapis.com/acme.user.v1.NotLinkedIn","id":"1"}]}`
	peer := httptest.NewServer(http.HandlerFunc(func(w http.ResponseWriter, r *http.Request) {
		contentType := r.Header.Get("Content-Type")
		if strings.HasPrefix(contentType, "application/connect+") {
			w.Header().Set("Content-Type", contentType)
			w.WriteHeader(http.StatusOK)
			payload := []byte(`{"error":` + wireError + `}`)
			prefix := [5]byte{0b10}
			binary.BigEndian.PutUint32(prefix[1:], uint32(len(payload)))
			_, _ = w.Write(prefix[:])
			_, _ = w.Write(payload)
			return
		}
		w.Header().Set("Content-Type", "application/json")
		w.WriteHeader(http.StatusConflict) // aborted
		_, _ = w.Write([]byte(wireError))
	}))
	defer peer.Close()
	client := connect.NewClient[pingv1.PingRequest, pingv1.PingResponse](
		peer.Client(),
		peer.URL+"/connect.ping.v1.PingService/Ping",
	)
	check := func(t *testing.T, err error) {
		t.Helper()
		var connectErr *connect.Error
		if !errors.As(err, &connectErr) {
			t.Fatalf("expected a *connect.Error, got %v", err)
		}
		if connectErr.Code() != connect.CodeAborted || connectErr.Message() != "boom" {
			t.Fatalf("C05 violated: a conformant error response must decode to the values the peer sent "+
				"(expected code=aborted message=%q); observed code=%v message=%q",
				"boom", connectErr.Code(), connectErr.Message())
		}
	}
	t.Run("unary", func(t *testing.T) {
		_, err := client.CallUnary(context.Background(), connect.NewRequest(&pingv1.PingRequest{}))
		check(t, err)
	})
	t.Run("server_stream", func(t *testing.T) {
		stream, err := client.CallServerStream(context.Background(), connect.NewRequest(&pingv1.PingRequest{}))
		if err != nil {
			t.Fatal(err)
		}
		defer stream.Close()
		for stream.Receive() {
		}
		check(t, stream.Err())
	})
}
