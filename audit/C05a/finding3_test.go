package connect_test

import (
	"bytes"
	"compress/gzip"
	"context"
	"io"
	"net/http"
	"net/http/httptest"
	"strings"
	"sync"
	"testing"

	connect "github.com/bufbuild/connect-go"
	pingv1 "github.com/bufbuild/connect-go/internal/gen/connect/ping/v1"
	"google.golang.org/protobuf/proto"
)

// C05, finding 3: the unary Connect client writes "Content-Encoding: gzip" into
// the caller's Request.Header() when it compresses a request, and never removes
// it. If the same *Request is sent again (a retry loop) with a message that is
// now below the compression threshold, the body goes out UNCOMPRESSED but is
// still labelled Content-Encoding: gzip, so no spec-following server can decode
// it. (The neighbouring per-call header Connect-Timeout-Ms is already cleared
// for exactly this reason.)
func TestAuditC05aFinding3(t *testing.T) {
	type observed struct {
		encoding string
		body     []byte
	}
	var (
		mu   sync.Mutex
		seen []observed
	)
	// An independent, strict decoder of unary Connect requests.
	peer := httptest.NewServer(http.HandlerFunc(func(w http.ResponseWriter, r *http.Request) {
		body, _ := io.ReadAll(r.Body)
		mu.Lock()
		seen = append(seen, observed{encoding: r.Header.Get("Content-Encoding"), body: body})
		mu.Unlock()
		w.Header().Set("Content-Type", r.Header.Get("Content-Type"))
		out, _ := proto.Marshal(&pingv1.PingResponse{})
		_, _ = w.Write(out)
	}))
	defer peer.Close()
	client := connect.NewClient[pingv1.PingRequest, pingv1.PingResponse](
		peer.Client(),
		peer.URL+"/connect.ping.v1.PingService/Ping",
		connect.WithSendGzip(),
		connect.WithCompressMinBytes(256),
	)
	request := connect.NewRequest(&pingv1.PingRequest{Text: strings.Repeat("a", 1000)})
	if _, err := client.CallUnary(context.Background(), request); err != nil {
		t.Fatal(err)
	}
	request.Msg.Text = "small" // below WithCompressMinBytes: sent uncompressed
	if _, err := client.CallUnary(context.Background(), request); err != nil {
		t.Fatal(err)
	}
	if len(seen) != 2 {
		t.Fatalf("expected 2 requests, saw %d", len(seen))
	}
	for i, req := range seen {
		payload := req.body
		if req.encoding != "" && req.encoding != "identity" {
			if req.encoding != "gzip" {
				t.Fatalf("request %d: unexpected Content-Encoding %q", i, req.encoding)
			}
			reader, err := gzip.NewReader(bytes.NewReader(req.body))
			if err != nil {
				t.Fatalf("C05 violated: request %d is labelled Content-Encoding: %s, so its body must be gzip data "+
					"decoding to the message the application supplied; observed body %q, which is not gzip (%v)",
					i, req.encoding, req.body, err)
			}
			if payload, err = io.ReadAll(reader); err != nil {
				t.Fatalf("request %d: gunzip: %v", i, err)
			}
		}
		var msg pingv1.PingRequest
		if err := proto.Unmarshal(payload, &msg); err != nil {
			t.Fatalf("request %d: unmarshal: %v", i, err)
		}
	}
}
