package connect_test

import (
	"bytes"
	"context"
	"encoding/binary"
	"io"
	"net/http"
	"net/http/httptest"
	"testing"

	connect "github.com/bufbuild/connect-go"
	pingv1 "github.com/bufbuild/connect-go/internal/gen/connect/ping/v1"
	"google.golang.org/protobuf/proto"
)

// C05, finding 8: when the client names a compression algorithm the handler
// doesn't know, the handler reports "unimplemented" - but the response that
// carries the error has an encoding header with an EMPTY value
// ("Grpc-Encoding:" / "Connect-Content-Encoding:"). The grammar of both headers
// requires a content-coding token; an empty value names no algorithm and is
// rejected by a strictly spec-following peer.
func TestAuditC05aFinding8(t *testing.T) {
	const procedure = "/connect.ping.v1.PingService/CountUp"
	server := httptest.NewServer(connect.NewServerStreamHandler(
		procedure,
		func(_ context.Context, _ *connect.Request[pingv1.CountUpRequest], stream *connect.ServerStream[pingv1.CountUpResponse]) error {
			return stream.Send(&pingv1.CountUpResponse{Number: 1})
		},
	))
	defer server.Close()
	msg, err := proto.Marshal(&pingv1.CountUpRequest{Number: 1})
	if err != nil {
		t.Fatal(err)
	}
	frame := make([]byte, 5, 5+len(msg))
	binary.BigEndian.PutUint32(frame[1:], uint32(len(msg)))
	frame = append(frame, msg...)
	cases := []struct {
		name, contentType, sendHeader, responseHeader string
	}{
		{"grpc", "application/grpc+proto", "Grpc-Encoding", "Grpc-Encoding"},
		{"grpc_web", "application/grpc-web+proto", "Grpc-Encoding", "Grpc-Encoding"},
		{"connect_stream", "application/connect+proto", "Connect-Content-Encoding", "Connect-Content-Encoding"},
	}
	for _, testCase := range cases {
		testCase := testCase
		t.Run(testCase.name, func(t *testing.T) {
			req, err := http.NewRequest(http.MethodPost, server.URL+procedure, bytes.NewReader(frame))
			if err != nil {
				t.Fatal(err)
			}
			req.Header.Set("Content-Type", testCase.contentType)
			req.Header.Set(testCase.sendHeader, "br") // not supported by the handler
			res, err := (&http.Transport{DisableCompression: true}).RoundTrip(req)
			if err != nil {
				t.Fatal(err)
			}
			defer res.Body.Close()
			body, _ := io.ReadAll(res.Body)
			if res.StatusCode != http.StatusOK {
				t.Fatalf("HTTP %d: %q", res.StatusCode, body)
			}
			values, present := res.Header[testCase.responseHeader]
			if present {
				for _, value := range values {
					if value == "" {
						t.Fatalf("C05 violated: an encoding header, if present, must name an algorithm "+
							"(expected no %s header, or \"identity\", on this uncompressed error response); "+
							"observed %s: %q", testCase.responseHeader, testCase.responseHeader, values)
					}
				}
			}
		})
	}
}
