package connect_test

import (
	"bytes"
	"compress/gzip"
	"context"
	"encoding/binary"
	"io"
	"net/http"
	"net/http/httptest"
	"strings"
	"testing"

	connect "github.com/bufbuild/connect-go"
	pingv1 "github.com/bufbuild/connect-go/internal/gen/connect/ping/v1"
	"google.golang.org/protobuf/proto"
)

// Property C08: "A handler compresses responses only with an algorithm it
// supports and that the client either used for its request or advertised,
// preferring the client's most-preferred mutually supported one".
//
// The handler supports "alt" and "gzip". The client compresses its request
// with gzip and advertises "alt,gzip" (alt most preferred). Both algorithms
// are mutually supported, so the response should be compressed with "alt".
// The handler ignores the client's preference list altogether whenever the
// request names a compression it knows, and answers with gzip.
func TestAuditC08xFinding1(t *testing.T) {
	t.Parallel()
	const (
		unaryProc  = "/audit.v1.Svc/Unary"
		streamProc = "/audit.v1.Svc/Stream"
	)
	// "alt" is a second, distinctly named algorithm (gzip underneath: only the
	// name matters for negotiation).
	withAlt := connect.WithCompression(
		"alt",
		func() connect.Decompressor { return &gzip.Reader{} },
		func() connect.Compressor { return gzip.NewWriter(io.Discard) },
	)
	mux := http.NewServeMux()
	mux.Handle(unaryProc, connect.NewUnaryHandler(
		unaryProc,
		func(_ context.Context, r *connect.Request[pingv1.PingRequest]) (*connect.Response[pingv1.PingResponse], error) {
			return connect.NewResponse(&pingv1.PingResponse{Text: r.Msg.Text}), nil
		},
		withAlt,
	))
	mux.Handle(streamProc, connect.NewServerStreamHandler(
		streamProc,
		func(_ context.Context, r *connect.Request[pingv1.PingRequest], s *connect.ServerStream[pingv1.PingResponse]) error {
			return s.Send(&pingv1.PingResponse{Text: r.Msg.Text})
		},
		withAlt,
	))
	server := httptest.NewServer(mux)
	t.Cleanup(server.Close)

	raw, err := proto.Marshal(&pingv1.PingRequest{Text: strings.Repeat("compress me ", 50)})
	if err != nil {
		t.Fatal(err)
	}
	var gzipped bytes.Buffer
	zw := gzip.NewWriter(&gzipped)
	_, _ = zw.Write(raw)
	_ = zw.Close()
	enveloped := make([]byte, 5, 5+gzipped.Len())
	enveloped[0] = 1 // compressed
	binary.BigEndian.PutUint32(enveloped[1:], uint32(gzipped.Len()))
	enveloped = append(enveloped, gzipped.Bytes()...)

	cases := []struct {
		name, proc, contentType  string
		sentHeader, acceptHeader string
		body                     []byte
	}{
		{"connect_unary", unaryProc, "application/proto", "Content-Encoding", "Accept-Encoding", gzipped.Bytes()},
		{"connect_streaming", streamProc, "application/connect+proto", "Connect-Content-Encoding", "Connect-Accept-Encoding", enveloped},
		{"grpc", unaryProc, "application/grpc+proto", "Grpc-Encoding", "Grpc-Accept-Encoding", enveloped},
		{"grpc_web", unaryProc, "application/grpc-web+proto", "Grpc-Encoding", "Grpc-Accept-Encoding", enveloped},
	}
	for _, tc := range cases {
		tc := tc
		t.Run("raw_"+tc.name, func(t *testing.T) {
			req, err := http.NewRequest(http.MethodPost, server.URL+tc.proc, bytes.NewReader(tc.body))
			if err != nil {
				t.Fatal(err)
			}
			req.Header.Set("Content-Type", tc.contentType)
			req.Header.Set(tc.sentHeader, "gzip")       // used for the request
			req.Header.Set(tc.acceptHeader, "alt,gzip") // advertised, most preferred first
			res, err := server.Client().Do(req)
			if err != nil {
				t.Fatal(err)
			}
			defer res.Body.Close()
			body, _ := io.ReadAll(res.Body)
			if res.StatusCode != http.StatusOK {
				t.Fatalf("unexpected HTTP status %d: %s", res.StatusCode, body)
			}
			got := res.Header.Get(tc.sentHeader)
			if got != "alt" {
				t.Errorf("%s: handler supports [alt gzip]; client sent gzip and advertised %q (most preferred first): "+
					"property expects the response compressed with the client's most-preferred mutually supported algorithm \"alt\", "+
					"observed response header %s: %q",
					tc.name, "alt,gzip", tc.sentHeader, got)
			}
		})
	}

	// The same through the public client API: the last registered algorithm is
	// documented as the client's most preferred one.
	t.Run("client_api_connect_unary", func(t *testing.T) {
		client := connect.NewClient[pingv1.PingRequest, pingv1.PingResponse](
			server.Client(),
			server.URL+unaryProc,
			connect.WithAcceptCompression(
				"alt",
				func() connect.Decompressor { return &gzip.Reader{} },
				func() connect.Compressor { return gzip.NewWriter(io.Discard) },
			), // registered after the default gzip: most preferred
			connect.WithSendGzip(),
		)
		res, err := client.CallUnary(context.Background(), connect.NewRequest(&pingv1.PingRequest{Text: strings.Repeat("compress me ", 50)}))
		if err != nil {
			t.Fatal(err)
		}
		if got := res.Header().Get("Content-Encoding"); got != "alt" {
			t.Errorf("client prefers alt over gzip (Accept-Encoding: alt,gzip) and sends gzip; handler supports both: "+
				"property expects response Content-Encoding \"alt\" (client's most-preferred mutually supported), observed %q", got)
		}
	})
}
