package connect_test

import (
	"bytes"
	"compress/gzip"
	"context"
	"io"
	"net/http"
	"net/http/httptest"
	"strings"
	"testing"

	connect "github.com/bufbuild/connect-go"
	pingv1 "github.com/bufbuild/connect-go/internal/gen/connect/ping/v1"
	"google.golang.org/protobuf/proto"
)

// Property C08: "A handler compresses responses only with an algorithm ...
// that the client either used for its request or advertised, preferring the
// client's most-preferred mutually supported one".
//
// The handler splits the accept-encoding list on ',' and ' ' only and compares
// the pieces verbatim. Two legal HTTP list spellings therefore negotiate the
// wrong thing:
//
//	(a) "Accept-Encoding: gzip ;q=0" (RFC 7231 5.3.1 allows OWS before ';';
//	    q=0 means "not acceptable") is split into "gzip" and ";q=0", so the
//	    response is gzip-compressed although the client refused gzip and used
//	    no compression for its request.
//	(b) "alt,<HTAB>gzip"-style lists (HTAB is legal optional whitespace in a
//	    comma-separated header list): the element after the tab is not
//	    recognized, so a less preferred algorithm is chosen.
func TestAuditC08xFinding2(t *testing.T) {
	t.Parallel()
	const proc = "/audit.v1.Svc/Unary"
	mux := http.NewServeMux()
	mux.Handle(proc, connect.NewUnaryHandler(
		proc,
		func(_ context.Context, r *connect.Request[pingv1.PingRequest]) (*connect.Response[pingv1.PingResponse], error) {
			return connect.NewResponse(&pingv1.PingResponse{Text: r.Msg.Text}), nil
		},
		connect.WithCompression(
			"alt",
			func() connect.Decompressor { return &gzip.Reader{} },
			func() connect.Compressor { return gzip.NewWriter(io.Discard) },
		),
	))
	server := httptest.NewServer(mux)
	t.Cleanup(server.Close)

	raw, err := proto.Marshal(&pingv1.PingRequest{Text: strings.Repeat("compress me ", 50)})
	if err != nil {
		t.Fatal(err)
	}
	do := func(t *testing.T, accept string) *http.Response {
		t.Helper()
		req, err := http.NewRequest(http.MethodPost, server.URL+proc, bytes.NewReader(raw))
		if err != nil {
			t.Fatal(err)
		}
		req.Header.Set("Content-Type", "application/proto")
		req.Header.Set("Accept-Encoding", accept) // request itself is uncompressed
		res, err := server.Client().Do(req)
		if err != nil {
			t.Fatal(err)
		}
		t.Cleanup(func() { res.Body.Close() })
		if res.StatusCode != http.StatusOK {
			t.Fatalf("unexpected HTTP status %d", res.StatusCode)
		}
		return res
	}

	t.Run("refused_with_q0", func(t *testing.T) {
		const accept = "gzip ;q=0"
		res := do(t, accept)
		body, _ := io.ReadAll(res.Body)
		if got := res.Header.Get("Content-Encoding"); got != "" && got != "identity" {
			_, gzErr := gzip.NewReader(bytes.NewReader(body))
			t.Errorf("client sent an uncompressed request with Accept-Encoding: %q (gzip explicitly not acceptable, nothing advertised): "+
				"property expects an uncompressed response, observed Content-Encoding: %q (body is a gzip stream: %v)",
				accept, got, gzErr == nil)
		}
	})

	t.Run("tab_after_comma", func(t *testing.T) {
		const accept = "zstd,\talt,gzip" // preference: zstd, alt, gzip; handler has alt and gzip
		res := do(t, accept)
		if got := res.Header.Get("Content-Encoding"); got != "alt" {
			t.Errorf("handler supports [alt gzip]; client advertised Accept-Encoding: %q (zstd, then alt, then gzip): "+
				"property expects the client's most-preferred mutually supported algorithm \"alt\", observed Content-Encoding: %q",
				accept, got)
		}
	})
}
