package connect_test

import (
	"context"
	"fmt"
	"io"
	"log"
	"net/http"
	"net/http/httptest"
	"sync"
	"testing"

	"github.com/bufbuild/connect-go"
	pingv1 "github.com/bufbuild/connect-go/internal/gen/connect/ping/v1"
	"github.com/bufbuild/connect-go/internal/gen/connect/ping/v1/pingv1connect"
)

type auditC19sF2Server struct {
	pingv1connect.UnimplementedPingServiceHandler
}

func (auditC19sF2Server) Ping(
	context.Context, *connect.Request[pingv1.PingRequest],
) (*connect.Response[pingv1.PingResponse], error) {
	panic("boom") // nolint:forbidigo
}

func (auditC19sF2Server) CountUp(
	_ context.Context,
	_ *connect.Request[pingv1.CountUpRequest],
	stream *connect.ServerStream[pingv1.CountUpResponse],
) error {
	_ = stream.Send(&pingv1.CountUpResponse{Number: 1})
	panic("boom") // nolint:forbidigo
}

// C19: the handler's panic is converted by the recovery function and the
// client receives the error that function returned. Here the function decides
// the panic is harmless and returns nil. For a streaming RPC that is honoured
// (the client sees a clean end). For a unary RPC the library dereferences the
// nil response at handler.go:76 and panics a second time, outside the recover
// interceptor: the panic is not converted at all, it reaches net/http, and the
// client receives an error (internal, RST_STREAM) that the function never
// returned.
func TestAuditC19sFinding2(t *testing.T) {
	var (
		mu      sync.Mutex
		calls   int
		escaped []any
	)
	handle := func(context.Context, connect.Spec, http.Header, any) error {
		mu.Lock()
		defer mu.Unlock()
		calls++
		return nil
	}
	path, handler := pingv1connect.NewPingServiceHandler(auditC19sF2Server{}, connect.WithRecover(handle))
	mux := http.NewServeMux()
	mux.Handle(path, http.HandlerFunc(func(w http.ResponseWriter, r *http.Request) {
		defer func() {
			if v := recover(); v != nil {
				mu.Lock()
				escaped = append(escaped, v)
				mu.Unlock()
				panic(v) // nolint:forbidigo
			}
		}()
		handler.ServeHTTP(w, r)
	}))
	server := httptest.NewUnstartedServer(mux)
	server.EnableHTTP2 = true
	server.Config.ErrorLog = log.New(io.Discard, "", 0)
	server.StartTLS()
	defer server.Close()

	for name, opts := range map[string][]connect.ClientOption{
		"connect": nil,
		"grpc":    {connect.WithGRPC()},
		"grpcweb": {connect.WithGRPCWeb()},
	} {
		client := pingv1connect.NewPingServiceClient(server.Client(), server.URL, opts...)

		// Streaming: the nil returned by the recovery function is what the client gets.
		mu.Lock()
		calls, escaped = 0, nil
		mu.Unlock()
		stream, err := client.CountUp(context.Background(), connect.NewRequest(&pingv1.CountUpRequest{Number: 1}))
		if err == nil {
			for stream.Receive() {
			}
			err = stream.Err()
			_ = stream.Close()
		}
		mu.Lock()
		if calls != 1 || len(escaped) != 0 || err != nil {
			t.Errorf("%s server stream: want 1 recovery call, no escaping panic, client error nil (what the recovery function returned); got calls=%d escaped=%v err=%v",
				name, calls, escaped, err)
		}
		mu.Unlock()

		// Unary: same handler panic, same recovery function.
		mu.Lock()
		calls, escaped = 0, nil
		mu.Unlock()
		_, err = client.Ping(context.Background(), connect.NewRequest(&pingv1.PingRequest{}))
		mu.Lock()
		if calls != 1 {
			t.Errorf("%s unary: recovery function called %d times, want 1", name, calls)
		}
		if len(escaped) != 0 {
			t.Errorf("%s unary: property expects the handler panic to be converted by the recovery function (no panic leaves Handler.ServeHTTP, only the abort sentinel is re-raised); observed a second panic escaping ServeHTTP: %s",
				name, fmt.Sprint(escaped...))
		}
		if err != nil {
			t.Errorf("%s unary: property expects the client to receive the error the recovery function returned (nil, as in the streaming case); observed %v",
				name, err)
		}
		mu.Unlock()
	}
}
