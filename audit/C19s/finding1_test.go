package connect_test

import (
	"context"
	"errors"
	"io"
	"log"
	"net/http"
	"net/http/httptest"
	"runtime"
	"sync"
	"testing"

	"github.com/bufbuild/connect-go"
	pingv1 "github.com/bufbuild/connect-go/internal/gen/connect/ping/v1"
	"github.com/bufbuild/connect-go/internal/gen/connect/ping/v1/pingv1connect"
)

// auditC19sF1Server never panics: its handlers end their goroutine with
// runtime.Goexit, which is what testing.T.FailNow / t.Fatal do when they are
// called from a handler.
type auditC19sF1Server struct {
	pingv1connect.UnimplementedPingServiceHandler
}

func (auditC19sF1Server) Ping(
	context.Context, *connect.Request[pingv1.PingRequest],
) (*connect.Response[pingv1.PingResponse], error) {
	runtime.Goexit()
	return nil, nil
}

func (auditC19sF1Server) CountUp(
	_ context.Context,
	_ *connect.Request[pingv1.CountUpRequest],
	stream *connect.ServerStream[pingv1.CountUpResponse],
) error {
	_ = stream.Send(&pingv1.CountUpResponse{Number: 1})
	runtime.Goexit()
	return nil
}

// C19: "calls that do not panic are unaffected" and the recovery function is
// called once per *panic*. A handler that leaves through runtime.Goexit has not
// panicked, yet the recovery function is invoked with value nil - exactly what
// it is given for panic(nil).
func TestAuditC19sFinding1(t *testing.T) {
	var (
		mu    sync.Mutex
		calls []any
	)
	handle := func(_ context.Context, _ connect.Spec, _ http.Header, r any) error {
		mu.Lock()
		defer mu.Unlock()
		calls = append(calls, r)
		return connect.NewError(connect.CodeFailedPrecondition, errors.New("recovered"))
	}
	mux := http.NewServeMux()
	mux.Handle(pingv1connect.NewPingServiceHandler(auditC19sF1Server{}, connect.WithRecover(handle)))
	server := httptest.NewUnstartedServer(mux)
	server.EnableHTTP2 = true
	server.Config.ErrorLog = log.New(io.Discard, "", 0)
	server.StartTLS()
	defer server.Close()

	for name, opts := range map[string][]connect.ClientOption{
		"connect": nil,
		"grpc":    {connect.WithGRPC()},
		"grpcweb": {connect.WithGRPCWeb()},
	} {
		client := pingv1connect.NewPingServiceClient(server.Client(), server.URL, opts...)

		mu.Lock()
		calls = nil
		mu.Unlock()
		_, _ = client.Ping(context.Background(), connect.NewRequest(&pingv1.PingRequest{}))
		mu.Lock()
		got := append([]any{}, calls...)
		mu.Unlock()
		if len(got) != 0 {
			t.Errorf("%s unary: handler did not panic (it called runtime.Goexit): property expects 0 calls of the recovery function, observed %d call(s) with recovered value(s) %#v",
				name, len(got), got)
		}

		mu.Lock()
		calls = nil
		mu.Unlock()
		stream, err := client.CountUp(context.Background(), connect.NewRequest(&pingv1.CountUpRequest{Number: 1}))
		if err == nil {
			for stream.Receive() {
			}
			_ = stream.Close()
		}
		mu.Lock()
		got = append([]any{}, calls...)
		mu.Unlock()
		if len(got) != 0 {
			t.Errorf("%s server stream: handler did not panic (it called runtime.Goexit): property expects 0 calls of the recovery function, observed %d call(s) with recovered value(s) %#v",
				name, len(got), got)
		}
	}
}
