package connect_test

import (
	"bytes"
	"compress/gzip"
	"context"
	"encoding/binary"
	"io"
	"net/http"
	"net/http/httptest"
	"strings"
	"testing"

	connect "github.com/bufbuild/connect-go"
	pingv1 "github.com/bufbuild/connect-go/internal/gen/connect/ping/v1"
	"google.golang.org/protobuf/proto"
)

// A peer compresses its request with gzip but says, in the protocol's
// accept-encoding header, that it accepts only uncompressed ("identity")
// responses. The handler answers with gzip all the same.
func TestAuditC05tFinding3(t *testing.T) {
	mux := http.NewServeMux()
	mux.Handle("/ping", connect.NewUnaryHandler(
		"/ping",
		func(_ context.Context, req *connect.Request[pingv1.PingRequest]) (*connect.Response[pingv1.PingResponse], error) {
			return connect.NewResponse(&pingv1.PingResponse{Text: req.Msg.Text}), nil
		},
	))
	server := httptest.NewServer(mux)
	defer server.Close()

	message, err := proto.Marshal(&pingv1.PingRequest{Text: strings.Repeat("compressible ", 64)})
	if err != nil {
		t.Fatal(err)
	}
	var zipped bytes.Buffer
	zw := gzip.NewWriter(&zipped)
	_, _ = zw.Write(message)
	_ = zw.Close()
	envelope := func(flags byte, data []byte) []byte {
		out := make([]byte, 5, 5+len(data))
		out[0] = flags
		binary.BigEndian.PutUint32(out[1:], uint32(len(data)))
		return append(out, data...)
	}

	cases := []struct {
		name, contentType    string
		encHeader, acceptHdr string
		body                 []byte
		enveloped            bool
	}{
		{"connect_unary", "application/proto", "Content-Encoding", "Accept-Encoding", zipped.Bytes(), false},
		{"grpc", "application/grpc+proto", "Grpc-Encoding", "Grpc-Accept-Encoding", envelope(1, zipped.Bytes()), true},
		{"grpcweb", "application/grpc-web+proto", "Grpc-Encoding", "Grpc-Accept-Encoding", envelope(1, zipped.Bytes()), true},
	}
	for _, tc := range cases {
		tc := tc
		t.Run(tc.name, func(t *testing.T) {
			req, err := http.NewRequest(http.MethodPost, server.URL+"/ping", bytes.NewReader(tc.body))
			if err != nil {
				t.Fatal(err)
			}
			req.Header.Set("Content-Type", tc.contentType)
			req.Header.Set(tc.encHeader, "gzip")
			req.Header.Set(tc.acceptHdr, "identity")
			if tc.acceptHdr != "Accept-Encoding" {
				req.Header.Set("Accept-Encoding", "identity")
			}
			res, err := server.Client().Do(req)
			if err != nil {
				t.Fatal(err)
			}
			defer res.Body.Close()
			body, err := io.ReadAll(res.Body)
			if err != nil {
				t.Fatal(err)
			}
			responseEncoding := res.Header.Get(tc.encHeader)
			compressedMessage := responseEncoding != "" && responseEncoding != "identity"
			if tc.enveloped {
				compressedMessage = len(body) > 0 && body[0]&1 == 1
			}
			if compressedMessage {
				t.Errorf("property: the response is decodable by the peer, which announced %s: identity (it accepts no compressed responses); "+
					"observed: HTTP %d, response %s: %q, message compressed: %v",
					tc.acceptHdr, res.StatusCode, tc.encHeader, responseEncoding, compressedMessage)
			}
		})
	}
}
