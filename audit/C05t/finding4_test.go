package connect_test

import (
	"bytes"
	"compress/gzip"
	"context"
	"encoding/binary"
	"io"
	"net/http"
	"net/http/httptest"
	"testing"

	connect "github.com/bufbuild/connect-go"
	pingv1 "github.com/bufbuild/connect-go/internal/gen/connect/ping/v1"
	"google.golang.org/protobuf/proto"
)

// Media types (RFC 9110 section 8.3.1) and content codings (section 8.4.1) are
// case-insensitive, and so are the quoted literals of the ABNF-style grammars
// of the gRPC and Connect specifications. A conformant peer may therefore
// write "Application/Proto" or "GZIP". The handler compares both byte by byte.
func TestAuditC05tFinding4(t *testing.T) {
	mux := http.NewServeMux()
	mux.Handle("/ping", connect.NewUnaryHandler(
		"/ping",
		func(_ context.Context, req *connect.Request[pingv1.PingRequest]) (*connect.Response[pingv1.PingResponse], error) {
			return connect.NewResponse(&pingv1.PingResponse{Text: req.Msg.Text}), nil
		},
	))
	server := httptest.NewServer(mux)
	defer server.Close()

	message, err := proto.Marshal(&pingv1.PingRequest{Text: "hello"})
	if err != nil {
		t.Fatal(err)
	}
	var zipped bytes.Buffer
	zw := gzip.NewWriter(&zipped)
	_, _ = zw.Write(message)
	_ = zw.Close()
	envelope := func(flags byte, data []byte) []byte {
		out := make([]byte, 5, 5+len(data))
		out[0] = flags
		binary.BigEndian.PutUint32(out[1:], uint32(len(data)))
		return append(out, data...)
	}
	post := func(t *testing.T, contentType, encHeader, enc string, body []byte) (*http.Response, []byte) {
		t.Helper()
		req, err := http.NewRequest(http.MethodPost, server.URL+"/ping", bytes.NewReader(body))
		if err != nil {
			t.Fatal(err)
		}
		req.Header.Set("Content-Type", contentType)
		req.Header.Set("Accept-Encoding", "identity")
		if encHeader != "" {
			req.Header.Set(encHeader, enc)
		}
		res, err := server.Client().Do(req)
		if err != nil {
			t.Fatal(err)
		}
		defer res.Body.Close()
		data, err := io.ReadAll(res.Body)
		if err != nil {
			t.Fatal(err)
		}
		return res, data
	}

	t.Run("content_type_casing", func(t *testing.T) {
		for _, tc := range []struct {
			contentType string
			body        []byte
		}{
			{"Application/Proto", message},
			{"Application/gRPC", envelope(0, message)},
			{"application/GRPC-Web+proto", envelope(0, message)},
		} {
			res, _ := post(t, tc.contentType, "", "", tc.body)
			if res.StatusCode != http.StatusOK {
				t.Errorf("property: a conformant request in any legal casing is accepted; observed: Content-Type %q answered with HTTP %d (Accept-Post: %q)",
					tc.contentType, res.StatusCode, res.Header.Get("Accept-Post"))
			}
		}
	})

	t.Run("content_coding_casing", func(t *testing.T) {
		// Control: the same request with the lower-case spelling is served.
		res, body := post(t, "application/proto", "Content-Encoding", "gzip", zipped.Bytes())
		if res.StatusCode != http.StatusOK {
			t.Fatalf("control failed: HTTP %d %q", res.StatusCode, body)
		}
		res, body = post(t, "application/proto", "Content-Encoding", "GZIP", zipped.Bytes())
		if res.StatusCode != http.StatusOK {
			t.Errorf("property: a conformant request in any legal casing is accepted and decoded; observed: Connect unary request with Content-Encoding: GZIP answered with HTTP %d %s",
				res.StatusCode, body)
		}
		res, _ = post(t, "application/grpc-web+proto", "Grpc-Encoding", "Gzip", envelope(1, zipped.Bytes()))
		if status := res.Header.Get("Grpc-Status"); status != "" && status != "0" {
			t.Errorf("property: a conformant request in any legal casing is accepted and decoded; observed: gRPC-Web request with Grpc-Encoding: Gzip answered with grpc-status %s (%s)",
				status, res.Header.Get("Grpc-Message"))
		}
	})
}
