package connect

import (
	"context"
	"fmt"
	"io"
	"net/http"
	"net/http/httptest"
	"testing"

	pingv1 "github.com/bufbuild/connect-go/internal/gen/connect/ping/v1"
	"google.golang.org/protobuf/proto"
)

// auditC03sFaultyBody delivers data and then fails with a transport error -
// either on a read of its own or together with the last bytes.
type auditC03sFaultyBody struct {
	data          []byte
	pos           int
	maxRead       int // 0: as much as fits
	fault         error
	faultWithLast bool
}

func (b *auditC03sFaultyBody) Close() error { return nil }

func (b *auditC03sFaultyBody) Read(p []byte) (int, error) {
	if b.pos >= len(b.data) {
		return 0, b.fault
	}
	if b.maxRead > 0 && len(p) > b.maxRead {
		p = p[:b.maxRead]
	}
	n := copy(p, b.data[b.pos:])
	b.pos += n
	if b.pos >= len(b.data) && b.faultWithLast {
		return n, b.fault
	}
	return n, nil
}

type auditC03sFaultyHTTPClient struct{ body io.ReadCloser }

func (c *auditC03sFaultyHTTPClient) Do(req *http.Request) (*http.Response, error) {
	go func() {
		_, _ = io.Copy(io.Discard, req.Body)
		_ = req.Body.Close()
	}()
	return &http.Response{
		Status:     "200 OK",
		StatusCode: http.StatusOK,
		Proto:      "HTTP/1.1",
		ProtoMajor: 1,
		ProtoMinor: 1,
		Header:     http.Header{"Content-Type": {"application/proto"}},
		Body:       c.body,
		Request:    req,
	}, nil
}

// A Connect unary body of exactly ReadMaxBytes+1 bytes, after which the
// transport fails (here: the peer promised more bytes than it sent). The bytes
// and the fault are the same in every delivery; only whether the transport
// reports the fault along with the last byte or on the next read differs.
func TestAuditC03sFinding2(t *testing.T) {
	const limit = 5
	payload, err := proto.Marshal(&pingv1.PingRequest{Number: 7, Text: "hi"})
	if err != nil {
		t.Fatal(err)
	}
	if len(payload) != limit+1 {
		t.Fatalf("test setup: payload has %d bytes, want %d", len(payload), limit+1)
	}

	t.Run("handler", func(t *testing.T) {
		run := func(maxRead int, faultWithLast bool) string {
			handler := NewUnaryHandler(
				"/connect.ping.v1.PingService/Ping",
				func(_ context.Context, r *Request[pingv1.PingRequest]) (*Response[pingv1.PingResponse], error) {
					return NewResponse(&pingv1.PingResponse{Number: r.Msg.Number}), nil
				},
				WithReadMaxBytes(limit),
			)
			req := httptest.NewRequest(http.MethodPost, "http://example.com/connect.ping.v1.PingService/Ping",
				&auditC03sFaultyBody{data: payload, maxRead: maxRead, fault: io.ErrUnexpectedEOF, faultWithLast: faultWithLast})
			req.Header.Set("Content-Type", "application/proto")
			rec := httptest.NewRecorder()
			handler.ServeHTTP(rec, req)
			return fmt.Sprintf("HTTP %d %s", rec.Code, rec.Body.String())
		}
		reference := run(0, false)
		for _, d := range []struct {
			name          string
			maxRead       int
			faultWithLast bool
		}{
			{"one byte per read, fault on a read of its own", 1, false},
			{"maximal reads, fault together with the last bytes", 0, true},
			{"one byte per read, fault together with the last byte", 1, true},
		} {
			if got := run(d.maxRead, d.faultWithLast); got != reference {
				t.Errorf("C03 violated (handler): same %d request bytes, same transport fault, different response.\n"+
					"  expected (property): what the reference delivery (maximal reads, fault on a read of its own) gives:\n    %s\n"+
					"  observed with %q:\n    %s", len(payload), reference, d.name, got)
			}
		}
	})

	t.Run("client", func(t *testing.T) {
		run := func(maxRead int, faultWithLast bool) string {
			client := NewClient[pingv1.PingRequest, pingv1.PingResponse](
				&auditC03sFaultyHTTPClient{body: &auditC03sFaultyBody{data: payload, maxRead: maxRead, fault: io.ErrUnexpectedEOF, faultWithLast: faultWithLast}},
				"http://example.com/connect.ping.v1.PingService/Ping",
				WithReadMaxBytes(limit),
			)
			_, err := client.CallUnary(context.Background(), NewRequest(&pingv1.PingRequest{}))
			return fmt.Sprintf("code=%v err=%v", CodeOf(err), err)
		}
		reference := run(0, false)
		for _, d := range []struct {
			name          string
			maxRead       int
			faultWithLast bool
		}{
			{"one byte per read, fault on a read of its own", 1, false},
			{"maximal reads, fault together with the last bytes", 0, true},
			{"one byte per read, fault together with the last byte", 1, true},
		} {
			if got := run(d.maxRead, d.faultWithLast); got != reference {
				t.Errorf("C03 violated (client): same %d response bytes, same transport fault, different error.\n"+
					"  expected (property): what the reference delivery (maximal reads, fault on a read of its own) gives:\n    %s\n"+
					"  observed with %q:\n    %s", len(payload), reference, d.name, got)
			}
		}
	})
}
