// Audit C04a, finding 2: on the handler side a failed Receive is not sticky.
// When the request body stops in the middle of a message (clean EOF inside an
// envelope), the first Receive reports a coded error, but the next Receive on
// the same stream reports a clean end of stream (an error wrapping io.EOF).
// The same happens when the truncated message is one that exceeds
// WithReadMaxBytes (the EOF hit while discarding it is swallowed).
package connect_test

import (
	"context"
	"encoding/binary"
	"errors"
	"fmt"
	"io"
	"net/http"
	"net/http/httptest"
	"testing"

	connect "github.com/bufbuild/connect-go"
	pingv1 "github.com/bufbuild/connect-go/internal/gen/connect/ping/v1"
	"github.com/bufbuild/connect-go/internal/gen/connect/ping/v1/pingv1connect"
	"google.golang.org/protobuf/proto"
)

type auditC04aF2Server struct {
	pingv1connect.UnimplementedPingServiceHandler

	results *[]string
	sawEOF  *bool
}

// CumSum keeps reading after a failed Receive (for example to log and skip a
// bad message) and records what every call reported.
func (s auditC04aF2Server) CumSum(
	_ context.Context,
	stream *connect.BidiStream[pingv1.CumSumRequest, pingv1.CumSumResponse],
) error {
	var firstErr error
	for i := 0; i < 5; i++ {
		msg, err := stream.Receive()
		switch {
		case err == nil:
			*s.results = append(*s.results, fmt.Sprintf("message %d", msg.Number))
		case errors.Is(err, io.EOF):
			*s.results = append(*s.results, fmt.Sprintf("clean end of stream (%v)", err))
			*s.sawEOF = true
			return firstErr
		default:
			*s.results = append(*s.results, fmt.Sprintf("error (%v)", err))
			if firstErr == nil {
				firstErr = err
			}
		}
	}
	return firstErr
}

func auditC04aF2Envelope(t *testing.T, number int64) []byte {
	t.Helper()
	raw, err := proto.Marshal(&pingv1.CumSumRequest{Number: number})
	if err != nil {
		t.Fatal(err)
	}
	out := make([]byte, 5, 5+len(raw))
	binary.BigEndian.PutUint32(out[1:], uint32(len(raw)))
	return append(out, raw...)
}

type auditC04aF2Body struct {
	data []byte
}

func (b *auditC04aF2Body) Read(p []byte) (int, error) {
	if len(b.data) == 0 {
		return 0, io.EOF // the body simply stops
	}
	n := copy(p, b.data)
	b.data = b.data[n:]
	return n, nil
}

func (b *auditC04aF2Body) Close() error { return nil }

func TestAuditC04aFinding2(t *testing.T) {
	first := auditC04aF2Envelope(t, 300)
	second := auditC04aF2Envelope(t, 1<<40) // 7-byte payload
	// Request body: message 1, then message 2 cut two bytes before its end.
	body := append(append([]byte(nil), first...), second[:len(second)-2]...)

	contentTypes := map[string]string{
		"connect": "application/connect+proto",
		"grpc":    "application/grpc+proto",
		"grpcweb": "application/grpc-web+proto",
	}
	for _, readMax := range []int{0, 4} {
		for name, contentType := range contentTypes {
			name, contentType, readMax := name, contentType, readMax
			t.Run(fmt.Sprintf("%s/readMaxBytes=%d", name, readMax), func(t *testing.T) {
				var results []string
				var sawEOF bool
				var opts []connect.HandlerOption
				if readMax > 0 {
					// Message 1 (3 bytes) fits, message 2 (7 bytes) is oversized.
					opts = append(opts, connect.WithReadMaxBytes(readMax))
				}
				mux := http.NewServeMux()
				mux.Handle(pingv1connect.NewPingServiceHandler(
					auditC04aF2Server{results: &results, sawEOF: &sawEOF},
					opts...,
				))
				request := httptest.NewRequest(
					http.MethodPost,
					"http://example.test/connect.ping.v1.PingService/CumSum",
					nil,
				)
				request.ProtoMajor, request.ProtoMinor = 2, 0
				request.ContentLength = -1
				request.Header.Set("Content-Type", contentType)
				request.Body = &auditC04aF2Body{data: append([]byte(nil), body...)}
				mux.ServeHTTP(httptest.NewRecorder(), request)

				if len(results) == 0 {
					t.Fatal("handler was not invoked")
				}
				if sawEOF {
					t.Errorf(
						"C04 violated: the request body stopped in the middle of message 2 "+
							"(%d of %d envelope bytes), so the property expects that the handler "+
							"never sees a clean end of the request stream; observed Receive results: %q",
						len(second)-2, len(second), results,
					)
				}
			})
		}
	}
}
