// Audit C04a, finding 1: a gRPC / gRPC-Web client stops requiring the
// end-of-stream marker as soon as the HTTP *response headers* carry a
// "Grpc-Status: 0" field, even though a message body follows. A response that
// is then cut at a message boundary (clean EOF, no HTTP trailers, no gRPC-Web
// trailer frame) is reported as a successfully completed stream.
package connect_test

import (
	"context"
	"encoding/binary"
	"errors"
	"io"
	"net/http"
	"testing"

	connect "github.com/bufbuild/connect-go"
	pingv1 "github.com/bufbuild/connect-go/internal/gen/connect/ping/v1"
	"github.com/bufbuild/connect-go/internal/gen/connect/ping/v1/pingv1connect"
	"google.golang.org/protobuf/proto"
)

// auditC04aF1Client answers every request with a canned 200 response whose
// body is the first `cut` bytes of `body`, followed by a clean io.EOF. No HTTP
// trailers are ever delivered (the response was cut before them).
type auditC04aF1Client struct {
	header http.Header
	body   []byte
	cut    int
}

func (c *auditC04aF1Client) Do(req *http.Request) (*http.Response, error) {
	go func() {
		_, _ = io.Copy(io.Discard, req.Body)
		_ = req.Body.Close()
	}()
	return &http.Response{
		Status:     "200 OK",
		StatusCode: http.StatusOK,
		Proto:      "HTTP/2.0",
		ProtoMajor: 2,
		Header:     c.header.Clone(),
		Body:       io.NopCloser(&auditC04aF1Reader{data: c.body[:c.cut]}),
		Trailer:    make(http.Header), // cut before the trailers: none arrive
		Request:    req,
	}, nil
}

type auditC04aF1Reader struct {
	data []byte
}

func (r *auditC04aF1Reader) Read(p []byte) (int, error) {
	if len(r.data) == 0 {
		return 0, io.EOF
	}
	n := copy(p, r.data)
	r.data = r.data[n:]
	return n, nil
}

func auditC04aF1Envelope(t *testing.T, msg proto.Message) []byte {
	t.Helper()
	raw, err := proto.Marshal(msg)
	if err != nil {
		t.Fatal(err)
	}
	out := make([]byte, 5, 5+len(raw))
	binary.BigEndian.PutUint32(out[1:], uint32(len(raw)))
	return append(out, raw...)
}

func TestAuditC04aFinding1(t *testing.T) {
	// The full response carries three messages; we cut it after the first one.
	first := auditC04aF1Envelope(t, &pingv1.CountUpResponse{Number: 1})
	var body []byte
	body = append(body, first...)
	body = append(body, auditC04aF1Envelope(t, &pingv1.CountUpResponse{Number: 2})...)
	body = append(body, auditC04aF1Envelope(t, &pingv1.CountUpResponse{Number: 3})...)

	run := func(t *testing.T, header http.Header, opts ...connect.ClientOption) ([]int64, error) {
		t.Helper()
		httpClient := &auditC04aF1Client{header: header, body: body, cut: len(first)}
		client := pingv1connect.NewPingServiceClient(httpClient, "http://example.test", opts...)
		stream, err := client.CountUp(context.Background(), connect.NewRequest(&pingv1.CountUpRequest{Number: 3}))
		if err != nil {
			return nil, err
		}
		var got []int64
		for stream.Receive() {
			got = append(got, stream.Msg().Number)
		}
		err = stream.Err()
		_ = stream.Close()
		return got, err
	}

	cases := []struct {
		name        string
		contentType string
		opt         connect.ClientOption
	}{
		{"grpc", "application/grpc+proto", connect.WithGRPC()},
		{"grpcweb", "application/grpc-web+proto", connect.WithGRPCWeb()},
	}
	for _, testCase := range cases {
		testCase := testCase
		t.Run(testCase.name, func(t *testing.T) {
			// Control: without the stray header the same cut is detected.
			plain := http.Header{"Content-Type": []string{testCase.contentType}}
			got, err := run(t, plain, testCase.opt)
			if err == nil {
				t.Fatalf("control: cut response without trailers reported success (received %v)", got)
			}
			var connectErr *connect.Error
			if !errors.As(err, &connectErr) {
				t.Fatalf("control: uncoded error %v", err)
			}

			// Same cut, but the response headers also carry "Grpc-Status: 0".
			withStatus := plain.Clone()
			withStatus.Set("Grpc-Status", "0")
			got, err = run(t, withStatus, testCase.opt)
			if err == nil {
				t.Errorf(
					"C04 violated: the response body was cut after message 1 of 3 (clean EOF, "+
						"no HTTP trailers / no gRPC-Web trailer frame ever arrived), so the property "+
						"expects the call to fail with a coded error; observed: stream reported "+
						"success (Err()==nil) after delivering %v, only because the response "+
						"headers contained Grpc-Status: 0",
					got,
				)
			}
		})
	}
}
