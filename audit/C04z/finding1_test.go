package connect_test

import (
	"context"
	"encoding/binary"
	"errors"
	"fmt"
	"io"
	"net/http"
	"net/http/httptest"
	"testing"

	connect "github.com/bufbuild/connect-go"
	pingv1 "github.com/bufbuild/connect-go/internal/gen/connect/ping/v1"
	"google.golang.org/protobuf/proto"
)

// auditC04zFailingBody serves data and then fails every further Read with err.
type auditC04zFailingBody struct {
	data []byte
	err  error
}

func (b *auditC04zFailingBody) Read(p []byte) (int, error) {
	if len(b.data) == 0 {
		return 0, b.err
	}
	n := copy(p, b.data)
	b.data = b.data[n:]
	return n, nil
}

func (b *auditC04zFailingBody) Close() error { return nil }

// TestAuditC04zFinding1: the request body of a client-streaming call delivers
// two complete messages and then FAILS (the transport reports a lost
// connection). The transport's error happens to wrap io.EOF. C04 requires that
// the handler never sees a clean end of the request stream when the request
// body failed; observed: for the enveloped protocols (gRPC, gRPC-Web, Connect
// streaming) the handler sees exactly that - Receive() returns false and Err()
// is nil, as if the client had half-closed after two messages.
func TestAuditC04zFinding1(t *testing.T) {
	envelope := func(number int64) []byte {
		raw, err := proto.Marshal(&pingv1.SumRequest{Number: number})
		if err != nil {
			t.Fatal(err)
		}
		out := make([]byte, 5+len(raw))
		binary.BigEndian.PutUint32(out[1:5], uint32(len(raw)))
		copy(out[5:], raw)
		return out
	}
	twoMessages := append(envelope(1), envelope(2)...)
	transportErr := fmt.Errorf("read tcp 10.0.0.1:443->10.0.0.2:5555: connection lost: %w", io.EOF)

	for _, contentType := range []string{
		"application/grpc+proto",
		"application/grpc-web+proto",
		"application/connect+proto",
	} {
		contentType := contentType
		t.Run(contentType, func(t *testing.T) {
			var (
				invoked  bool
				received []int64
				seenErr  error
			)
			handler := connect.NewClientStreamHandler(
				"/connect.ping.v1.PingService/Sum",
				func(_ context.Context, stream *connect.ClientStream[pingv1.SumRequest]) (*connect.Response[pingv1.SumResponse], error) {
					invoked = true
					for stream.Receive() {
						received = append(received, stream.Msg().Number)
					}
					seenErr = stream.Err()
					if seenErr != nil {
						return nil, seenErr
					}
					return connect.NewResponse(&pingv1.SumResponse{}), nil
				},
			)
			request := httptest.NewRequest(
				http.MethodPost,
				"http://localhost/connect.ping.v1.PingService/Sum",
				&auditC04zFailingBody{data: append([]byte(nil), twoMessages...), err: transportErr},
			)
			request.ProtoMajor, request.ProtoMinor, request.Proto = 2, 0, "HTTP/2.0"
			request.Header.Set("Content-Type", contentType)
			handler.ServeHTTP(httptest.NewRecorder(), request)

			if !invoked {
				t.Fatal("handler was not invoked")
			}
			if len(received) != 2 || received[0] != 1 || received[1] != 2 {
				t.Fatalf("expected the handler to receive messages [1 2] before the failure, got %v", received)
			}
			if seenErr == nil {
				t.Errorf(
					"C04 violated: the request body failed with a transport error (%q) after 2 complete messages; "+
						"expected the handler's stream.Err() to report a coded error (the request did not end, it broke), "+
						"observed a clean end of the request stream: Receive()=false, Err()=nil",
					transportErr,
				)
			} else {
				var connectErr *connect.Error
				if !errors.As(seenErr, &connectErr) {
					t.Errorf("handler saw an uncoded error: %v", seenErr)
				}
			}
		})
	}

	// Control: the very same transport error one byte earlier (inside the
	// second message) IS reported as a failure, so the library does not regard
	// an error that wraps io.EOF as a clean end in general.
	t.Run("control_mid_message", func(t *testing.T) {
		var seenErr error
		handler := connect.NewClientStreamHandler(
			"/connect.ping.v1.PingService/Sum",
			func(_ context.Context, stream *connect.ClientStream[pingv1.SumRequest]) (*connect.Response[pingv1.SumResponse], error) {
				for stream.Receive() {
				}
				seenErr = stream.Err()
				return connect.NewResponse(&pingv1.SumResponse{}), seenErr
			},
		)
		request := httptest.NewRequest(
			http.MethodPost,
			"http://localhost/connect.ping.v1.PingService/Sum",
			&auditC04zFailingBody{data: append([]byte(nil), twoMessages[:len(twoMessages)-1]...), err: transportErr},
		)
		request.ProtoMajor, request.ProtoMinor, request.Proto = 2, 0, "HTTP/2.0"
		request.Header.Set("Content-Type", "application/grpc+proto")
		handler.ServeHTTP(httptest.NewRecorder(), request)
		if seenErr == nil {
			t.Errorf("control: mid-message failure was reported as a clean end too")
		}
	})
}
