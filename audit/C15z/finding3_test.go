package connect_test

import (
	"context"
	"fmt"
	"net/http"
	"net/http/httptest"
	"testing"
	"time"

	connect "github.com/bufbuild/connect-go"
	pingv1 "github.com/bufbuild/connect-go/internal/gen/connect/ping/v1"
	"github.com/bufbuild/connect-go/internal/gen/connect/ping/v1/pingv1connect"
)

type auditC15zF3Server struct {
	pingv1connect.UnimplementedPingServiceHandler
	results chan error
}

func (s *auditC15zF3Server) CountUp(
	ctx context.Context,
	_ *connect.Request[pingv1.CountUpRequest],
	stream *connect.ServerStream[pingv1.CountUpResponse],
) error {
	if err := stream.Send(&pingv1.CountUpResponse{Number: 1}); err != nil {
		s.results <- fmt.Errorf("first Send failed: %w", err)
		return err
	}
	// Wait until the call has been canceled by the client.
	select {
	case <-ctx.Done():
	case <-time.After(5 * time.Second):
		s.results <- fmt.Errorf("handler context was not canceled")
		return nil
	}
	// Give the transport a moment: the stream is gone for good now.
	time.Sleep(100 * time.Millisecond)
	// The call's context is canceled and nothing can be delivered any more.
	err := stream.Send(&pingv1.CountUpResponse{Number: 2})
	s.results <- err
	return err
}

// Property C15: once a call's context is canceled, an operation on the call
// must not report success; it fails with code canceled. A handler-side Send of
// a small message after the client canceled the call returns nil: the bytes
// only reach net/http's buffer, and the error of the Flush that follows
// ("http2: stream closed" / broken pipe) is dropped.
func TestAuditC15zFinding3(t *testing.T) {
	for _, h2 := range []bool{true, false} {
		for _, protocol := range []string{"connect", "grpc", "grpcweb"} {
			h2, protocol := h2, protocol
			t.Run(fmt.Sprintf("%s/h2=%v", protocol, h2), func(t *testing.T) {
				svc := &auditC15zF3Server{results: make(chan error, 1)}
				mux := http.NewServeMux()
				mux.Handle(pingv1connect.NewPingServiceHandler(svc))
				server := httptest.NewUnstartedServer(mux)
				if h2 {
					server.EnableHTTP2 = true
					server.StartTLS()
				} else {
					server.Start()
				}
				defer server.Close()
				var opts []connect.ClientOption
				switch protocol {
				case "grpc":
					opts = append(opts, connect.WithGRPC())
				case "grpcweb":
					opts = append(opts, connect.WithGRPCWeb())
				}
				client := pingv1connect.NewPingServiceClient(server.Client(), server.URL, opts...)
				ctx, cancel := context.WithCancel(context.Background())
				defer cancel()
				stream, err := client.CountUp(ctx, connect.NewRequest(&pingv1.CountUpRequest{}))
				if err != nil {
					t.Fatal(err)
				}
				if !stream.Receive() {
					t.Fatalf("first Receive: %v", stream.Err())
				}
				cancel() // the call is canceled while the handler is running
				if stream.Receive() {
					t.Fatalf("client Receive succeeded after cancel")
				}
				_ = stream.Close()
				select {
				case sendErr := <-svc.results:
					if sendErr == nil {
						t.Fatalf("handler-side Send after the call was canceled (handler ctx done, stream reset): " +
							"property C15 expects an error with code canceled, never success; observed: Send returned nil")
					}
					if code := connect.CodeOf(sendErr); code != connect.CodeCanceled {
						t.Fatalf("handler-side Send after cancel: expected code canceled, observed %v (%v)", code, sendErr)
					}
				case <-time.After(10 * time.Second):
					t.Fatal("handler did not report")
				}
			})
		}
	}
}
