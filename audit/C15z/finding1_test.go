package connect_test

import (
	"context"
	"net/http"
	"net/http/httptest"
	"testing"
	"time"

	connect "github.com/bufbuild/connect-go"
	pingv1 "github.com/bufbuild/connect-go/internal/gen/connect/ping/v1"
	"github.com/bufbuild/connect-go/internal/gen/connect/ping/v1/pingv1connect"
)

type auditC15zF1Server struct {
	pingv1connect.UnimplementedPingServiceHandler
	handlerCtx chan context.Context
}

// An ordinary echo-style bidi handler: receive a message, answer it.
func (s *auditC15zF1Server) CumSum(
	ctx context.Context,
	stream *connect.BidiStream[pingv1.CumSumRequest, pingv1.CumSumResponse],
) error {
	s.handlerCtx <- ctx
	for {
		if _, err := stream.Receive(); err != nil {
			return err
		}
		if err := stream.Send(&pingv1.CumSumResponse{}); err != nil {
			return err
		}
	}
}

// Property C15, instant "during a blocked Receive" (bidi stream, HTTP/2): when
// the call's context is canceled or its deadline passes, the blocked Receive
// must fail with canceled / deadline_exceeded and the handler's context must
// be canceled too. Observed: once the response headers have arrived and while
// the request side is still open and idle, nothing happens at all - Receive
// stays blocked, no RST_STREAM is sent, the handler's context stays alive -
// until the application happens to call Send or CloseRequest.
func TestAuditC15zFinding1(t *testing.T) {
	for _, protocol := range []string{"connect", "grpc", "grpcweb"} {
		for _, kind := range []string{"cancel", "deadline"} {
			protocol, kind := protocol, kind
			t.Run(protocol+"/"+kind, func(t *testing.T) {
				svc := &auditC15zF1Server{handlerCtx: make(chan context.Context, 1)}
				mux := http.NewServeMux()
				mux.Handle(pingv1connect.NewPingServiceHandler(svc))
				server := httptest.NewUnstartedServer(mux)
				server.EnableHTTP2 = true
				server.StartTLS()
				defer server.Close()
				var opts []connect.ClientOption
				switch protocol {
				case "grpc":
					opts = append(opts, connect.WithGRPC())
				case "grpcweb":
					opts = append(opts, connect.WithGRPCWeb())
				}
				client := pingv1connect.NewPingServiceClient(server.Client(), server.URL, opts...)

				var ctx context.Context
				var cancel context.CancelFunc
				want := connect.CodeCanceled
				if kind == "cancel" {
					ctx, cancel = context.WithCancel(context.Background())
				} else {
					ctx, cancel = context.WithTimeout(context.Background(), 200*time.Millisecond)
					want = connect.CodeDeadlineExceeded
				}
				defer cancel()
				stream := client.CumSum(ctx)
				// Whatever happens, let the blocked goroutines go at the end.
				defer func() { _ = stream.CloseRequest() }()
				if err := stream.Send(&pingv1.CumSumRequest{Number: 1}); err != nil {
					t.Fatalf("Send: %v", err)
				}
				if _, err := stream.Receive(); err != nil {
					t.Fatalf("Receive: %v", err)
				}
				handlerCtx := <-svc.handlerCtx
				received := make(chan error, 1)
				go func() {
					_, err := stream.Receive() // blocks: the server has nothing to say
					received <- err
				}()
				time.Sleep(50 * time.Millisecond) // let Receive block
				if kind == "cancel" {
					cancel()
				}
				<-ctx.Done()
				failed := false
				select {
				case err := <-received:
					if code := connect.CodeOf(err); err == nil || code != want {
						t.Errorf("blocked Receive after the context ended: expected code %v, observed %v", want, err)
						failed = true
					}
				case <-time.After(2 * time.Second):
					t.Errorf("blocked Receive: expected it to fail with code %v once the call's context ended (%v); "+
						"observed: still blocked 2s later", want, ctx.Err())
					failed = true
				}
				if kind == "cancel" {
					// (For a deadline, the handler has a timer of its own from the
					// timeout header; for a cancellation it depends on the client.)
					select {
					case <-handlerCtx.Done():
					case <-time.After(100 * time.Millisecond):
						t.Errorf("handler context: expected it to be canceled after the client canceled the call; "+
							"observed: handler ctx.Err() = %v more than 2s later", handlerCtx.Err())
						failed = true
					}
				}
				if failed {
					// Show that the cancellation is only noticed once some other
					// operation touches the request side.
					_ = stream.CloseRequest()
					select {
					case err := <-received:
						t.Logf("after CloseRequest the blocked Receive returned: %v", err)
					case <-time.After(2 * time.Second):
						t.Logf("still blocked after CloseRequest")
					}
				}
			})
		}
	}
}
