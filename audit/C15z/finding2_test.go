package connect_test

import (
	"context"
	"net/http"
	"net/http/httptest"
	"testing"
	"time"

	connect "github.com/bufbuild/connect-go"
	pingv1 "github.com/bufbuild/connect-go/internal/gen/connect/ping/v1"
	"github.com/bufbuild/connect-go/internal/gen/connect/ping/v1/pingv1connect"
)

type auditC15zF2Server struct {
	pingv1connect.UnimplementedPingServiceHandler
}

func (s *auditC15zF2Server) CumSum(
	ctx context.Context,
	stream *connect.BidiStream[pingv1.CumSumRequest, pingv1.CumSumResponse],
) error {
	for {
		if _, err := stream.Receive(); err != nil {
			return err
		}
		if err := stream.Send(&pingv1.CumSumResponse{}); err != nil {
			return err
		}
	}
}

// Property C15, instants "before any op" and "during a blocked Receive": a
// Receive (or CloseResponse) on a bidi stream whose context is already done, or
// ends while the operation is blocked, must fail with canceled /
// deadline_exceeded. Observed: if no Send / CloseRequest has happened yet
// (the usual "start the receive loop first" pattern, with a sender that gives
// up on ctx.Done() before its first Send), Receive waits on
// duplexHTTPCall.responseReady, which nothing ever closes: it never looks at
// the context and blocks forever.
func TestAuditC15zFinding2(t *testing.T) {
	for _, protocol := range []string{"connect", "grpc", "grpcweb"} {
		for _, kind := range []string{"canceled-before", "deadline-during"} {
			protocol, kind := protocol, kind
			t.Run(protocol+"/"+kind, func(t *testing.T) {
				mux := http.NewServeMux()
				mux.Handle(pingv1connect.NewPingServiceHandler(&auditC15zF2Server{}))
				server := httptest.NewUnstartedServer(mux)
				server.EnableHTTP2 = true
				server.StartTLS()
				defer server.Close()
				var opts []connect.ClientOption
				switch protocol {
				case "grpc":
					opts = append(opts, connect.WithGRPC())
				case "grpcweb":
					opts = append(opts, connect.WithGRPCWeb())
				}
				client := pingv1connect.NewPingServiceClient(server.Client(), server.URL, opts...)

				var ctx context.Context
				var cancel context.CancelFunc
				want := connect.CodeCanceled
				if kind == "canceled-before" {
					ctx, cancel = context.WithCancel(context.Background())
					cancel() // canceled before any operation on the call
				} else {
					ctx, cancel = context.WithTimeout(context.Background(), 200*time.Millisecond)
					want = connect.CodeDeadlineExceeded
				}
				defer cancel()
				stream := client.CumSum(ctx)
				// Whatever happens, let the blocked goroutine go at the end.
				defer func() { _ = stream.CloseRequest() }()
				received := make(chan error, 1)
				go func() {
					_, err := stream.Receive()
					received <- err
				}()
				<-ctx.Done()
				select {
				case err := <-received:
					if code := connect.CodeOf(err); err == nil || code != want {
						t.Fatalf("Receive with a finished context: expected code %v, observed %v", want, err)
					}
				case <-time.After(2 * time.Second):
					t.Errorf("Receive on a call whose context is done (%v): expected it to fail with code %v; "+
						"observed: still blocked 2s later", ctx.Err(), want)
					_ = stream.CloseRequest()
					select {
					case err := <-received:
						t.Logf("only after CloseRequest did Receive return: %v", err)
					case <-time.After(2 * time.Second):
						t.Logf("still blocked after CloseRequest")
					}
				}
			})
		}
	}
}
