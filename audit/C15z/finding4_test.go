package connect_test

import (
	"context"
	"net/http"
	"net/http/httptest"
	"testing"
	"time"

	connect "github.com/bufbuild/connect-go"
	pingv1 "github.com/bufbuild/connect-go/internal/gen/connect/ping/v1"
	"github.com/bufbuild/connect-go/internal/gen/connect/ping/v1/pingv1connect"
)

type auditC15zF4Server struct {
	pingv1connect.UnimplementedPingServiceHandler
	started chan struct{}
	ctxErr  chan error
}

// A client-streaming handler that does something else (here: nothing) before
// it turns to the request stream, watching its context meanwhile.
func (s *auditC15zF4Server) Sum(
	ctx context.Context,
	stream *connect.ClientStream[pingv1.SumRequest],
) (*connect.Response[pingv1.SumResponse], error) {
	close(s.started)
	select {
	case <-ctx.Done():
		s.ctxErr <- ctx.Err()
		return nil, ctx.Err()
	case <-time.After(3 * time.Second):
		s.ctxErr <- nil
		return connect.NewResponse(&pingv1.SumResponse{}), nil
	}
}

// Property C15: "... and the handler's context is cancelled as well", for all
// HTTP versions. Over HTTP/1.1, when the client cancels a client-streaming
// call whose request body the handler hasn't read to the end, the client's
// operations fail with canceled (the connection is torn down), but the
// handler's context is never canceled: net/http only watches the connection
// once the request body has been consumed, and the library does nothing to
// make up for that.
func TestAuditC15zFinding4(t *testing.T) {
	for _, protocol := range []string{"connect", "grpc", "grpcweb"} {
		protocol := protocol
		t.Run(protocol+"/http1", func(t *testing.T) {
			svc := &auditC15zF4Server{started: make(chan struct{}), ctxErr: make(chan error, 1)}
			mux := http.NewServeMux()
			mux.Handle(pingv1connect.NewPingServiceHandler(svc))
			server := httptest.NewServer(mux) // HTTP/1.1
			defer server.Close()
			var opts []connect.ClientOption
			switch protocol {
			case "grpc":
				opts = append(opts, connect.WithGRPC())
			case "grpcweb":
				opts = append(opts, connect.WithGRPCWeb())
			}
			client := pingv1connect.NewPingServiceClient(server.Client(), server.URL, opts...)
			ctx, cancel := context.WithCancel(context.Background())
			defer cancel()
			stream := client.Sum(ctx)
			if err := stream.Send(&pingv1.SumRequest{Number: 1}); err != nil {
				t.Fatalf("Send: %v", err)
			}
			select {
			case <-svc.started:
			case <-time.After(5 * time.Second):
				t.Fatal("handler not started")
			}
			cancel() // before the handler has finished
			_, err := stream.CloseAndReceive()
			if code := connect.CodeOf(err); err == nil || code != connect.CodeCanceled {
				t.Errorf("client CloseAndReceive after cancel: expected code canceled, observed %v", err)
			}
			select {
			case handlerCtxErr := <-svc.ctxErr:
				if handlerCtxErr == nil {
					t.Fatalf("handler context: expected it to be canceled once the client canceled the call; " +
						"observed: still not canceled 3s later (client side already reported canceled)")
				}
			case <-time.After(10 * time.Second):
				t.Fatal("handler did not report")
			}
		})
	}
}
