package connect_test

import (
	"context"
	"fmt"
	"net/http"
	"net/http/httptest"
	"testing"
	"time"

	connect "github.com/bufbuild/connect-go"
	pingv1 "github.com/bufbuild/connect-go/internal/gen/connect/ping/v1"
	"github.com/bufbuild/connect-go/internal/gen/connect/ping/v1/pingv1connect"
)

type auditC15zF6Result struct {
	ok      bool
	err     error
	elapsed time.Duration
	ctxErr  error
}

type auditC15zF6Server struct {
	pingv1connect.UnimplementedPingServiceHandler
	results chan auditC15zF6Result
}

func (s *auditC15zF6Server) Sum(
	ctx context.Context,
	stream *connect.ClientStream[pingv1.SumRequest],
) (*connect.Response[pingv1.SumResponse], error) {
	if !stream.Receive() { // the first message arrives right away
		s.results <- auditC15zF6Result{err: fmt.Errorf("first Receive failed: %w", stream.Err())}
		return nil, stream.Err()
	}
	start := time.Now()
	ok := stream.Receive() // blocks: the client sends nothing for a while
	s.results <- auditC15zF6Result{ok: ok, err: stream.Err(), elapsed: time.Since(start), ctxErr: ctx.Err()}
	return nil, ctx.Err()
}

// auditC15zF6Timeout gives the call a 100ms deadline on the wire (as a proxy
// or a client in another language would), while the Go client itself is idle.
type auditC15zF6Timeout struct {
	base http.RoundTripper
}

func (rt auditC15zF6Timeout) RoundTrip(r *http.Request) (*http.Response, error) {
	if r.Header.Get("Content-Type") == "application/connect+proto" {
		r.Header.Set("Connect-Timeout-Ms", "100")
	} else {
		r.Header.Set("Grpc-Timeout", "100m")
	}
	return rt.base.RoundTrip(r)
}

// Property C15, instant "deadline passes during a blocked Receive", handler
// side: the Receive must fail with deadline_exceeded. Observed: the handler's
// context expires on time, but its blocked Receive ignores that; it stays
// blocked until the client sends something, and then reports success.
func TestAuditC15zFinding6(t *testing.T) {
	for _, h2 := range []bool{true, false} {
		for _, protocol := range []string{"connect", "grpc", "grpcweb"} {
			h2, protocol := h2, protocol
			t.Run(fmt.Sprintf("%s/h2=%v", protocol, h2), func(t *testing.T) {
				svc := &auditC15zF6Server{results: make(chan auditC15zF6Result, 1)}
				mux := http.NewServeMux()
				mux.Handle(pingv1connect.NewPingServiceHandler(svc))
				server := httptest.NewUnstartedServer(mux)
				if h2 {
					server.EnableHTTP2 = true
					server.StartTLS()
				} else {
					server.Start()
				}
				defer server.Close()
				var opts []connect.ClientOption
				switch protocol {
				case "grpc":
					opts = append(opts, connect.WithGRPC())
				case "grpcweb":
					opts = append(opts, connect.WithGRPCWeb())
				}
				httpClient := *server.Client()
				httpClient.Transport = auditC15zF6Timeout{base: httpClient.Transport}
				client := pingv1connect.NewPingServiceClient(&httpClient, server.URL, opts...)
				stream := client.Sum(context.Background())
				if err := stream.Send(&pingv1.SumRequest{Number: 1}); err != nil {
					t.Fatalf("Send: %v", err)
				}
				go func() {
					time.Sleep(1500 * time.Millisecond) // long after the deadline
					_ = stream.Send(&pingv1.SumRequest{Number: 2})
					_, _ = stream.CloseAndReceive()
				}()
				select {
				case res := <-svc.results:
					if res.ok || res.err == nil {
						t.Fatalf("handler-side Receive blocked across the call's deadline (100ms): expected it to fail "+
							"with code deadline_exceeded when the deadline passed; observed: it stayed blocked for %v "+
							"(handler ctx.Err() = %v by then) and then returned success", res.elapsed, res.ctxErr)
					}
					if code := connect.CodeOf(res.err); code != connect.CodeDeadlineExceeded {
						t.Fatalf("handler-side Receive: expected deadline_exceeded, observed %v after %v", res.err, res.elapsed)
					}
					if res.elapsed > time.Second {
						t.Fatalf("handler-side Receive: failed with deadline_exceeded only after %v", res.elapsed)
					}
				case <-time.After(10 * time.Second):
					t.Fatal("handler did not report")
				}
			})
		}
	}
}
