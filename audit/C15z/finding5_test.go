package connect_test

import (
	"context"
	"errors"
	"io"
	"net/http"
	"net/http/httptest"
	"testing"

	connect "github.com/bufbuild/connect-go"
	pingv1 "github.com/bufbuild/connect-go/internal/gen/connect/ping/v1"
	"github.com/bufbuild/connect-go/internal/gen/connect/ping/v1/pingv1connect"
)

type auditC15zF5Server struct {
	pingv1connect.UnimplementedPingServiceHandler
}

// The handler waits for its deadline and returns its context's error.
func (s *auditC15zF5Server) Sum(
	ctx context.Context,
	stream *connect.ClientStream[pingv1.SumRequest],
) (*connect.Response[pingv1.SumResponse], error) {
	<-ctx.Done()
	return nil, ctx.Err()
}

// auditC15zF5Timeout gives the call a deadline that only the server knows
// about (as a proxy or a non-Go client would).
type auditC15zF5Timeout struct {
	base http.RoundTripper
}

func (rt auditC15zF5Timeout) RoundTrip(r *http.Request) (*http.Response, error) {
	r.Header.Set("Grpc-Timeout", "100m")
	return rt.base.RoundTrip(r)
}

// Property C15, last sentence: "A handler that returns its context's error
// conveys that same classification to the client" (all protocols x RPC kinds x
// HTTP versions). With the gRPC protocol over HTTP/1.1 and a client-streaming
// call that is still sending when the handler's deadline passes, the handler
// returns context.DeadlineExceeded but the client's CloseAndReceive reports
// invalid_argument ("incomplete envelope: ... use of closed network
// connection"): the status travels in HTTP trailers behind an empty body, and
// the client never gets to them.
func TestAuditC15zFinding5(t *testing.T) {
	mux := http.NewServeMux()
	mux.Handle(pingv1connect.NewPingServiceHandler(&auditC15zF5Server{}))
	server := httptest.NewServer(mux) // HTTP/1.1
	defer server.Close()
	httpClient := *server.Client()
	httpClient.Transport = auditC15zF5Timeout{base: httpClient.Transport}
	client := pingv1connect.NewPingServiceClient(&httpClient, server.URL, connect.WithGRPC())
	for attempt := 0; attempt < 3; attempt++ {
		stream := client.Sum(context.Background())
		var sendErr error
		for sendErr == nil {
			sendErr = stream.Send(&pingv1.SumRequest{Number: 1})
		}
		if !errors.Is(sendErr, io.EOF) {
			t.Fatalf("attempt %d: Send: expected the stream-closed error wrapping io.EOF, observed %v", attempt, sendErr)
		}
		_, err := stream.CloseAndReceive()
		if code := connect.CodeOf(err); err == nil || code != connect.CodeDeadlineExceeded {
			t.Fatalf("attempt %d: handler returned its context's error (deadline exceeded): "+
				"expected the client to see code deadline_exceeded, observed %v", attempt, err)
		}
	}
}
