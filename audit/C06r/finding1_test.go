package connect

// Audit C06r, finding 1.
//
// Property C06: "For any HTTP response whatsoever - any status, headers,
// trailers and body bytes - every client call terminates without panicking and
// either succeeds or returns an error that can be inspected as a Connect error
// whose code is not the zero (OK) code".
//
// envelopeReader.Read (envelope.go:202-217) takes the 4-byte length out of the
// envelope prefix the server sent and, when the client has no ReadMaxBytes
// (the default), calls env.Data.Grow(size) before a single payload byte has
// arrived. Eight bytes of response body therefore make a streaming-protocol
// client (Connect streaming, gRPC, gRPC-Web; every stream type, including
// unary gRPC / gRPC-Web) try to allocate - and zero - up to 4 GiB.
//
//   - On 32-bit platforms a promised size just below 2^31 makes
//     bytes.Buffer.Grow panic with bytes.ErrTooLarge ("bytes.Buffer: too
//     large") in the goroutine that called CallUnary / Receive.
//   - On 64-bit platforms the allocation is attempted; where the process cannot
//     have that much memory (ulimit -v, small machines, containers) the Go
//     runtime aborts the whole process with "fatal error: out of memory", which
//     no recover can intercept.
//
// The test runs the client call in a child process (the test binary itself)
// whose address space is limited to ~2 GB with `ulimit -v`. A control run
// (same limit, a well-formed but truncated small envelope) shows that the limit
// as such doesn't disturb the client.

import (
	"context"
	"encoding/binary"
	"errors"
	"fmt"
	"io"
	"net/http"
	"os"
	"os/exec"
	"strings"
	"testing"
	"time"

	pingv1 "github.com/bufbuild/connect-go/internal/gen/connect/ping/v1"
)

type auditC06rF1HTTPClient struct {
	contentType string
	body        []byte
}

func (c *auditC06rF1HTTPClient) Do(req *http.Request) (*http.Response, error) {
	go func() {
		_, _ = io.Copy(io.Discard, req.Body)
		_ = req.Body.Close()
	}()
	return &http.Response{
		Status:     "200 OK",
		StatusCode: http.StatusOK,
		Proto:      "HTTP/2.0",
		ProtoMajor: 2,
		Header:     http.Header{"Content-Type": []string{c.contentType}},
		Body:       io.NopCloser(strings.NewReader(string(c.body))),
		Trailer:    http.Header{},
		Request:    req,
	}, nil
}

func auditC06rF1Child() {
	var promised uint32
	if _, err := fmt.Sscanf(os.Getenv("AUDIT_C06R_F1_SIZE"), "%d", &promised); err != nil {
		fmt.Println("CHILD-BAD-SIZE", err)
		return
	}
	var (
		option      ClientOption
		contentType string
	)
	switch os.Getenv("AUDIT_C06R_F1_PROTOCOL") {
	case "grpc":
		option, contentType = WithGRPC(), "application/grpc+proto"
	case "grpcweb":
		option, contentType = WithGRPCWeb(), "application/grpc-web+proto"
	default:
		option, contentType = WithClientOptions(), "application/connect+proto"
	}
	// The whole response body: an envelope prefix (flags 0, big-endian length)
	// followed by three bytes.
	body := make([]byte, 5, 8)
	binary.BigEndian.PutUint32(body[1:], promised)
	body = append(body, 1, 2, 3)
	client := NewClient[pingv1.PingRequest, pingv1.PingResponse](
		&auditC06rF1HTTPClient{contentType: contentType, body: body},
		"http://audit.invalid/connect.ping.v1.PingService/CountUp",
		option,
	)
	ctx, cancel := context.WithTimeout(context.Background(), time.Minute)
	defer cancel()
	stream, err := client.CallServerStream(ctx, NewRequest(&pingv1.PingRequest{}))
	if err == nil {
		for stream.Receive() {
		}
		err = stream.Err()
		_ = stream.Close()
	}
	var connectErr *Error
	if err != nil && errors.As(err, &connectErr) && connectErr.Code() != 0 {
		fmt.Printf("CHILD-RESULT coded error: %v\n", err)
		return
	}
	fmt.Printf("CHILD-RESULT other: %v\n", err)
}

func TestAuditC06rFinding1(t *testing.T) {
	if os.Getenv("AUDIT_C06R_F1_PROTOCOL") != "" {
		auditC06rF1Child()
		return
	}
	if _, err := exec.LookPath("sh"); err != nil {
		t.Skip("needs a POSIX shell for ulimit")
	}
	run := func(protocol string, promised uint32) (string, error) {
		// ~2 GB of address space: plenty for the test binary, not enough for
		// what the prefix promises.
		cmd := exec.Command(
			"sh", "-c",
			`ulimit -v 2000000 && exec "$0" -test.run='^TestAuditC06rFinding1$' -test.count=1`,
			os.Args[0],
		)
		cmd.Env = append(os.Environ(),
			"AUDIT_C06R_F1_PROTOCOL="+protocol,
			fmt.Sprintf("AUDIT_C06R_F1_SIZE=%d", promised),
		)
		out, err := cmd.CombinedOutput()
		return string(out), err
	}
	head := func(s string) string {
		lines := strings.Split(s, "\n")
		if len(lines) > 12 {
			lines = lines[:12]
		}
		return strings.Join(lines, "\n")
	}
	for _, protocol := range []string{"connect", "grpc", "grpcweb"} {
		// Control: the same limit, an envelope that promises 9 bytes and delivers 3.
		out, err := run(protocol, 9)
		if err != nil || !strings.Contains(out, "CHILD-RESULT coded error") {
			t.Fatalf("%s: control run failed, the environment can't run this test: %v\n%s", protocol, err, head(out))
		}
		// 0x7fffffff fits an int on every platform. The server "promises" 2 GiB
		// and sends 3 bytes.
		out, err = run(protocol, 0x7fffffff)
		if err != nil || !strings.Contains(out, "CHILD-RESULT coded error") {
			t.Errorf(
				"%s server-stream call, 200 response whose 8-byte body is the envelope prefix 00 7f ff ff ff + 3 bytes, client without ReadMaxBytes, process limited to 2 GB of address space:\n"+
					"expected by C06: the call terminates without panicking and returns a Connect error with a non-zero code (as it does for a prefix that promises 9 bytes)\n"+
					"observed: the client process died (%v); its output starts with:\n%s",
				protocol, err, head(out),
			)
		}
	}
}
