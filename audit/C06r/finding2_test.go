package connect

// Audit C06r, finding 2.
//
// Property C06: "... for a non-200 response that carries no valid
// protocol-level error the code is derived from the HTTP status."
//
// gRPC client (not gRPC-Web, not Connect): grpcValidateResponse
// (protocol_grpc.go:600-602) correctly turns a non-200 status into the
// HTTP-derived code and the call is marked failed. But grpcClientConn.Receive
// (protocol_grpc.go:342-361) then still consults the response's HTTP trailers
// and lets whatever grpcErrorFromTrailer makes of them replace that error -
// including its own "internal" complaints about a trailer block that is NOT a
// valid gRPC status (non-numeric / signed / out-of-range Grpc-Status,
// undecodable Grpc-Status-Details-Bin). The HTTP-derived code is lost.
//
// Reachability: Receive can only see the trailers if the HTTPClient has filled
// http.Response.Trailer by the time Receive runs. net/http's own transports
// fill it only when the body is read to EOF, which the failed call doesn't do
// before its first Receive (I checked with an httptest HTTP/2 server: there the
// HTTP-derived code is reported). So this needs an HTTPClient implementation
// that hands over a complete response (in-memory transports, test doubles,
// caching / replaying clients), or a second Receive after CloseResponse.

import (
	"context"
	"errors"
	"io"
	"net/http"
	"strings"
	"testing"

	pingv1 "github.com/bufbuild/connect-go/internal/gen/connect/ping/v1"
)

type auditC06rF2HTTPClient struct {
	status  int
	trailer http.Header
}

func (c *auditC06rF2HTTPClient) Do(req *http.Request) (*http.Response, error) {
	go func() {
		_, _ = io.Copy(io.Discard, req.Body)
		_ = req.Body.Close()
	}()
	return &http.Response{
		Status:     http.StatusText(c.status),
		StatusCode: c.status,
		Proto:      "HTTP/2.0",
		ProtoMajor: 2,
		Header:     http.Header{"Content-Type": []string{"text/plain"}},
		Body:       io.NopCloser(strings.NewReader("upstream is unwell\n")),
		Trailer:    c.trailer.Clone(),
		Request:    req,
	}, nil
}

func TestAuditC06rFinding2(t *testing.T) {
	cases := []struct {
		status  int
		trailer http.Header
		want    Code
	}{
		{503, http.Header{"Grpc-Status": {"abc"}}, CodeUnavailable},
		{404, http.Header{"Grpc-Status": {"-1"}}, CodeUnimplemented},
		{401, http.Header{"Grpc-Status": {"99999999999"}}, CodeUnauthenticated},
		{429, http.Header{"Grpc-Status": {"7"}, "Grpc-Status-Details-Bin": {"!!!"}}, CodeUnavailable},
		{403, http.Header{"Grpc-Status": {"7"}, "Grpc-Status-Details-Bin": {"//8"}}, CodePermissionDenied},
	}
	for _, tc := range cases {
		for _, streamType := range []string{"unary", "client-stream", "server-stream", "bidi"} {
			client := NewClient[pingv1.PingRequest, pingv1.PingResponse](
				&auditC06rF2HTTPClient{status: tc.status, trailer: tc.trailer},
				"http://audit.invalid/connect.ping.v1.PingService/Ping",
				WithGRPC(),
			)
			ctx := context.Background()
			var err error
			switch streamType {
			case "unary":
				_, err = client.CallUnary(ctx, NewRequest(&pingv1.PingRequest{}))
			case "client-stream":
				stream := client.CallClientStream(ctx)
				_ = stream.Send(&pingv1.PingRequest{})
				_, err = stream.CloseAndReceive()
			case "server-stream":
				var stream *ServerStreamForClient[pingv1.PingResponse]
				stream, err = client.CallServerStream(ctx, NewRequest(&pingv1.PingRequest{}))
				if err == nil {
					for stream.Receive() {
					}
					err = stream.Err()
					_ = stream.Close()
				}
			case "bidi":
				stream := client.CallBidiStream(ctx)
				_ = stream.Send(&pingv1.PingRequest{})
				_ = stream.CloseRequest()
				_, err = stream.Receive()
				_ = stream.CloseResponse()
			}
			var connectErr *Error
			if err == nil || !errors.As(err, &connectErr) {
				t.Errorf("gRPC %s, HTTP %d, trailers %v: expected a Connect error, got %v", streamType, tc.status, tc.trailer, err)
				continue
			}
			if connectErr.Code() != tc.want {
				t.Errorf(
					"gRPC %s call, HTTP %d response whose trailers %v are not a valid gRPC status:\n"+
						"expected by C06: the code derived from the HTTP status, %v (grpcHTTPToCode(%d))\n"+
						"observed: %v (error: %v)",
					streamType, tc.status, tc.trailer, tc.want, tc.status, connectErr.Code(), err,
				)
			}
		}
	}
}
