package connect_test

import (
	"context"
	"net/http"
	"net/http/httptest"
	"sync"
	"testing"
	"time"

	"github.com/bufbuild/connect-go"
	pingv1 "github.com/bufbuild/connect-go/internal/gen/connect/ping/v1"
	"github.com/bufbuild/connect-go/internal/gen/connect/ping/v1/pingv1connect"
)

type auditC10sF1Server struct {
	pingv1connect.UnimplementedPingServiceHandler

	mu       sync.Mutex
	deadline time.Time
	has      bool
	header   http.Header
}

func (s *auditC10sF1Server) Sum(
	ctx context.Context,
	stream *connect.ClientStream[pingv1.SumRequest],
) (*connect.Response[pingv1.SumResponse], error) {
	s.mu.Lock()
	s.deadline, s.has = ctx.Deadline()
	s.header = stream.RequestHeader().Clone()
	s.mu.Unlock()
	for stream.Receive() {
	}
	return connect.NewResponse(&pingv1.SumResponse{}), nil
}

// C10: "the timeout sent to the server is never longer than the time
// remaining ... Deadlines propagate to the handler and are never extended".
//
// The protocol clients compute the timeout header in NewConn (that is, inside
// CallClientStream / CallBidiStream), but the HTTP request - and with it the
// header - is only sent by the first Send or CloseRequest. Whatever time the
// caller lets pass in between is added to the deadline the handler sees.
func TestAuditC10sFinding1(t *testing.T) {
	const (
		timeout = 3 * time.Second
		idle    = 1 * time.Second
		// Generous allowance for scheduling and loopback latency. (The encoding
		// granularity only ever makes the timeout shorter.)
		slack = 250 * time.Millisecond
	)
	for _, tc := range []struct {
		name   string
		header string
		opts   []connect.ClientOption
	}{
		{"connect", "Connect-Timeout-Ms", nil},
		{"grpc", "Grpc-Timeout", []connect.ClientOption{connect.WithGRPC()}},
		{"grpcweb", "Grpc-Timeout", []connect.ClientOption{connect.WithGRPCWeb()}},
	} {
		tc := tc
		t.Run(tc.name, func(t *testing.T) {
			srv := &auditC10sF1Server{}
			mux := http.NewServeMux()
			mux.Handle(pingv1connect.NewPingServiceHandler(srv))
			server := httptest.NewUnstartedServer(mux)
			server.EnableHTTP2 = true
			server.StartTLS()
			defer server.Close()

			client := pingv1connect.NewPingServiceClient(server.Client(), server.URL, tc.opts...)
			ctx, cancel := context.WithTimeout(context.Background(), timeout)
			defer cancel()
			clientDeadline, _ := ctx.Deadline()

			stream := client.Sum(ctx)
			// The caller prepares its first message; nothing is on the wire yet.
			time.Sleep(idle)
			remainingAtSend := time.Until(clientDeadline)
			if err := stream.Send(&pingv1.SumRequest{Number: 1}); err != nil {
				t.Fatalf("Send: %v", err)
			}
			if _, err := stream.CloseAndReceive(); err != nil {
				t.Fatalf("CloseAndReceive: %v", err)
			}

			srv.mu.Lock()
			defer srv.mu.Unlock()
			if !srv.has {
				t.Fatalf("handler context has no deadline")
			}
			t.Logf("client had %v left when the request was sent; header sent: %s: %s",
				remainingAtSend, tc.header, srv.header.Get(tc.header))
			if extended := srv.deadline.Sub(clientDeadline); extended > slack {
				t.Errorf("C10 violated (%s client stream): expected the timeout sent to be no longer than "+
					"the time remaining when the request is sent (%v), so that the handler's deadline is not "+
					"later than the client's; observed header %s: %q and a handler deadline %v LATER than the "+
					"client's deadline (the %v the caller waited between CallClientStream and the first Send)",
					tc.name, remainingAtSend, tc.header, srv.header.Get(tc.header), extended, idle)
			}
		})
	}
}
