package connect_test

import (
	"bytes"
	"io"
	"net/http"
	"net/http/httptest"
	"testing"

	"github.com/bufbuild/connect-go/internal/gen/connect/ping/v1/pingv1connect"
)

// C10: "a malformed one - missing or unknown unit, empty or non-decimal number,
// or a magnitude beyond the grammar's digit limit - is rejected as
// invalid_argument without running user code."
//
// Handler.ServeHTTP keeps the SetTimeout error aside, calls NewConn, and only
// reports the timeout error if NewConn succeeds. When the same request also
// names a compression the handler doesn't know, NewConn answers itself (with
// unimplemented) and the invalid_argument for the malformed timeout is dropped.
func TestAuditC10sFinding3(t *testing.T) {
	mux := http.NewServeMux()
	mux.Handle(pingv1connect.NewPingServiceHandler(pingv1connect.UnimplementedPingServiceHandler{}))
	server := httptest.NewUnstartedServer(mux)
	server.EnableHTTP2 = true
	server.StartTLS()
	defer server.Close()

	for _, tc := range []struct {
		name           string
		path           string
		contentType    string
		timeoutHeader  string
		timeout        string
		encodingHeader string
		body           []byte
	}{
		{"connect_unary", "Ping", "application/json", "Connect-Timeout-Ms", "10s", "Content-Encoding", []byte("{}")},
		{"connect_stream", "CountUp", "application/connect+json", "Connect-Timeout-Ms", "12345678901", "Connect-Content-Encoding", []byte("\x00\x00\x00\x00\x02{}")},
		{"grpc", "Ping", "application/grpc+json", "Grpc-Timeout", "5", "Grpc-Encoding", []byte("\x00\x00\x00\x00\x02{}")},
		{"grpcweb", "Ping", "application/grpc-web+json", "Grpc-Timeout", "123456789n", "Grpc-Encoding", []byte("\x00\x00\x00\x00\x02{}")},
	} {
		tc := tc
		t.Run(tc.name, func(t *testing.T) {
			do := func(withEncoding bool) (int, string, string) {
				request, err := http.NewRequest(
					http.MethodPost,
					server.URL+"/"+pingv1connect.PingServiceName+"/"+tc.path,
					bytes.NewReader(tc.body),
				)
				if err != nil {
					t.Fatal(err)
				}
				request.Header.Set("Content-Type", tc.contentType)
				request.Header.Set(tc.timeoutHeader, tc.timeout)
				if withEncoding {
					request.Header.Set(tc.encodingHeader, "snappy") // not registered
				}
				response, err := server.Client().Do(request)
				if err != nil {
					t.Fatal(err)
				}
				body, _ := io.ReadAll(response.Body)
				response.Body.Close()
				status := response.Header.Get("Grpc-Status")
				if status == "" {
					status = response.Trailer.Get("Grpc-Status")
				}
				return response.StatusCode, status, string(body)
			}
			isInvalidArgument := func(httpStatus int, grpcStatus, body string) bool {
				return grpcStatus == "3" ||
					bytes.Contains([]byte(body), []byte(`"invalid_argument"`)) ||
					bytes.Contains([]byte(body), []byte("grpc-status: 3")) ||
					bytes.Contains([]byte(body), []byte("Grpc-Status: 3"))
			}
			// Control: the malformed timeout alone is rejected as invalid_argument.
			httpStatus, grpcStatus, body := do(false)
			if !isInvalidArgument(httpStatus, grpcStatus, body) {
				t.Fatalf("control: %s: %q alone was not rejected as invalid_argument: HTTP %d grpc-status %q body %q",
					tc.timeoutHeader, tc.timeout, httpStatus, grpcStatus, body)
			}
			httpStatus, grpcStatus, body = do(true)
			t.Logf("HTTP %d, grpc-status %q, body %q", httpStatus, grpcStatus, body)
			if !isInvalidArgument(httpStatus, grpcStatus, body) {
				t.Errorf("C10 violated: request with malformed %s: %q (and %s: snappy); expected the malformed timeout to be "+
					"rejected as invalid_argument; observed HTTP %d, grpc-status %q, body %q",
					tc.timeoutHeader, tc.timeout, tc.encodingHeader, httpStatus, grpcStatus, body)
			}
		})
	}
}
