package connect_test

import (
	"bytes"
	"context"
	"io"
	"net/http"
	"testing"

	connect "github.com/bufbuild/connect-go"
	pingv1 "github.com/bufbuild/connect-go/internal/gen/connect/ping/v1"
	"github.com/bufbuild/connect-go/internal/gen/connect/ping/v1/pingv1connect"
)

// auditC04tF2Client answers every request with a canned response: the given
// headers, the given body ending in a clean EOF, and no HTTP trailers.
type auditC04tF2Client struct {
	header http.Header
	body   []byte
}

func (c *auditC04tF2Client) Do(request *http.Request) (*http.Response, error) {
	go func() {
		_, _ = io.Copy(io.Discard, request.Body)
		_ = request.Body.Close()
	}()
	return &http.Response{
		Status:     "200 OK",
		StatusCode: http.StatusOK,
		Proto:      "HTTP/2.0",
		ProtoMajor: 2,
		Header:     c.header.Clone(),
		Body:       io.NopCloser(bytes.NewReader(c.body)),
		Trailer:    http.Header{}, // the peer never sent trailers
		Request:    request,
	}, nil
}

// C04: "A client reports successful completion only after receiving the
// protocol's terminator - gRPC status trailers, the gRPC-Web trailer frame".
func TestAuditC04tFinding2(t *testing.T) {
	// Two of the three messages of a CountUp(3) response; then the body ends
	// (cleanly, at a message boundary) without HTTP trailers and without a
	// gRPC-Web trailer frame.
	twoMessages := []byte{
		0, 0, 0, 0, 2, 0x08, 0x01,
		0, 0, 0, 0, 2, 0x08, 0x02,
	}
	// One PingResponse{number: 42}, again without any terminator.
	oneMessage := []byte{0, 0, 0, 0, 2, 0x08, 0x2a}
	protocols := []struct {
		name        string
		contentType string
		option      connect.ClientOption
	}{
		{"gRPC", "application/grpc+proto", connect.WithGRPC()},
		{"gRPC-Web", "application/grpc-web+proto", connect.WithGRPCWeb()},
	}
	for _, protocol := range protocols {
		header := http.Header{
			"Content-Type": []string{protocol.contentType},
			// The peer put a status into the response *headers* and then went on
			// to send messages: this is not a trailers-only response, and nothing
			// in these headers says how or whether the stream ends.
			"Grpc-Status": []string{"0"},
		}

		// Sanity: without the stray header the same truncated responses fail.
		sane := header.Clone()
		sane.Del("Grpc-Status")
		client := pingv1connect.NewPingServiceClient(
			&auditC04tF2Client{header: sane, body: twoMessages}, "http://example.com", protocol.option)
		stream, err := client.CountUp(context.Background(), connect.NewRequest(&pingv1.CountUpRequest{Number: 3}))
		if err != nil {
			t.Fatal(err)
		}
		for stream.Receive() {
		}
		if stream.Err() == nil {
			t.Fatalf("%s: sanity check failed, truncated stream without the header reported success", protocol.name)
		}

		// Server streaming.
		client = pingv1connect.NewPingServiceClient(
			&auditC04tF2Client{header: header, body: twoMessages}, "http://example.com", protocol.option)
		stream, err = client.CountUp(context.Background(), connect.NewRequest(&pingv1.CountUpRequest{Number: 3}))
		if err != nil {
			t.Fatal(err)
		}
		var got []int64
		for stream.Receive() {
			got = append(got, stream.Msg().Number)
		}
		if stream.Err() == nil {
			t.Errorf(
				"%s server stream: the response body ended after 2 messages with neither HTTP trailers "+
					"nor a trailer frame (response trailers seen by the client: %v); property C04 expects "+
					"a coded error because the end-of-stream marker never arrived; observed a clean end "+
					"of the stream (Err()==nil) after messages %v",
				protocol.name, stream.ResponseTrailer(), got,
			)
		}

		// Unary.
		client = pingv1connect.NewPingServiceClient(
			&auditC04tF2Client{header: header, body: oneMessage}, "http://example.com", protocol.option)
		response, err := client.Ping(context.Background(), connect.NewRequest(&pingv1.PingRequest{Number: 42}))
		if err == nil {
			t.Errorf(
				"%s unary: the response body ended after the message with neither HTTP trailers nor a "+
					"trailer frame; property C04 expects a coded error; observed success with number=%d "+
					"and trailers %v",
				protocol.name, response.Msg.Number, response.Trailer(),
			)
		}
	}
}
