package connect_test

import (
	"context"
	"net/http"
	"net/http/httptest"
	"strings"
	"testing"

	connect "github.com/bufbuild/connect-go"
	pingv1 "github.com/bufbuild/connect-go/internal/gen/connect/ping/v1"
	"github.com/bufbuild/connect-go/internal/gen/connect/ping/v1/pingv1connect"
	"google.golang.org/protobuf/proto"
)

// auditC09tF1Server answers every RPC with tiny messages (0-2 bytes encoded).
// If trailerBytes > 0 it also attaches one response trailer of that many bytes.
type auditC09tF1Server struct {
	pingv1connect.UnimplementedPingServiceHandler

	trailerBytes int
}

func (s auditC09tF1Server) Ping(
	_ context.Context,
	req *connect.Request[pingv1.PingRequest],
) (*connect.Response[pingv1.PingResponse], error) {
	res := connect.NewResponse(&pingv1.PingResponse{Number: req.Msg.Number})
	if s.trailerBytes > 0 {
		res.Trailer().Set("X-Audit", strings.Repeat("t", s.trailerBytes))
	}
	return res, nil
}

func (s auditC09tF1Server) CountUp(
	_ context.Context,
	req *connect.Request[pingv1.CountUpRequest],
	stream *connect.ServerStream[pingv1.CountUpResponse],
) error {
	if s.trailerBytes > 0 {
		stream.ResponseTrailer().Set("X-Audit", strings.Repeat("t", s.trailerBytes))
	}
	for i := int64(1); i <= req.Msg.Number; i++ {
		if err := stream.Send(&pingv1.CountUpResponse{Number: i}); err != nil {
			return err
		}
	}
	return nil
}

func auditC09tF1NewServer(t *testing.T, trailerBytes int) *httptest.Server {
	t.Helper()
	mux := http.NewServeMux()
	mux.Handle(pingv1connect.NewPingServiceHandler(
		auditC09tF1Server{trailerBytes: trailerBytes},
		// Never compress: wire size == encoded size for every message below.
		connect.WithCompressMinBytes(1<<30),
	))
	server := httptest.NewUnstartedServer(mux)
	server.EnableHTTP2 = true
	server.StartTLS()
	t.Cleanup(server.Close)
	return server
}

// C09: "every message of at most N bytes is accepted ... at every position in
// a stream, in every protocol". The read limit is also applied to the
// gRPC-Web trailers envelope and to the Connect end-of-stream envelope, which
// are not messages. A client with limit N therefore rejects calls in which
// every message is far below N.
func TestAuditC09tFinding1(t *testing.T) {
	t.Run("grpcweb_unary_small_limit", func(t *testing.T) {
		const limit = 16
		server := auditC09tF1NewServer(t, 0)
		client := pingv1connect.NewPingServiceClient(
			server.Client(), server.URL,
			connect.WithGRPCWeb(), connect.WithReadMaxBytes(limit),
		)
		want := &pingv1.PingResponse{Number: 1}
		res, err := client.Ping(context.Background(), connect.NewRequest(&pingv1.PingRequest{Number: 1}))
		if err != nil {
			t.Fatalf("C09 expects the %d-byte response message to be accepted with read limit %d "+
				"(uncompressed, gRPC-Web unary); observed the call failing with: %v",
				proto.Size(want), limit, err)
		}
		if res.Msg.Number != 1 {
			t.Fatalf("wrong response: %v", res.Msg)
		}
	})
	t.Run("grpcweb_server_stream_small_limit", func(t *testing.T) {
		const limit = 16
		server := auditC09tF1NewServer(t, 0)
		client := pingv1connect.NewPingServiceClient(
			server.Client(), server.URL,
			connect.WithGRPCWeb(), connect.WithReadMaxBytes(limit),
		)
		stream, err := client.CountUp(context.Background(), connect.NewRequest(&pingv1.CountUpRequest{Number: 3}))
		if err != nil {
			t.Fatal(err)
		}
		defer stream.Close()
		got := 0
		for stream.Receive() {
			got++
		}
		if err := stream.Err(); err != nil {
			t.Fatalf("C09 expects a stream of three 2-byte messages to be accepted with read limit %d "+
				"(uncompressed, gRPC-Web server stream); observed %d messages and then the call failing with: %v",
				limit, got, err)
		}
	})
	// The same with a realistic limit: the messages are 2 bytes, the limit is
	// 1 KiB, and the server attaches 2 KiB of trailing metadata. gRPC (HTTP
	// trailers) accepts the call; Connect streaming and gRPC-Web don't.
	for _, protocol := range []struct {
		name string
		opt  connect.ClientOption
	}{
		{"grpc_baseline", connect.WithGRPC()},
		{"connect", connect.WithClientOptions()},
		{"grpcweb", connect.WithGRPCWeb()},
	} {
		protocol := protocol
		t.Run(protocol.name+"_server_stream_large_trailer", func(t *testing.T) {
			const limit = 1024
			server := auditC09tF1NewServer(t, 2048)
			client := pingv1connect.NewPingServiceClient(
				server.Client(), server.URL,
				protocol.opt, connect.WithReadMaxBytes(limit),
			)
			stream, err := client.CountUp(context.Background(), connect.NewRequest(&pingv1.CountUpRequest{Number: 3}))
			if err != nil {
				t.Fatal(err)
			}
			defer stream.Close()
			got := 0
			for stream.Receive() {
				got++
			}
			if err := stream.Err(); err != nil {
				t.Fatalf("C09 expects a stream of three 2-byte messages to be accepted with read limit %d "+
					"(%s, uncompressed); observed %d messages and then the call failing with: %v",
					limit, protocol.name, got, err)
			}
			if got != 3 {
				t.Fatalf("expected 3 messages, got %d", got)
			}
		})
	}
	t.Run("grpcweb_unary_large_trailer", func(t *testing.T) {
		const limit = 1024
		server := auditC09tF1NewServer(t, 2048)
		client := pingv1connect.NewPingServiceClient(
			server.Client(), server.URL,
			connect.WithGRPCWeb(), connect.WithReadMaxBytes(limit),
		)
		_, err := client.Ping(context.Background(), connect.NewRequest(&pingv1.PingRequest{Number: 1}))
		if err != nil {
			t.Fatalf("C09 expects the 2-byte response message to be accepted with read limit %d "+
				"(gRPC-Web unary, uncompressed); observed the call failing with: %v", limit, err)
		}
	})
}
