package connect_test

import (
	"context"
	"errors"
	"fmt"
	"net/http"
	"net/http/httptest"
	"strings"
	"testing"

	connect "github.com/bufbuild/connect-go"
	pingv1 "github.com/bufbuild/connect-go/internal/gen/connect/ping/v1"
	"github.com/bufbuild/connect-go/internal/gen/connect/ping/v1/pingv1connect"
	"google.golang.org/protobuf/proto"
)

// auditC09tF2Server sends one small message, then one message that is larger
// than the client's read limit, and then ends the RPC with an error of its own.
type auditC09tF2Server struct {
	pingv1connect.UnimplementedPingServiceHandler
}

var auditC09tF2Big = &pingv1.CountUpResponse{Number: 1 << 62} // 10 bytes encoded

func (auditC09tF2Server) CountUp(
	_ context.Context,
	_ *connect.Request[pingv1.CountUpRequest],
	stream *connect.ServerStream[pingv1.CountUpResponse],
) error {
	if err := stream.Send(&pingv1.CountUpResponse{Number: 1}); err != nil { // 2 bytes
		return err
	}
	if err := stream.Send(auditC09tF2Big); err != nil {
		return err
	}
	return connect.NewError(connect.CodeAborted, errors.New("server says aborted"))
}

// C09: when a message larger than the read limit arrives, "that call fails
// with the documented error" (invalid_argument: message size S is larger than
// configured max N) - in every protocol. The gRPC client instead discards its
// own read-limit error whenever the HTTP trailers carry a non-OK status, so
// the application can't tell that a message was dropped for exceeding the
// limit. The Connect and gRPC-Web clients report the read-limit error for the
// very same server behaviour.
func TestAuditC09tFinding2(t *testing.T) {
	const limit = 5
	mux := http.NewServeMux()
	mux.Handle(pingv1connect.NewPingServiceHandler(
		auditC09tF2Server{},
		connect.WithCompressMinBytes(1<<30), // never compress
	))
	server := httptest.NewUnstartedServer(mux)
	server.EnableHTTP2 = true
	server.StartTLS()
	t.Cleanup(server.Close)

	wantSuffix := fmt.Sprintf("message size %d is larger than configured max %d", proto.Size(auditC09tF2Big), limit)
	for _, protocol := range []struct {
		name string
		opt  connect.ClientOption
	}{
		{"connect_baseline", connect.WithClientOptions()},
		{"grpcweb_baseline", connect.WithGRPCWeb()},
		{"grpc", connect.WithGRPC()},
	} {
		protocol := protocol
		t.Run(protocol.name, func(t *testing.T) {
			client := pingv1connect.NewPingServiceClient(
				server.Client(), server.URL,
				protocol.opt, connect.WithReadMaxBytes(limit),
			)
			stream, err := client.CountUp(context.Background(), connect.NewRequest(&pingv1.CountUpRequest{}))
			if err != nil {
				t.Fatal(err)
			}
			defer stream.Close()
			got := 0
			for stream.Receive() {
				got++
			}
			if got != 1 {
				t.Fatalf("expected exactly the one 2-byte message to be delivered, got %d", got)
			}
			err = stream.Err()
			if err == nil {
				t.Fatalf("expected an error for the %d-byte message with read limit %d, got none", proto.Size(auditC09tF2Big), limit)
			}
			if connect.CodeOf(err) != connect.CodeInvalidArgument || !strings.HasSuffix(err.Error(), wantSuffix) {
				t.Fatalf("C09 expects the call that received a %d-byte message with read limit %d to fail with "+
					"the read-limit error (invalid_argument: %s); observed (%s): %v",
					proto.Size(auditC09tF2Big), limit, wantSuffix, protocol.name, err)
			}
		})
	}
}
