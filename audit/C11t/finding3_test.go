package connect_test

import (
	"context"
	"errors"
	"net/http"
	"net/http/httptest"
	"reflect"
	"testing"

	connect "github.com/bufbuild/connect-go"
	pingv1 "github.com/bufbuild/connect-go/internal/gen/connect/ping/v1"
	"google.golang.org/protobuf/types/known/anypb"
)

// C11: on failure, the headers and trailers the handler set - and the
// metadata it attached to the error, the only way a unary handler has to set
// headers on failure - must reach the client at least in the error's metadata.
//
// Fault: the handler's error carries a detail that can't be serialized (an
// Any whose type URL isn't valid UTF-8). Each protocol has a fallback for an
// error that can't be put on the wire, and each fallback forgets metadata:
//   - gRPC and gRPC-Web replace status and message, but return before merging
//     the error's Meta() into the trailers;
//   - Connect streaming returns from MarshalEndStream without writing any
//     end-of-stream message, so the response trailers are lost as well;
//   - Connect unary has already merged Meta() into the HTTP headers, writes no
//     body, and the client then drops all headers (see finding 2).
func TestAuditC11tFinding3(t *testing.T) {
	newErr := func() *connect.Error {
		err := connect.NewError(connect.CodeAborted, errors.New("boom"))
		err.Meta().Add("X-Meta", "m1")
		err.Meta().Add("X-Meta", "m2")
		err.AddDetail(&anypb.Any{TypeUrl: "type.googleapis.com/\xff", Value: []byte{1}})
		return err
	}
	mux := http.NewServeMux()
	mux.Handle("/u", connect.NewUnaryHandler("/u",
		func(_ context.Context, _ *connect.Request[pingv1.PingRequest]) (*connect.Response[pingv1.PingResponse], error) {
			return nil, newErr()
		}))
	mux.Handle("/s", connect.NewServerStreamHandler("/s",
		func(_ context.Context, _ *connect.Request[pingv1.PingRequest], stream *connect.ServerStream[pingv1.PingResponse]) error {
			stream.ResponseHeader().Add("X-Head", "h1")
			stream.ResponseTrailer().Add("X-Trail", "t1")
			if err := stream.Send(&pingv1.PingResponse{Number: 1}); err != nil {
				return err
			}
			return newErr()
		}))
	server := httptest.NewUnstartedServer(mux)
	server.EnableHTTP2 = true
	server.StartTLS()
	defer server.Close()

	check := func(where string, err error, wantKeys map[string][]string) {
		t.Helper()
		if err == nil {
			t.Errorf("%s: expected the call to fail", where)
			return
		}
		var connectErr *connect.Error
		if !errors.As(err, &connectErr) {
			t.Errorf("%s: not a *connect.Error: %v", where, err)
			return
		}
		for key, want := range wantKeys {
			if got := connectErr.Meta().Values(key); !reflect.DeepEqual(got, want) {
				t.Errorf("%s: property C11 expects %s = %q (set by the handler) in the metadata of the client's error; "+
					"the error is %q and has %s = %q", where, key, want, err.Error(), key, got)
			}
		}
	}
	protocols := []struct {
		name string
		opts []connect.ClientOption
	}{
		{"connect", nil},
		{"grpc", []connect.ClientOption{connect.WithGRPC()}},
		{"grpcweb", []connect.ClientOption{connect.WithGRPCWeb()}},
	}
	for _, protocol := range protocols {
		unary := connect.NewClient[pingv1.PingRequest, pingv1.PingResponse](server.Client(), server.URL+"/u", protocol.opts...)
		_, err := unary.CallUnary(context.Background(), connect.NewRequest(&pingv1.PingRequest{}))
		check(protocol.name+"/unary", err, map[string][]string{"X-Meta": {"m1", "m2"}})

		streaming := connect.NewClient[pingv1.PingRequest, pingv1.PingResponse](server.Client(), server.URL+"/s", protocol.opts...)
		stream, err := streaming.CallServerStream(context.Background(), connect.NewRequest(&pingv1.PingRequest{}))
		if err != nil {
			t.Fatalf("%s: %v", protocol.name, err)
		}
		for stream.Receive() {
		}
		check(protocol.name+"/server-stream (error after a message)", stream.Err(), map[string][]string{
			"X-Meta":  {"m1", "m2"},
			"X-Head":  {"h1"},
			"X-Trail": {"t1"},
		})
		_ = stream.Close()
	}
}
