package connect_test

import (
	"context"
	"errors"
	"net/http"
	"net/http/httptest"
	"reflect"
	"strings"
	"testing"

	connect "github.com/bufbuild/connect-go"
	pingv1 "github.com/bufbuild/connect-go/internal/gen/connect/ping/v1"
)

// C11: on success, the trailers the handler set are visible among the
// response's trailers; on failure, headers and trailers are visible at least
// in the error's metadata.
//
// Option combination: the client limits the size of *messages* it is willing
// to read (WithReadMaxBytes). Connect streaming and gRPC-Web carry the
// trailers in a final envelope in the body, and the envelope reader applies
// the message limit to that envelope too. A handler whose trailers (every
// message of the response is tiny) serialize to more than the limit therefore
// has its successful response turned into a failure on the client, the
// trailers are gone, and the error carries no metadata at all - not even the
// response headers the client received long before. With gRPC, where trailers
// are HTTP trailers, the same call succeeds with all trailers.
func TestAuditC11tFinding5(t *testing.T) {
	wantTrailer := []string{strings.Repeat("t", 300)}
	wantHeader := []string{"h1"}
	mux := http.NewServeMux()
	mux.Handle("/s", connect.NewServerStreamHandler("/s",
		func(_ context.Context, _ *connect.Request[pingv1.PingRequest], stream *connect.ServerStream[pingv1.PingResponse]) error {
			stream.ResponseHeader()["X-Head"] = wantHeader
			stream.ResponseTrailer()["X-Trail"] = wantTrailer
			return stream.Send(&pingv1.PingResponse{Number: 1})
		}))
	server := httptest.NewUnstartedServer(mux)
	server.EnableHTTP2 = true
	server.StartTLS()
	defer server.Close()

	protocols := []struct {
		name string
		opts []connect.ClientOption
	}{
		{"grpc", []connect.ClientOption{connect.WithGRPC()}},
		{"connect", nil},
		{"grpcweb", []connect.ClientOption{connect.WithGRPCWeb()}},
	}
	for _, protocol := range protocols {
		opts := append([]connect.ClientOption{
			connect.WithReadMaxBytes(128),
			connect.WithAcceptCompression("gzip", nil, nil), // no response compression: sizes are what they seem
		}, protocol.opts...)
		client := connect.NewClient[pingv1.PingRequest, pingv1.PingResponse](server.Client(), server.URL+"/s", opts...)
		stream, err := client.CallServerStream(context.Background(), connect.NewRequest(&pingv1.PingRequest{}))
		if err != nil {
			t.Fatalf("%s: %v", protocol.name, err)
		}
		messages := 0
		for stream.Receive() {
			messages++
		}
		if messages != 1 {
			t.Errorf("%s: got %d messages, want 1", protocol.name, messages)
		}
		if err := stream.Err(); err != nil {
			// The call failed on the client: then the property wants headers and
			// trailers at least in the error's metadata.
			var connectErr *connect.Error
			if !errors.As(err, &connectErr) {
				t.Fatalf("%s: not a *connect.Error: %v", protocol.name, err)
			}
			if got := connectErr.Meta().Values("X-Trail"); !reflect.DeepEqual(got, wantTrailer) {
				t.Errorf("%s: the handler succeeded and set trailer X-Trail (300 bytes); property C11 expects it among the client's "+
					"response trailers, or on failure in the error's metadata; the client reports %q, ResponseTrailer() has %d values "+
					"for X-Trail and the error's metadata has %d", protocol.name, err.Error(), len(stream.ResponseTrailer().Values("X-Trail")), len(got))
			}
			if got := connectErr.Meta().Values("X-Head"); !reflect.DeepEqual(got, wantHeader) {
				t.Errorf("%s: property C11 expects header X-Head = %q at least in the error's metadata of the failed call; it has %q (whole metadata: %v)",
					protocol.name, wantHeader, got, connectErr.Meta())
			}
		} else {
			if got := stream.ResponseTrailer().Values("X-Trail"); !reflect.DeepEqual(got, wantTrailer) {
				t.Errorf("%s: trailer X-Trail: got %d values, want the handler's one", protocol.name, len(got))
			}
			if got := stream.ResponseHeader().Values("X-Head"); !reflect.DeepEqual(got, wantHeader) {
				t.Errorf("%s: header X-Head: got %q, want %q", protocol.name, got, wantHeader)
			}
		}
		_ = stream.Close()
	}
}
