package connect_test

import (
	"context"
	"net/http"
	"net/http/httptest"
	"reflect"
	"sync"
	"testing"

	connect "github.com/bufbuild/connect-go"
	pingv1 "github.com/bufbuild/connect-go/internal/gen/connect/ping/v1"
)

// C11: "Every header a client attaches to a call is visible to the handler",
// for all valid header names outside the protocol-reserved prefixes.
//
// User-Agent is an ordinary header name (no Connect-/Grpc- prefix), but for
// unary and server-streaming calls - where Request.Header() is the only place
// a caller can attach headers - the client overwrites (unary) or shadows
// (server streaming: the library's value is put first and net/http sends only
// the first User-Agent) the caller's value with its own "connect-go/..." or
// "grpc-go-connect/..." string. On client-streaming and bidi calls, where the
// caller writes to RequestHeader() after the library, the caller's value does
// arrive, so the handler is perfectly able to see it.
func TestAuditC11tFinding6(t *testing.T) {
	var mu sync.Mutex
	var seen http.Header
	record := func(h http.Header) {
		mu.Lock()
		defer mu.Unlock()
		seen = h.Clone()
	}
	mux := http.NewServeMux()
	mux.Handle("/u", connect.NewUnaryHandler("/u",
		func(_ context.Context, req *connect.Request[pingv1.PingRequest]) (*connect.Response[pingv1.PingResponse], error) {
			record(req.Header())
			return connect.NewResponse(&pingv1.PingResponse{}), nil
		}))
	mux.Handle("/s", connect.NewServerStreamHandler("/s",
		func(_ context.Context, req *connect.Request[pingv1.PingRequest], _ *connect.ServerStream[pingv1.PingResponse]) error {
			record(req.Header())
			return nil
		}))
	server := httptest.NewUnstartedServer(mux)
	server.EnableHTTP2 = true
	server.StartTLS()
	defer server.Close()

	want := []string{"my-app/1.2.3"}
	protocols := []struct {
		name string
		opts []connect.ClientOption
	}{
		{"connect", nil},
		{"grpc", []connect.ClientOption{connect.WithGRPC()}},
		{"grpcweb", []connect.ClientOption{connect.WithGRPCWeb()}},
	}
	for _, protocol := range protocols {
		unary := connect.NewClient[pingv1.PingRequest, pingv1.PingResponse](server.Client(), server.URL+"/u", protocol.opts...)
		req := connect.NewRequest(&pingv1.PingRequest{})
		req.Header()["User-Agent"] = want
		req.Header().Set("X-Other", "o")
		if _, err := unary.CallUnary(context.Background(), req); err != nil {
			t.Fatalf("%s: %v", protocol.name, err)
		}
		mu.Lock()
		got, other := seen.Values("User-Agent"), seen.Get("X-Other")
		mu.Unlock()
		if other != "o" {
			t.Fatalf("%s: the handler didn't see X-Other", protocol.name)
		}
		if !reflect.DeepEqual(got, want) {
			t.Errorf("%s unary: property C11 expects the handler to see the client's header User-Agent = %q; it saw %q",
				protocol.name, want, got)
		}

		streaming := connect.NewClient[pingv1.PingRequest, pingv1.PingResponse](server.Client(), server.URL+"/s", protocol.opts...)
		sreq := connect.NewRequest(&pingv1.PingRequest{})
		sreq.Header()["User-Agent"] = want
		stream, err := streaming.CallServerStream(context.Background(), sreq)
		if err != nil {
			t.Fatalf("%s: %v", protocol.name, err)
		}
		for stream.Receive() {
		}
		if err := stream.Err(); err != nil {
			t.Fatalf("%s: %v", protocol.name, err)
		}
		_ = stream.Close()
		mu.Lock()
		got = seen.Values("User-Agent")
		mu.Unlock()
		if !reflect.DeepEqual(got, want) {
			t.Errorf("%s server-stream: property C11 expects the handler to see the client's header User-Agent = %q; it saw %q",
				protocol.name, want, got)
		}
	}
}
