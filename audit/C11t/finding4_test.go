package connect_test

import (
	"context"
	"errors"
	"net/http"
	"net/http/httptest"
	"reflect"
	"testing"

	connect "github.com/bufbuild/connect-go"
	pingv1 "github.com/bufbuild/connect-go/internal/gen/connect/ping/v1"
)

// C11: every trailer the handler sets (and, on failure, the error's metadata)
// is visible to the client "in all protocols", for "all multimaps over valid
// header names outside the protocol-reserved prefixes".
//
// The gRPC handler hands trailers (and, on failure, the error's metadata) to
// net/http as HTTP trailers. net/http silently discards trailers whose name it
// considers unsuitable for a trailer (httpguts.ValidTrailerHeader: anything
// starting with "If-", and Authorization, Cache-Control, Www-Authenticate,
// Pragma, Range, Expect, Max-Forwards, ...), logging "ignoring invalid
// trailer". The same keys arrive intact with Connect and gRPC-Web, and as
// response headers in all three protocols.
func TestAuditC11tFinding4(t *testing.T) {
	keys := map[string][]string{
		"Www-Authenticate": {`Bearer realm="example"`, "Basic"},
		"Cache-Control":    {"no-store"},
		"Authorization":    {"token"},
		"If-Match":         {"abc"},
		"Pragma":           {"p"},
		"X-Ordinary":       {"fine"},
	}
	mux := http.NewServeMux()
	mux.Handle("/ok", connect.NewUnaryHandler("/ok",
		func(_ context.Context, _ *connect.Request[pingv1.PingRequest]) (*connect.Response[pingv1.PingResponse], error) {
			res := connect.NewResponse(&pingv1.PingResponse{Number: 1})
			for key, values := range keys {
				for _, v := range values {
					res.Trailer().Add(key, v)
				}
			}
			return res, nil
		}))
	mux.Handle("/fail", connect.NewUnaryHandler("/fail",
		func(_ context.Context, _ *connect.Request[pingv1.PingRequest]) (*connect.Response[pingv1.PingResponse], error) {
			err := connect.NewError(connect.CodeUnauthenticated, errors.New("who are you"))
			for key, values := range keys {
				for _, v := range values {
					err.Meta().Add(key, v)
				}
			}
			return nil, err
		}))
	server := httptest.NewUnstartedServer(mux)
	server.EnableHTTP2 = true
	server.StartTLS()
	defer server.Close()

	protocols := []struct {
		name string
		opts []connect.ClientOption
	}{
		{"connect", nil},
		{"grpcweb", []connect.ClientOption{connect.WithGRPCWeb()}},
		{"grpc", []connect.ClientOption{connect.WithGRPC()}},
	}
	for _, protocol := range protocols {
		client := connect.NewClient[pingv1.PingRequest, pingv1.PingResponse](server.Client(), server.URL+"/ok", protocol.opts...)
		res, err := client.CallUnary(context.Background(), connect.NewRequest(&pingv1.PingRequest{}))
		if err != nil {
			t.Fatalf("%s: %v", protocol.name, err)
		}
		for key, want := range keys {
			if got := res.Trailer().Values(key); !reflect.DeepEqual(got, want) {
				t.Errorf("%s, success: property C11 expects trailer %s = %q as the handler set it; the client's response trailers have %q",
					protocol.name, key, want, got)
			}
		}

		client = connect.NewClient[pingv1.PingRequest, pingv1.PingResponse](server.Client(), server.URL+"/fail", protocol.opts...)
		_, err = client.CallUnary(context.Background(), connect.NewRequest(&pingv1.PingRequest{}))
		var connectErr *connect.Error
		if !errors.As(err, &connectErr) {
			t.Fatalf("%s: expected a *connect.Error, got %v", protocol.name, err)
		}
		for key, want := range keys {
			if got := connectErr.Meta().Values(key); !reflect.DeepEqual(got, want) {
				t.Errorf("%s, failure: property C11 expects %s = %q in the error's metadata as the handler set it; the client's error has %q",
					protocol.name, key, want, got)
			}
		}
	}
}
