package connect_test

import (
	"context"
	"net/http"
	"net/http/httptest"
	"reflect"
	"testing"

	connect "github.com/bufbuild/connect-go"
	pingv1 "github.com/bufbuild/connect-go/internal/gen/connect/ping/v1"
)

// C11: trailers are visible to the client "with values unchanged", for all
// printable-ASCII values (0x20-0x7E, so including the space).
//
// gRPC-Web carries trailers in the body. The handler formats them with
// http.Header.Write, which trims leading and trailing whitespace from each
// value, and the client parses them with net/textproto, which does the same.
// Over the same HTTP/2 connection the response *headers* of the very same
// call, and the trailers of Connect and gRPC calls, arrive with these values
// unchanged.
func TestAuditC11tFinding7(t *testing.T) {
	want := []string{" leading", "trailing ", " both ", "in ner"}
	mux := http.NewServeMux()
	mux.Handle("/u", connect.NewUnaryHandler("/u",
		func(_ context.Context, _ *connect.Request[pingv1.PingRequest]) (*connect.Response[pingv1.PingResponse], error) {
			res := connect.NewResponse(&pingv1.PingResponse{Number: 1})
			res.Header()["X-Value"] = want
			res.Trailer()["X-Value"] = want
			return res, nil
		}))
	server := httptest.NewUnstartedServer(mux)
	server.EnableHTTP2 = true
	server.StartTLS()
	defer server.Close()

	protocols := []struct {
		name string
		opts []connect.ClientOption
	}{
		{"connect", nil},
		{"grpc", []connect.ClientOption{connect.WithGRPC()}},
		{"grpcweb", []connect.ClientOption{connect.WithGRPCWeb()}},
	}
	for _, protocol := range protocols {
		client := connect.NewClient[pingv1.PingRequest, pingv1.PingResponse](server.Client(), server.URL+"/u", protocol.opts...)
		res, err := client.CallUnary(context.Background(), connect.NewRequest(&pingv1.PingRequest{}))
		if err != nil {
			t.Fatalf("%s: %v", protocol.name, err)
		}
		if got := res.Header().Values("X-Value"); !reflect.DeepEqual(got, want) {
			t.Errorf("%s: property C11 expects response header X-Value = %q unchanged; the client sees %q", protocol.name, want, got)
		}
		if got := res.Trailer().Values("X-Value"); !reflect.DeepEqual(got, want) {
			t.Errorf("%s: property C11 expects response trailer X-Value = %q unchanged; the client sees %q", protocol.name, want, got)
		}
	}
}
