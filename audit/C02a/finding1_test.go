package connect_test

import (
	"context"
	"errors"
	"net/http"
	"net/http/httptest"
	"testing"

	connect "github.com/bufbuild/connect-go"
	pingv1 "github.com/bufbuild/connect-go/internal/gen/connect/ping/v1"
	"github.com/bufbuild/connect-go/internal/gen/connect/ping/v1/pingv1connect"
	"google.golang.org/protobuf/proto"
	"google.golang.org/protobuf/types/known/anypb"
)

// The handler fails with already_exists, message "m" and one detail: an
// Any-wrapped message whose type is not linked into this binary (as happens in
// a proxy/gateway that forwards details it got from an upstream service).
//
// Variant "newer_schema": the detail's type is linked in, but the payload was
// produced with a newer schema and carries a field (number 15) that the local
// descriptor doesn't know.
type auditC02aF1Server struct {
	pingv1connect.UnimplementedPingServiceHandler

	detail *anypb.Any
}

var (
	auditC02aF1UnknownType = &anypb.Any{
		TypeUrl: "type.googleapis.com/acme.inventory.v1.OutOfStock",
		Value:   []byte{0x08, 0x01}, // field 1, varint 1
	}
	auditC02aF1NewerSchema = &anypb.Any{
		TypeUrl: "type.googleapis.com/connect.ping.v1.PingRequest",
		Value:   []byte{0x08, 0x01, 0x78, 0x05}, // number = 1; field 15, varint 5
	}
)

func (s auditC02aF1Server) err() error {
	err := connect.NewError(connect.CodeAlreadyExists, errors.New("m"))
	err.AddDetail(s.detail)
	return err
}

func (s auditC02aF1Server) Ping(context.Context, *connect.Request[pingv1.PingRequest]) (*connect.Response[pingv1.PingResponse], error) {
	return nil, s.err()
}

func (s auditC02aF1Server) CountUp(_ context.Context, _ *connect.Request[pingv1.CountUpRequest], stream *connect.ServerStream[pingv1.CountUpResponse]) error {
	if err := stream.Send(&pingv1.CountUpResponse{Number: 1}); err != nil {
		return err
	}
	return s.err()
}

func TestAuditC02aFinding1(t *testing.T) {
	t.Run("unknown_type", func(t *testing.T) { auditC02aF1Run(t, auditC02aF1UnknownType) })
	t.Run("newer_schema", func(t *testing.T) { auditC02aF1Run(t, auditC02aF1NewerSchema) })
}

func auditC02aF1Run(t *testing.T, detail *anypb.Any) {
	mux := http.NewServeMux()
	mux.Handle(pingv1connect.NewPingServiceHandler(auditC02aF1Server{detail: detail}))
	server := httptest.NewUnstartedServer(mux)
	server.EnableHTTP2 = true
	server.StartTLS()
	defer server.Close()

	check := func(t *testing.T, err error) {
		t.Helper()
		if err == nil {
			t.Fatalf("C02 expects an error with code already_exists; observed success")
		}
		var connectErr *connect.Error
		if !errors.As(err, &connectErr) {
			t.Fatalf("C02 expects a *connect.Error; observed %T %v", err, err)
		}
		if connectErr.Code() != connect.CodeAlreadyExists {
			t.Errorf("C02 expects the handler's code already_exists; observed code %v (client-side error text: %q)", connectErr.Code(), connectErr.Error())
		}
		if connectErr.Message() != "m" {
			t.Errorf("C02 expects the byte-identical message %q; observed %q", "m", connectErr.Message())
		}
		if len(connectErr.Details()) != 1 {
			t.Errorf("C02 expects 1 detail; observed %d", len(connectErr.Details()))
		} else if !proto.Equal(connectErr.Details()[0], detail) {
			t.Errorf("C02 expects a detail equal to the handler's: type %q payload %x; observed type %q payload %x",
				detail.TypeUrl, detail.Value, auditC02aF1TypeURL(connectErr.Details()[0]), auditC02aF1Payload(connectErr.Details()[0]))
		}
	}

	protocols := []struct {
		name string
		opts []connect.ClientOption
	}{
		{"grpc", []connect.ClientOption{connect.WithGRPC()}},       // passes: binary status
		{"grpcweb", []connect.ClientOption{connect.WithGRPCWeb()}}, // passes: binary status
		{"connect", nil}, // fails: JSON error needs the type registry
	}
	for _, protocol := range protocols {
		protocol := protocol
		t.Run(protocol.name+"/unary", func(t *testing.T) {
			client := pingv1connect.NewPingServiceClient(server.Client(), server.URL, protocol.opts...)
			_, err := client.Ping(context.Background(), connect.NewRequest(&pingv1.PingRequest{}))
			check(t, err)
		})
		t.Run(protocol.name+"/server_stream_after_1_message", func(t *testing.T) {
			client := pingv1connect.NewPingServiceClient(server.Client(), server.URL, protocol.opts...)
			stream, err := client.CountUp(context.Background(), connect.NewRequest(&pingv1.CountUpRequest{Number: 1}))
			if err != nil {
				t.Fatalf("CountUp: %v", err)
			}
			defer stream.Close()
			received := 0
			for stream.Receive() {
				received++
			}
			if received != 1 {
				t.Errorf("expected 1 message before the error; observed %d", received)
			}
			check(t, stream.Err())
		})
	}
}

func auditC02aF1Payload(detail connect.ErrorDetail) []byte {
	if asAny, ok := detail.(*anypb.Any); ok {
		return asAny.Value
	}
	return nil
}

func auditC02aF1TypeURL(detail connect.ErrorDetail) string {
	if asAny, ok := detail.(*anypb.Any); ok {
		return asAny.TypeUrl
	}
	return string(detail.MessageName())
}
