package connect_test

import (
	"context"
	"errors"
	"fmt"
	"net/http"
	"net/http/httptest"
	"testing"

	connect "github.com/bufbuild/connect-go"
	pingv1 "github.com/bufbuild/connect-go/internal/gen/connect/ping/v1"
	"github.com/bufbuild/connect-go/internal/gen/connect/ping/v1/pingv1connect"
)

// The handler returns a plain Go error (not a *connect.Error) that wraps
// context.DeadlineExceeded - e.g. because a backend call made with the
// handler's own, shorter, internal context timed out. The RPC's own context
// has no deadline and is not canceled.
type auditC02aF5Server struct {
	pingv1connect.UnimplementedPingServiceHandler
}

func auditC02aF5Err() error {
	return fmt.Errorf("query inventory db: %w", context.DeadlineExceeded)
}

func (auditC02aF5Server) Ping(context.Context, *connect.Request[pingv1.PingRequest]) (*connect.Response[pingv1.PingResponse], error) {
	return nil, auditC02aF5Err()
}

func (auditC02aF5Server) CountUp(_ context.Context, _ *connect.Request[pingv1.CountUpRequest], stream *connect.ServerStream[pingv1.CountUpResponse]) error {
	if err := stream.Send(&pingv1.CountUpResponse{Number: 1}); err != nil {
		return err
	}
	return auditC02aF5Err()
}

func TestAuditC02aFinding5(t *testing.T) {
	mux := http.NewServeMux()
	mux.Handle(pingv1connect.NewPingServiceHandler(auditC02aF5Server{}))
	server := httptest.NewUnstartedServer(mux)
	server.EnableHTTP2 = true
	server.StartTLS()
	defer server.Close()

	check := func(t *testing.T, err error) {
		t.Helper()
		var connectErr *connect.Error
		if !errors.As(err, &connectErr) {
			t.Fatalf("C02 expects a *connect.Error; observed %T %v", err, err)
		}
		if connectErr.Message() != auditC02aF5Err().Error() {
			t.Errorf("C02 expects the plain error's text %q; observed %q", auditC02aF5Err().Error(), connectErr.Message())
		}
		if connectErr.Code() != connect.CodeUnknown {
			t.Errorf("C02: a plain Go error arrives as code unknown with its text; observed code %v for the plain error %q", connectErr.Code(), auditC02aF5Err().Error())
		}
	}

	protocols := []struct {
		name string
		opts []connect.ClientOption
	}{
		{"connect", nil},
		{"grpc", []connect.ClientOption{connect.WithGRPC()}},
		{"grpcweb", []connect.ClientOption{connect.WithGRPCWeb()}},
	}
	for _, protocol := range protocols {
		protocol := protocol
		t.Run(protocol.name+"/unary", func(t *testing.T) {
			client := pingv1connect.NewPingServiceClient(server.Client(), server.URL, protocol.opts...)
			_, err := client.Ping(context.Background(), connect.NewRequest(&pingv1.PingRequest{}))
			check(t, err)
		})
		t.Run(protocol.name+"/server_stream_after_1_message", func(t *testing.T) {
			client := pingv1connect.NewPingServiceClient(server.Client(), server.URL, protocol.opts...)
			stream, err := client.CountUp(context.Background(), connect.NewRequest(&pingv1.CountUpRequest{Number: 1}))
			if err != nil {
				t.Fatalf("CountUp: %v", err)
			}
			defer stream.Close()
			for stream.Receive() {
			}
			check(t, stream.Err())
		})
	}
}
