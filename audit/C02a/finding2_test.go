package connect_test

import (
	"context"
	"errors"
	"net/http"
	"net/http/httptest"
	"testing"

	connect "github.com/bufbuild/connect-go"
	pingv1 "github.com/bufbuild/connect-go/internal/gen/connect/ping/v1"
	"github.com/bufbuild/connect-go/internal/gen/connect/ping/v1/pingv1connect"
)

// The handler fails with unauthenticated and attaches the customary
// Www-Authenticate challenge (plus Cache-Control) as error metadata.
type auditC02aF2Server struct {
	pingv1connect.UnimplementedPingServiceHandler
}

const (
	auditC02aF2Challenge = `Bearer realm="example"`
	auditC02aF2Cache     = "no-store"
)

func auditC02aF2Err() error {
	err := connect.NewError(connect.CodeUnauthenticated, errors.New("token expired"))
	err.Meta().Set("Www-Authenticate", auditC02aF2Challenge)
	err.Meta().Set("Cache-Control", auditC02aF2Cache)
	err.Meta().Set("X-Custom", "kept") // control: an ordinary key
	return err
}

func (auditC02aF2Server) Ping(context.Context, *connect.Request[pingv1.PingRequest]) (*connect.Response[pingv1.PingResponse], error) {
	return nil, auditC02aF2Err()
}

func (auditC02aF2Server) CountUp(_ context.Context, _ *connect.Request[pingv1.CountUpRequest], stream *connect.ServerStream[pingv1.CountUpResponse]) error {
	if err := stream.Send(&pingv1.CountUpResponse{Number: 1}); err != nil {
		return err
	}
	return auditC02aF2Err()
}

func TestAuditC02aFinding2(t *testing.T) {
	mux := http.NewServeMux()
	mux.Handle(pingv1connect.NewPingServiceHandler(auditC02aF2Server{}))
	server := httptest.NewUnstartedServer(mux)
	server.EnableHTTP2 = true
	server.StartTLS()
	defer server.Close()

	check := func(t *testing.T, err error) {
		t.Helper()
		var connectErr *connect.Error
		if !errors.As(err, &connectErr) {
			t.Fatalf("C02 expects a *connect.Error; observed %T %v", err, err)
		}
		if connectErr.Code() != connect.CodeUnauthenticated || connectErr.Message() != "token expired" {
			t.Errorf("C02 expects unauthenticated/%q; observed %v/%q", "token expired", connectErr.Code(), connectErr.Message())
		}
		for key, want := range map[string]string{
			"X-Custom":         "kept",
			"Www-Authenticate": auditC02aF2Challenge,
			"Cache-Control":    auditC02aF2Cache,
		} {
			got := connectErr.Meta().Values(key)
			found := false
			for _, value := range got {
				if value == want {
					found = true
				}
			}
			if !found {
				t.Errorf("C02 expects the error metadata to contain every key/value the handler attached, here %s: %q; observed values %q for that key", key, want, got)
			}
		}
	}

	protocols := []struct {
		name string
		opts []connect.ClientOption
	}{
		{"connect", nil}, // passes
		{"grpcweb", []connect.ClientOption{connect.WithGRPCWeb()}}, // passes
		{"grpc", []connect.ClientOption{connect.WithGRPC()}},       // fails: metadata goes out as HTTP trailers
	}
	for _, protocol := range protocols {
		protocol := protocol
		t.Run(protocol.name+"/unary", func(t *testing.T) {
			client := pingv1connect.NewPingServiceClient(server.Client(), server.URL, protocol.opts...)
			_, err := client.Ping(context.Background(), connect.NewRequest(&pingv1.PingRequest{}))
			check(t, err)
		})
		t.Run(protocol.name+"/server_stream_after_1_message", func(t *testing.T) {
			client := pingv1connect.NewPingServiceClient(server.Client(), server.URL, protocol.opts...)
			stream, err := client.CountUp(context.Background(), connect.NewRequest(&pingv1.CountUpRequest{Number: 1}))
			if err != nil {
				t.Fatalf("CountUp: %v", err)
			}
			defer stream.Close()
			for stream.Receive() {
			}
			check(t, stream.Err())
		})
	}
}
