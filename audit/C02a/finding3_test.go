package connect_test

import (
	"context"
	"errors"
	"net/http"
	"net/http/httptest"
	"strings"
	"testing"

	connect "github.com/bufbuild/connect-go"
	pingv1 "github.com/bufbuild/connect-go/internal/gen/connect/ping/v1"
	"github.com/bufbuild/connect-go/internal/gen/connect/ping/v1/pingv1connect"
)

// The handler fails with a "long" (4 KiB, incompressible-ish) message. The
// client limits the size of response *messages* with WithReadMaxBytes(1024);
// per the option's documentation the "limits apply to each Protobuf message",
// and the response messages here are tiny.
type auditC02aF3Server struct {
	pingv1connect.UnimplementedPingServiceHandler
}

var auditC02aF3Message = func() string {
	var builder strings.Builder
	for i := 0; builder.Len() < 4096; i++ {
		// Vary the content so that gzip can't shrink it below the limit.
		builder.WriteString(strings.Repeat(string(rune('a'+i%26)), 1+i%3))
		builder.WriteString(string(rune(0x3b1 + (i*7)%200)))
		builder.WriteByte(byte('0' + (i*i)%10))
	}
	return builder.String()
}()

func auditC02aF3Err() error {
	err := connect.NewError(connect.CodeFailedPrecondition, errors.New(auditC02aF3Message))
	err.Meta().Set("X-Custom", "kept")
	return err
}

func (auditC02aF3Server) Ping(context.Context, *connect.Request[pingv1.PingRequest]) (*connect.Response[pingv1.PingResponse], error) {
	return nil, auditC02aF3Err()
}

func (auditC02aF3Server) CountUp(_ context.Context, _ *connect.Request[pingv1.CountUpRequest], stream *connect.ServerStream[pingv1.CountUpResponse]) error {
	if err := stream.Send(&pingv1.CountUpResponse{Number: 1}); err != nil {
		return err
	}
	return auditC02aF3Err()
}

func TestAuditC02aFinding3(t *testing.T) {
	mux := http.NewServeMux()
	// Don't compress small frames, so the outcome doesn't depend on how well
	// the error text compresses.
	mux.Handle(pingv1connect.NewPingServiceHandler(auditC02aF3Server{}, connect.WithCompressMinBytes(1<<20)))
	server := httptest.NewUnstartedServer(mux)
	server.EnableHTTP2 = true
	server.StartTLS()
	defer server.Close()

	check := func(t *testing.T, err error) {
		t.Helper()
		var connectErr *connect.Error
		if !errors.As(err, &connectErr) {
			t.Fatalf("C02 expects a *connect.Error; observed %T %v", err, err)
		}
		if connectErr.Code() != connect.CodeFailedPrecondition {
			t.Errorf("C02 expects the handler's code failed_precondition; observed %v", connectErr.Code())
		}
		if connectErr.Message() != auditC02aF3Message {
			t.Errorf("C02 expects the handler's byte-identical %d-byte message; observed %q", len(auditC02aF3Message), connectErr.Message())
		}
		if got := connectErr.Meta().Get("X-Custom"); got != "kept" {
			t.Errorf("C02 expects metadata X-Custom: kept; observed %q", got)
		}
	}

	protocols := []struct {
		name string
		opts []connect.ClientOption
	}{
		{"connect", nil},
		{"grpc", []connect.ClientOption{connect.WithGRPC()}},
		{"grpcweb", []connect.ClientOption{connect.WithGRPCWeb()}},
	}
	for _, protocol := range protocols {
		protocol := protocol
		opts := append([]connect.ClientOption{connect.WithReadMaxBytes(1024)}, protocol.opts...)
		t.Run(protocol.name+"/unary", func(t *testing.T) {
			// Passes in all three protocols (HTTP body without limit, HTTP
			// trailers, trailers-only HTTP headers).
			client := pingv1connect.NewPingServiceClient(server.Client(), server.URL, opts...)
			_, err := client.Ping(context.Background(), connect.NewRequest(&pingv1.PingRequest{}))
			check(t, err)
		})
		t.Run(protocol.name+"/server_stream_after_1_message", func(t *testing.T) {
			// Fails for connect (end-of-stream envelope) and grpcweb (trailers
			// envelope): the message limit is applied to the error frame.
			client := pingv1connect.NewPingServiceClient(server.Client(), server.URL, opts...)
			stream, err := client.CountUp(context.Background(), connect.NewRequest(&pingv1.CountUpRequest{Number: 1}))
			if err != nil {
				t.Fatalf("CountUp: %v", err)
			}
			defer stream.Close()
			received := 0
			for stream.Receive() {
				received++
			}
			if received != 1 {
				t.Errorf("expected 1 message before the error; observed %d", received)
			}
			check(t, stream.Err())
		})
	}
}
