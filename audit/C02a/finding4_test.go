package connect_test

import (
	"context"
	"errors"
	"net/http"
	"net/http/httptest"
	"testing"

	connect "github.com/bufbuild/connect-go"
	pingv1 "github.com/bufbuild/connect-go/internal/gen/connect/ping/v1"
	"github.com/bufbuild/connect-go/internal/gen/connect/ping/v1/pingv1connect"
)

// The handler attaches error metadata whose key happens to start with
// "Trailer-" (a legal HTTP field name, e.g. "Trailer-Id").
type auditC02aF4Server struct {
	pingv1connect.UnimplementedPingServiceHandler
}

func auditC02aF4Err() error {
	err := connect.NewError(connect.CodeNotFound, errors.New("no such trailer"))
	err.Meta().Set("Trailer-Id", "t-42")
	err.Meta().Set("X-Custom", "kept") // control
	return err
}

func (auditC02aF4Server) Ping(context.Context, *connect.Request[pingv1.PingRequest]) (*connect.Response[pingv1.PingResponse], error) {
	return nil, auditC02aF4Err()
}

func (auditC02aF4Server) CountUp(_ context.Context, _ *connect.Request[pingv1.CountUpRequest], _ *connect.ServerStream[pingv1.CountUpResponse]) error {
	return auditC02aF4Err()
}

func TestAuditC02aFinding4(t *testing.T) {
	mux := http.NewServeMux()
	mux.Handle(pingv1connect.NewPingServiceHandler(auditC02aF4Server{}))
	server := httptest.NewUnstartedServer(mux)
	server.EnableHTTP2 = true
	server.StartTLS()
	defer server.Close()

	check := func(t *testing.T, err error) {
		t.Helper()
		var connectErr *connect.Error
		if !errors.As(err, &connectErr) {
			t.Fatalf("C02 expects a *connect.Error; observed %T %v", err, err)
		}
		if connectErr.Code() != connect.CodeNotFound {
			t.Errorf("C02 expects not_found; observed %v", connectErr.Code())
		}
		if got := connectErr.Meta().Get("X-Custom"); got != "kept" {
			t.Errorf("C02 expects metadata X-Custom: kept; observed %q", got)
		}
		if got := connectErr.Meta().Values("Trailer-Id"); len(got) != 1 || got[0] != "t-42" {
			t.Errorf("C02 expects the error metadata to contain the handler's key/value Trailer-Id: %q; observed values %q for key Trailer-Id (and %q under the different key %q)",
				"t-42", got, connectErr.Meta().Values("Id"), "Id")
		}
	}

	protocols := []struct {
		name string
		opts []connect.ClientOption
	}{
		{"grpc", []connect.ClientOption{connect.WithGRPC()}},       // passes
		{"grpcweb", []connect.ClientOption{connect.WithGRPCWeb()}}, // passes
		{"connect", nil}, // unary fails, streaming passes
	}
	for _, protocol := range protocols {
		protocol := protocol
		t.Run(protocol.name+"/unary", func(t *testing.T) {
			client := pingv1connect.NewPingServiceClient(server.Client(), server.URL, protocol.opts...)
			_, err := client.Ping(context.Background(), connect.NewRequest(&pingv1.PingRequest{}))
			check(t, err)
		})
		t.Run(protocol.name+"/server_stream", func(t *testing.T) {
			client := pingv1connect.NewPingServiceClient(server.Client(), server.URL, protocol.opts...)
			stream, err := client.CountUp(context.Background(), connect.NewRequest(&pingv1.CountUpRequest{Number: 1}))
			if err != nil {
				t.Fatalf("CountUp: %v", err)
			}
			defer stream.Close()
			for stream.Receive() {
			}
			check(t, stream.Err())
		})
	}
}
