package connect_test

import (
	"bytes"
	"context"
	"io"
	"net/http"
	"net/http/httptest"
	"testing"

	connect "github.com/bufbuild/connect-go"
	pingv1 "github.com/bufbuild/connect-go/internal/gen/connect/ping/v1"
)

// C07: user code only ever receives messages that decoded successfully.
//
// ClientStream.Receive decodes straight into the value that Msg hands out.
// When decoding fails half-way, Receive reports false - but Msg (documented as
// "the most recent message unmarshaled by a call to Receive") now returns the
// partially decoded message, populated from the undecodable payload, instead
// of the last message that did decode (or an empty one).
func TestAuditC07zFinding3(t *testing.T) {
	type observation struct {
		received []int64
		afterEnd int64
		err      error
	}
	observed := make(chan observation, 1)
	mux := http.NewServeMux()
	mux.Handle("/sum", connect.NewClientStreamHandler("/sum",
		func(_ context.Context, stream *connect.ClientStream[pingv1.SumRequest]) (*connect.Response[pingv1.SumResponse], error) {
			var obs observation
			for stream.Receive() {
				obs.received = append(obs.received, stream.Msg().Number)
			}
			obs.afterEnd = stream.Msg().Number // what the handler holds once the stream has stopped
			obs.err = stream.Err()
			observed <- obs
			if err := stream.Err(); err != nil {
				return nil, err
			}
			return connect.NewResponse(&pingv1.SumResponse{}), nil
		}))
	server := httptest.NewServer(mux)
	defer server.Close()

	// Envelope 1: SumRequest{number: 1} - valid.
	// Envelope 2: field 1 = 666, followed by a tag with no value: not a valid
	// Protobuf message.
	body := []byte{
		0, 0, 0, 0, 2, 0x08, 0x01,
		0, 0, 0, 0, 4, 0x08, 0x9a, 0x05, 0x08,
	}
	request, err := http.NewRequest(http.MethodPost, server.URL+"/sum", bytes.NewReader(body))
	if err != nil {
		t.Fatal(err)
	}
	request.Header.Set("Content-Type", "application/connect+proto")
	response, err := server.Client().Do(request)
	if err != nil {
		t.Fatal(err)
	}
	defer response.Body.Close()
	_, _ = io.ReadAll(response.Body)

	obs := <-observed
	if len(obs.received) != 1 || obs.received[0] != 1 || obs.err == nil {
		t.Fatalf("setup: want exactly the first message received and then a decoding error, got %v, err %v", obs.received, obs.err)
	}
	if obs.afterEnd != 1 && obs.afterEnd != 0 {
		t.Errorf("client-streaming handler, second envelope undecodable (payload 08 9a 05 08): Receive returned false with %v; "+
			"property C07 expects the handler to be given only messages that decoded successfully (Msg: the last good message, number 1, or an empty one); "+
			"observed Msg().Number = %d, taken from the undecodable payload", obs.err, obs.afterEnd)
	}
}
