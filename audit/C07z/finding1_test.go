package connect_test

import (
	"bufio"
	"context"
	"encoding/binary"
	"fmt"
	"io"
	"net"
	"net/http"
	"net/http/httptest"
	"sync/atomic"
	"testing"
	"time"

	connect "github.com/bufbuild/connect-go"
	pingv1 "github.com/bufbuild/connect-go/internal/gen/connect/ping/v1"
	"google.golang.org/protobuf/proto"
)

// C07: for every HTTP version, serving a request yields a response that is
// well-formed for the protocol selected by its Content-Type (or a bare
// 405/415/505), and rejections reach the peer as error codes.
//
// A gRPC (application/grpc) request sent over HTTP/1.0 is accepted by the
// handler (only bidi streams are refused with 505 below HTTP/2). gRPC carries
// its status exclusively in HTTP trailers, and net/http can only send trailers
// on chunked (HTTP/1.1) or HTTP/2 responses. So the peer gets "200 OK" with no
// Grpc-Status anywhere: neither a success nor a rejection is expressible.
func TestAuditC07zFinding1(t *testing.T) {
	var calls int32
	mux := http.NewServeMux()
	mux.Handle("/ping", connect.NewUnaryHandler("/ping",
		func(_ context.Context, r *connect.Request[pingv1.PingRequest]) (*connect.Response[pingv1.PingResponse], error) {
			atomic.AddInt32(&calls, 1)
			return connect.NewResponse(&pingv1.PingResponse{Number: r.Msg.Number}), nil
		}))
	server := httptest.NewServer(mux)
	defer server.Close()

	payload, err := proto.Marshal(&pingv1.PingRequest{Number: 7})
	if err != nil {
		t.Fatal(err)
	}
	envelope := make([]byte, 5+len(payload))
	binary.BigEndian.PutUint32(envelope[1:5], uint32(len(payload)))
	copy(envelope[5:], payload)

	exchange := func(version string, extraHeader string) (*http.Response, []byte) {
		t.Helper()
		conn, err := net.DialTimeout("tcp", server.Listener.Addr().String(), 2*time.Second)
		if err != nil {
			t.Fatal(err)
		}
		defer conn.Close()
		_ = conn.SetDeadline(time.Now().Add(5 * time.Second))
		request := fmt.Sprintf(
			"POST /ping HTTP/%s\r\nHost: example\r\nContent-Type: application/grpc\r\n%sContent-Length: %d\r\nConnection: close\r\n\r\n%s",
			version, extraHeader, len(envelope), envelope,
		)
		if _, err := io.WriteString(conn, request); err != nil {
			t.Fatal(err)
		}
		response, err := http.ReadResponse(bufio.NewReader(conn), nil)
		if err != nil {
			t.Fatalf("HTTP/%s: unreadable response: %v", version, err)
		}
		body, _ := io.ReadAll(response.Body) // trailers are available once the body is drained
		_ = response.Body.Close()
		return response, body
	}
	grpcStatus := func(response *http.Response) string {
		if s := response.Trailer.Get("Grpc-Status"); s != "" {
			return s
		}
		return response.Header.Get("Grpc-Status")
	}

	// Sanity: over HTTP/1.1 the very same bytes produce a well-formed gRPC response.
	if response, _ := exchange("1.1", ""); response.StatusCode != http.StatusOK || grpcStatus(response) != "0" {
		t.Fatalf("HTTP/1.1 control: want 200 with Grpc-Status 0, got %d with Grpc-Status %q", response.StatusCode, grpcStatus(response))
	}

	// (a) a valid call over HTTP/1.0
	response, body := exchange("1.0", "")
	if response.StatusCode == http.StatusHTTPVersionNotSupported {
		return // a bare 505 would satisfy the property
	}
	if got := grpcStatus(response); got == "" {
		t.Errorf("valid gRPC request over HTTP/1.0: property C07 expects a well-formed gRPC response (one with a Grpc-Status) or a bare 505; "+
			"observed %q with headers %v, trailers %v, body %x, handler calls %d: no Grpc-Status at all",
			response.Status, response.Header, response.Trailer, body, atomic.LoadInt32(&calls))
	}

	// (b) a call that must be rejected (unknown compression) over HTTP/1.0: the
	// documented code (unimplemented = 12) has to reach the peer.
	response, body = exchange("1.0", "Grpc-Encoding: zzz\r\n")
	if response.StatusCode == http.StatusHTTPVersionNotSupported {
		return
	}
	if got := grpcStatus(response); got != "12" {
		t.Errorf("gRPC request with unknown Grpc-Encoding over HTTP/1.0: property C07 expects the rejection to reach the peer as Grpc-Status 12 (unimplemented) or a bare 505; "+
			"observed %q with Grpc-Status %q, headers %v, trailers %v, body %x",
			response.Status, got, response.Header, response.Trailer, body)
	}
}
