package connect_test

import (
	"bytes"
	"context"
	"io"
	"net/http"
	"net/http/httptest"
	"sync/atomic"
	"testing"

	connect "github.com/bufbuild/connect-go"
	pingv1 "github.com/bufbuild/connect-go/internal/gen/connect/ping/v1"
)

// C07: malformed framing and undecodable payloads reach the peer as error
// codes, never as success, and user code only receives messages that decoded
// successfully.
//
// An envelope whose Compressed-Flag is set although the request declares no
// message encoding is malformed framing (the gRPC specification: "If
// Message-Encoding header is omitted then the Compressed-Flag must be 0"), and
// the envelope reader does reject it - but only if the payload is non-empty.
// With a zero-length payload the flag is ignored: the handler runs and the
// peer is told the call succeeded. (With an encoding declared, the same
// zero-length "compressed" payload is not a valid gzip stream, and is
// accepted all the same.)
func TestAuditC07zFinding2(t *testing.T) {
	var calls int32
	mux := http.NewServeMux()
	mux.Handle("/ping", connect.NewUnaryHandler("/ping",
		func(_ context.Context, r *connect.Request[pingv1.PingRequest]) (*connect.Response[pingv1.PingResponse], error) {
			atomic.AddInt32(&calls, 1)
			return connect.NewResponse(&pingv1.PingResponse{Number: r.Msg.Number}), nil
		}))
	server := httptest.NewServer(mux)
	defer server.Close()

	post := func(contentType string, header map[string]string, body []byte) (*http.Response, []byte) {
		t.Helper()
		request, err := http.NewRequest(http.MethodPost, server.URL+"/ping", bytes.NewReader(body))
		if err != nil {
			t.Fatal(err)
		}
		request.Header.Set("Content-Type", contentType)
		for k, v := range header {
			request.Header.Set(k, v)
		}
		response, err := server.Client().Do(request)
		if err != nil {
			t.Fatal(err)
		}
		defer response.Body.Close()
		data, _ := io.ReadAll(response.Body)
		return response, data
	}

	// Control: compressed flag, no Grpc-Encoding, one payload byte: rejected.
	atomic.StoreInt32(&calls, 0)
	response, _ := post("application/grpc", nil, []byte{1, 0, 0, 0, 1, 0})
	if status := response.Trailer.Get("Grpc-Status"); status == "0" || status == "" || atomic.LoadInt32(&calls) != 0 {
		t.Fatalf("control: compressed flag without Grpc-Encoding and a non-empty payload should be rejected, got Grpc-Status %q, calls %d", status, calls)
	}

	// The same framing error with a zero-length payload.
	atomic.StoreInt32(&calls, 0)
	response, body := post("application/grpc", nil, []byte{1, 0, 0, 0, 0})
	if status := response.Trailer.Get("Grpc-Status"); status == "0" || atomic.LoadInt32(&calls) != 0 {
		t.Errorf("gRPC request whose only envelope has the Compressed-Flag set (prefix 01 00000000) but no Grpc-Encoding header: "+
			"property C07 expects malformed framing to reach the peer as an error code and the handler not to run; "+
			"observed Grpc-Status %q (message %q), response body %x, handler calls %d",
			status, response.Trailer.Get("Grpc-Message"), body, atomic.LoadInt32(&calls))
	}

	// Same for the Connect streaming protocol's framing (server-streaming RPC).
	var streamCalls int32
	mux.Handle("/count", connect.NewServerStreamHandler("/count",
		func(_ context.Context, _ *connect.Request[pingv1.CountUpRequest], _ *connect.ServerStream[pingv1.CountUpResponse]) error {
			atomic.AddInt32(&streamCalls, 1)
			return nil
		}))
	request, err := http.NewRequest(http.MethodPost, server.URL+"/count", bytes.NewReader([]byte{1, 0, 0, 0, 0}))
	if err != nil {
		t.Fatal(err)
	}
	request.Header.Set("Content-Type", "application/connect+proto")
	streamResponse, err := server.Client().Do(request)
	if err != nil {
		t.Fatal(err)
	}
	defer streamResponse.Body.Close()
	streamBody, _ := io.ReadAll(streamResponse.Body)
	if !bytes.Contains(streamBody, []byte(`"error"`)) || atomic.LoadInt32(&streamCalls) != 0 {
		t.Errorf("Connect streaming request whose only envelope has the compressed flag set but no Connect-Content-Encoding header: "+
			"property C07 expects an end-of-stream message carrying an error and the handler not to run; "+
			"observed body %q, handler calls %d", streamBody, atomic.LoadInt32(&streamCalls))
	}
}
