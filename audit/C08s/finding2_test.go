package connect_test

import (
	"bytes"
	"compress/gzip"
	"context"
	"encoding/binary"
	"io"
	"net/http"
	"net/http/httptest"
	"strings"
	"testing"

	connect "github.com/bufbuild/connect-go"
	pingv1 "github.com/bufbuild/connect-go/internal/gen/connect/ping/v1"
)

// C08: "a request compressed with an algorithm the handler lacks is rejected
// as unimplemented, listing the supported algorithms".
//
// A header sent as several field lines means the same as one line with the
// values joined by commas (commit 9ab368c applied this to the accept-encoding
// headers). The request's *content* encoding is still read with Header.Get,
// i.e. only its first line. "Content-Encoding: zstd" after a first line
// "identity" (or "gzip") describes a body the handler cannot decode; sent on
// one line ("identity, zstd") the handler answers unimplemented and lists its
// algorithms, sent on two lines it overlooks zstd, feeds the compressed bytes
// to the codec and reports invalid_argument without any list.
func TestAuditC08sFinding2(t *testing.T) {
	const procedure = "/connect.ping.v1.PingService/Ping"
	userCalls := 0
	handler := connect.NewUnaryHandler(
		procedure,
		func(_ context.Context, req *connect.Request[pingv1.PingRequest]) (*connect.Response[pingv1.PingResponse], error) {
			userCalls++
			return connect.NewResponse(&pingv1.PingResponse{Text: req.Msg.Text}), nil
		},
	)
	// Stand-in for a zstd frame: the handler has no zstd, so all that matters is
	// that these aren't the message itself.
	zstdBytes := []byte{0x28, 0xb5, 0x2f, 0xfd, 0x04, 0x58, 0x41, 0x00, 0x00, 0x0a, 0x02, 0x68, 0x69, 0xde, 0xad, 0xbe, 0xef}
	gzipped := func(data []byte) []byte {
		var buf bytes.Buffer
		zw := gzip.NewWriter(&buf)
		_, _ = zw.Write(data)
		_ = zw.Close()
		return buf.Bytes()
	}
	envelope := func(flags byte, data []byte) []byte {
		out := make([]byte, 5, 5+len(data))
		out[0] = flags
		binary.BigEndian.PutUint32(out[1:], uint32(len(data)))
		return append(out, data...)
	}

	type outcome struct {
		code, message string
	}
	call := func(contentType, header string, lines []string, body []byte) outcome {
		request := httptest.NewRequest(http.MethodPost, procedure, bytes.NewReader(body))
		request.Header.Set("Content-Type", contentType)
		for _, line := range lines {
			request.Header.Add(header, line)
		}
		recorder := httptest.NewRecorder()
		handler.ServeHTTP(recorder, request)
		response := recorder.Result()
		data, _ := io.ReadAll(response.Body)
		if strings.HasPrefix(contentType, "application/grpc") {
			status := response.Trailer.Get("Grpc-Status")
			message := response.Trailer.Get("Grpc-Message")
			if status == "" { // trailers-only (gRPC-Web) or recorder's prefixed form
				status = response.Header.Get("Grpc-Status")
				message = response.Header.Get("Grpc-Message")
			}
			if status == "" {
				status = response.Header.Get(http.TrailerPrefix + "Grpc-Status")
				message = response.Header.Get(http.TrailerPrefix + "Grpc-Message")
			}
			if status == "12" {
				return outcome{"unimplemented", message}
			}
			return outcome{"grpc-status " + status, message}
		}
		if response.StatusCode == http.StatusNotFound && bytes.Contains(data, []byte(`"unimplemented"`)) {
			return outcome{"unimplemented", string(data)}
		}
		return outcome{"HTTP " + response.Status, string(data)}
	}

	cases := []struct {
		name        string
		contentType string
		header      string
		lines       []string
		body        []byte
	}{
		{"connect unary: identity + zstd", "application/proto", "Content-Encoding", []string{"identity", "zstd"}, zstdBytes},
		{"connect unary: gzip + zstd", "application/proto", "Content-Encoding", []string{"gzip", "zstd"}, gzipped(zstdBytes)},
		{"grpc: identity + zstd", "application/grpc", "Grpc-Encoding", []string{"identity", "zstd"}, envelope(1, zstdBytes)},
		{"grpc-web: identity + zstd", "application/grpc-web", "Grpc-Encoding", []string{"identity", "zstd"}, envelope(1, zstdBytes)},
	}
	for _, testCase := range cases {
		testCase := testCase
		t.Run(testCase.name, func(t *testing.T) {
			// Reference: the same header as a single field line.
			before := userCalls
			oneLine := call(testCase.contentType, testCase.header, []string{strings.Join(testCase.lines, ", ")}, testCase.body)
			if oneLine.code != "unimplemented" || !strings.Contains(oneLine.message, "gzip") {
				t.Fatalf("test setup: single-line header %q: got %+v, want unimplemented listing gzip", strings.Join(testCase.lines, ", "), oneLine)
			}
			twoLines := call(testCase.contentType, testCase.header, testCase.lines, testCase.body)
			if userCalls != before {
				t.Errorf("user code ran %d time(s)", userCalls-before)
			}
			if twoLines.code != "unimplemented" || !strings.Contains(twoLines.message, "gzip") {
				t.Errorf("C08 (request in an algorithm the handler lacks => unimplemented + list of supported algorithms): "+
					"request with field lines %s: %q names zstd, which the handler lacks; expected the same answer as for the "+
					"single line %q (%s: %s); observed: %s: %s",
					testCase.header, testCase.lines, strings.Join(testCase.lines, ", "), oneLine.code, oneLine.message,
					twoLines.code, twoLines.message)
			}
		})
	}
}
