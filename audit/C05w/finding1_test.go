package connect

import (
	"bytes"
	"context"
	"encoding/binary"
	"errors"
	"io"
	"net/http"
	"net/http/httptest"
	"strconv"
	"strings"
	"testing"

	pingv1 "github.com/bufbuild/connect-go/internal/gen/connect/ping/v1"
	"google.golang.org/protobuf/proto"
)

// TestAuditC05wFinding1: an error message that starts or ends with a space is
// put into grpc-message with the spaces unescaped. In the gRPC-Web trailers
// block (an HTTP/1 header block) and in HTTP/1.1 header fields the surrounding
// whitespace is not part of the field value (RFC 7230 3.2.4), and Header.Write
// even strips it before the bytes leave the handler; in HTTP/2 a field value
// must not start or end with SP at all (RFC 9113 8.2.1). So an independent
// peer doesn't get the message the application supplied.
func TestAuditC05wFinding1(t *testing.T) {
	const supplied = " padded " // what the handler program returns
	handler := NewServerStreamHandler(
		"/connect.ping.v1.PingService/CountUp",
		func(_ context.Context, _ *Request[pingv1.CountUpRequest], stream *ServerStream[pingv1.CountUpResponse]) error {
			if err := stream.Send(&pingv1.CountUpResponse{Number: 1}); err != nil {
				return err
			}
			return NewError(CodeAborted, errors.New(supplied))
		},
	)
	server := httptest.NewServer(handler)
	defer server.Close()

	// An independent gRPC-Web peer: one request message, then read the body.
	reqMsg, err := proto.Marshal(&pingv1.CountUpRequest{Number: 1})
	if err != nil {
		t.Fatal(err)
	}
	frame := make([]byte, 5+len(reqMsg))
	binary.BigEndian.PutUint32(frame[1:5], uint32(len(reqMsg)))
	copy(frame[5:], reqMsg)
	request, err := http.NewRequest(http.MethodPost, server.URL+"/connect.ping.v1.PingService/CountUp", bytes.NewReader(frame))
	if err != nil {
		t.Fatal(err)
	}
	request.Header.Set("Content-Type", "application/grpc-web+proto")
	response, err := server.Client().Do(request)
	if err != nil {
		t.Fatal(err)
	}
	defer response.Body.Close()
	body, err := io.ReadAll(response.Body)
	if err != nil {
		t.Fatal(err)
	}
	if response.StatusCode != http.StatusOK {
		t.Fatalf("HTTP status %d, want 200", response.StatusCode)
	}
	// Walk the frames; the last one must be the trailers frame (MSB set).
	var trailerBlock []byte
	for len(body) > 0 {
		if len(body) < 5 {
			t.Fatalf("short frame prefix: %q", body)
		}
		flags, size := body[0], int(binary.BigEndian.Uint32(body[1:5]))
		if len(body) < 5+size {
			t.Fatalf("short frame: %q", body)
		}
		if flags&0x80 != 0 {
			if flags&0x01 != 0 {
				t.Fatalf("unexpected compressed trailers")
			}
			trailerBlock = body[5 : 5+size]
		}
		body = body[5+size:]
	}
	if trailerBlock == nil {
		t.Fatal("no trailers frame in the gRPC-Web response body")
	}
	// Decode the HTTP/1 header block per RFC 7230 3.2: field-name ":" OWS
	// field-value OWS, lines separated by CRLF.
	fields := map[string]string{}
	for _, line := range strings.Split(string(trailerBlock), "\r\n") {
		if line == "" {
			continue
		}
		name, value, ok := strings.Cut(line, ":")
		if !ok {
			t.Fatalf("malformed trailer line %q", line)
		}
		fields[strings.ToLower(name)] = strings.Trim(value, " \t")
	}
	if fields["grpc-status"] != strconv.Itoa(int(CodeAborted)) {
		t.Fatalf("grpc-status %q, want %d", fields["grpc-status"], CodeAborted)
	}
	// Percent-decode per the gRPC HTTP/2 spec.
	encoded := fields["grpc-message"]
	var decoded []byte
	for i := 0; i < len(encoded); i++ {
		if encoded[i] == '%' && i+3 <= len(encoded) {
			if b, err := strconv.ParseUint(encoded[i+1:i+3], 16, 8); err == nil {
				decoded = append(decoded, byte(b))
				i += 2
				continue
			}
		}
		decoded = append(decoded, encoded[i])
	}
	if string(decoded) != supplied {
		t.Errorf("property C05 (the wire yields the error the application supplied): "+
			"handler returned an error with message %q; an independent gRPC-Web peer decodes grpc-message as %q "+
			"(trailers block on the wire: %q)", supplied, decoded, trailerBlock)
	}
}
