package connect

import (
	"context"
	"encoding/binary"
	"errors"
	"fmt"
	"io"
	"net/http"
	"net/http/httptest"
	"sync"
	"testing"

	pingv1 "github.com/bufbuild/connect-go/internal/gen/connect/ping/v1"
	"google.golang.org/protobuf/proto"
)

// auditC05wF5Compressor is a user-supplied compressor whose sink fails with
// an error that happens to wrap io.EOF.
type auditC05wF5Compressor struct{}

func (auditC05wF5Compressor) Write([]byte) (int, error) {
	return 0, fmt.Errorf("compression sidecar went away: %w", io.EOF)
}
func (auditC05wF5Compressor) Close() error    { return nil }
func (auditC05wF5Compressor) Reset(io.Writer) {}

type auditC05wF5Decompressor struct{ reader io.Reader }

func (d *auditC05wF5Decompressor) Read(p []byte) (int, error) { return d.reader.Read(p) }
func (d *auditC05wF5Decompressor) Close() error               { return nil }
func (d *auditC05wF5Decompressor) Reset(r io.Reader) error    { d.reader = r; return nil }

// TestAuditC05wFinding5: compressionPool.Compress wraps the compressor's
// error with %w and no hideEOF (compression.go:118; the lines before and
// after it, and every decompress path, do hide it). A compressor failing with
// an error that wraps io.EOF therefore makes Send return an error wrapping
// io.EOF - which everywhere in the client means "the server has ended the
// call, carry on and fetch its verdict". connectUnaryClientConn.Send then
// skips SetError, Client.CallUnary skips its early return, and the request
// goes out complete and well-formed with an EMPTY body: a valid (empty)
// message that the application never sent. The call succeeds.
func TestAuditC05wFinding5(t *testing.T) {
	var (
		mu     sync.Mutex
		bodies [][]byte
	)
	// An independent Connect server: records the request body and answers
	// every well-formed request with an empty response message.
	server := httptest.NewServer(http.HandlerFunc(func(w http.ResponseWriter, r *http.Request) {
		body, err := io.ReadAll(r.Body)
		if err != nil {
			return // broken request: hang up
		}
		mu.Lock()
		bodies = append(bodies, body)
		mu.Unlock()
		switch r.Header.Get("Content-Type") {
		case "application/proto":
			w.Header().Set("Content-Type", "application/proto")
			w.WriteHeader(http.StatusOK)
		case "application/connect+proto":
			w.Header().Set("Content-Type", "application/connect+proto")
			w.WriteHeader(http.StatusOK)
			_, _ = w.Write([]byte{0, 0, 0, 0, 0})           // one empty SumResponse
			_, _ = w.Write([]byte{2, 0, 0, 0, 2, '{', '}'}) // end of stream, no error
		default:
			w.WriteHeader(http.StatusUnsupportedMediaType)
		}
	}))
	defer server.Close()
	options := WithClientOptions(
		WithAcceptCompression(
			"sidecar",
			func() Decompressor { return &auditC05wF5Decompressor{} },
			func() Compressor { return auditC05wF5Compressor{} },
		),
		WithSendCompression("sidecar"),
	)

	// Connect unary.
	supplied := &pingv1.PingRequest{Number: 42, Text: "the message the application sent"}
	unary := NewClient[pingv1.PingRequest, pingv1.PingResponse](server.Client(), server.URL+"/connect.ping.v1.PingService/Ping", options)
	_, err := unary.CallUnary(context.Background(), NewRequest(supplied))
	mu.Lock()
	seen := bodies
	bodies = nil
	mu.Unlock()
	for _, body := range seen {
		var decoded pingv1.PingRequest
		if unmarshalErr := proto.Unmarshal(body, &decoded); unmarshalErr != nil || !proto.Equal(&decoded, supplied) {
			t.Errorf("property C05 (every request a client writes yields the messages the application supplied): "+
				"CallUnary(%v) put a complete, well-formed Connect request on the wire whose body is %d bytes = message {%v} "+
				"(unmarshal error %v); the client call returned err = %v",
				supplied, len(body), &decoded, unmarshalErr, err)
		}
	}
	if err == nil && len(seen) == 0 {
		t.Errorf("CallUnary succeeded without a request reaching the server")
	}

	// Connect client streaming: same cause, through envelopeWriter.Write.
	stream := NewClient[pingv1.SumRequest, pingv1.SumResponse](server.Client(), server.URL+"/connect.ping.v1.PingService/Sum", options).
		CallClientStream(context.Background())
	sendErr := stream.Send(&pingv1.SumRequest{Number: 42})
	if sendErr == nil {
		t.Fatal("Send succeeded with a failing compressor")
	}
	if errors.Is(sendErr, io.EOF) {
		// The documented meaning: the server ended the call; get its verdict.
		response, receiveErr := stream.CloseAndReceive()
		mu.Lock()
		seen = bodies
		mu.Unlock()
		messages := 0
		for _, body := range seen {
			for len(body) >= 5 {
				size := int(binary.BigEndian.Uint32(body[1:5]))
				body = body[5+size:]
				messages++
			}
		}
		if receiveErr == nil {
			t.Errorf("property C05 (every request a client writes yields the messages the application supplied): "+
				"Send(number:42) failed locally with %q, which wraps io.EOF (= \"the server ended the call\"); "+
				"CloseAndReceive then completed a well-formed request carrying %d of the 1 messages supplied and returned success (%v)",
				sendErr, messages, response.Msg)
		}
	}
}
