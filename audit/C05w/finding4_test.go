package connect

import (
	"bytes"
	"context"
	"encoding/binary"
	"io"
	"net/http"
	"net/http/httptest"
	"testing"
)

// auditC05wF4Codec is a pass-through codec for messages that are already
// bytes - what a proxy, or a handler that serves pre-serialized responses,
// registers with WithCodec. Marshal returns the application's slice;
// Unmarshal copies, so nothing the library owns is retained.
type auditC05wF4Codec struct{}

func (auditC05wF4Codec) Name() string { return "raw" }

func (auditC05wF4Codec) Marshal(message any) ([]byte, error) {
	return *(message.(*[]byte)), nil
}

func (auditC05wF4Codec) Unmarshal(data []byte, message any) error {
	*(message.(*[]byte)) = append([]byte(nil), data...)
	return nil
}

// TestAuditC05wFinding4: envelopeWriter.Marshal and
// connectUnaryMarshaler.Marshal wrap the slice returned by Codec.Marshal in a
// bytes.Buffer and put that buffer into the shared buffer pool. Nothing in the
// Codec contract hands ownership of that slice to the library. With a codec
// that returns memory the application keeps (a cached, pre-serialized
// response), the next user of the pool - here envelopeReader reading the next
// request - writes into the application's message, and the bytes that go out
// for the following response are no longer the message the application
// supplied (they're the other request's bytes).
func TestAuditC05wFinding4(t *testing.T) {
	for _, contentType := range []string{"application/grpc+raw", "application/grpc-web+raw", "application/connect+raw", "application/raw"} {
		contentType := contentType
		t.Run(contentType, func(t *testing.T) {
			cached := bytes.Repeat([]byte("A"), 600) // the response the handler serves every time
			want := append([]byte(nil), cached...)
			handler := NewUnaryHandler(
				"/raw.Service/Get",
				func(_ context.Context, _ *Request[[]byte]) (*Response[[]byte], error) {
					return NewResponse(&cached), nil
				},
				WithCodec(auditC05wF4Codec{}),
			)
			if contentType == "application/connect+raw" {
				handler = NewClientStreamHandler(
					"/raw.Service/Get",
					func(_ context.Context, stream *ClientStream[[]byte]) (*Response[[]byte], error) {
						for stream.Receive() {
						}
						return NewResponse(&cached), stream.Err()
					},
					WithCodec(auditC05wF4Codec{}),
				)
			}
			server := httptest.NewUnstartedServer(handler)
			server.EnableHTTP2 = true
			server.StartTLS()
			defer server.Close()

			for i := 0; i < 10; i++ {
				payload := bytes.Repeat([]byte("B"), 300) // the peer's request message
				body := payload
				if contentType != "application/raw" {
					body = make([]byte, 5+len(payload))
					binary.BigEndian.PutUint32(body[1:5], uint32(len(payload)))
					copy(body[5:], payload)
				}
				request, err := http.NewRequest(http.MethodPost, server.URL+"/raw.Service/Get", bytes.NewReader(body))
				if err != nil {
					t.Fatal(err)
				}
				request.Header.Set("Content-Type", contentType)
				request.Header.Set("Accept-Encoding", "identity")
				response, err := server.Client().Do(request)
				if err != nil {
					t.Fatal(err)
				}
				got, err := io.ReadAll(response.Body)
				response.Body.Close()
				if err != nil {
					t.Fatal(err)
				}
				if response.StatusCode != http.StatusOK {
					t.Fatalf("call %d: HTTP %d: %q", i, response.StatusCode, got)
				}
				if contentType != "application/raw" {
					// first frame: the message
					if len(got) < 5 || got[0] != 0 {
						t.Fatalf("call %d: bad first frame %q", i, got)
					}
					size := int(binary.BigEndian.Uint32(got[1:5]))
					got = got[5 : 5+size]
				}
				if !bytes.Equal(got, want) {
					n := 16
					t.Fatalf("property C05 (the wire yields the messages the application supplied): call %d: handler "+
						"responded with 600 x 'A'; the message on the wire is %d bytes starting %q (the handler's own slice now starts %q)",
						i, len(got), got[:n], cached[:n])
				}
			}
		})
	}
}
