package connect

import (
	"bytes"
	"context"
	"encoding/binary"
	"errors"
	"io"
	"net/http"
	"net/http/httptest"
	"testing"

	pingv1 "github.com/bufbuild/connect-go/internal/gen/connect/ping/v1"
	"google.golang.org/protobuf/proto"
)

// TestAuditC05wFinding3: a handler that returns an *Error whose code is 0 (a
// value NewError accepts; it's what Code(status.Code()) gives for a foreign
// status that says OK, or any uninitialized Code) is answered, under gRPC and
// gRPC-Web, with grpc-status: 0 - the peer is told that the call succeeded,
// although the handler returned a non-nil error and no message. Under Connect
// the same program yields an error (HTTP 500, "code_0"), and on the receiving
// side the library itself never lets a code of 0 stand for a failure
// (connectStreamingUnmarshaler and validateResponse replace it).
func TestAuditC05wFinding3(t *testing.T) {
	const message = "upstream failed"
	handler := NewUnaryHandler(
		"/connect.ping.v1.PingService/Ping",
		func(_ context.Context, _ *Request[pingv1.PingRequest]) (*Response[pingv1.PingResponse], error) {
			var code Code // never set
			return nil, NewError(code, errors.New(message))
		},
	)
	server := httptest.NewUnstartedServer(handler)
	server.EnableHTTP2 = true
	server.StartTLS()
	defer server.Close()

	msg, err := proto.Marshal(&pingv1.PingRequest{Number: 1})
	if err != nil {
		t.Fatal(err)
	}
	frame := make([]byte, 5+len(msg))
	binary.BigEndian.PutUint32(frame[1:5], uint32(len(msg)))
	copy(frame[5:], msg)
	for _, contentType := range []string{"application/grpc+proto", "application/grpc-web+proto"} {
		request, err := http.NewRequest(http.MethodPost, server.URL+"/connect.ping.v1.PingService/Ping", bytes.NewReader(frame))
		if err != nil {
			t.Fatal(err)
		}
		request.Header.Set("Content-Type", contentType)
		response, err := server.Client().Do(request)
		if err != nil {
			t.Fatal(err)
		}
		body, err := io.ReadAll(response.Body)
		response.Body.Close()
		if err != nil {
			t.Fatal(err)
		}
		// No message was sent, so the status is in the HTTP trailers (gRPC) or,
		// the response being body-less, in the headers (gRPC-Web).
		statuses := append(response.Header.Values("Grpc-Status"), response.Trailer.Values("Grpc-Status")...)
		if len(statuses) != 1 {
			t.Fatalf("%s: grpc-status values %v, want exactly one", contentType, statuses)
		}
		if statuses[0] == "0" {
			t.Errorf("property C05 (the wire yields the status and error the application supplied): %s: handler returned "+
				"a non-nil error (code 0, message %q) and sent no message, but the response says grpc-status: 0 (OK) "+
				"with %d body bytes; headers %v trailers %v", contentType, message, len(body), response.Header, response.Trailer)
		}
	}
}
