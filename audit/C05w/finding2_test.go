package connect

import (
	"bytes"
	"context"
	"encoding/binary"
	"errors"
	"io"
	"log"
	"net/http"
	"net/http/httptest"
	"strings"
	"sync"
	"testing"

	pingv1 "github.com/bufbuild/connect-go/internal/gen/connect/ping/v1"
	"google.golang.org/protobuf/proto"
)

type auditC05wF2Log struct {
	mu  sync.Mutex
	buf bytes.Buffer
}

func (l *auditC05wF2Log) Write(p []byte) (int, error) {
	l.mu.Lock()
	defer l.mu.Unlock()
	return l.buf.Write(p)
}

func (l *auditC05wF2Log) String() string {
	l.mu.Lock()
	defer l.mu.Unlock()
	return l.buf.String()
}

// TestAuditC05wFinding2: with the gRPC protocol, the error's metadata and the
// response trailers are sent as HTTP trailers through net/http's
// "Trailer:"-prefixed keys. net/http refuses a fixed list of names as trailers
// (Www-Authenticate, Authorization, Cache-Control, Pragma, Content-*, If-*,
// ...) and drops them with nothing but a log line, so metadata the handler
// supplied never reaches the peer - while the same handler program delivers it
// under gRPC-Web and Connect.
func TestAuditC05wFinding2(t *testing.T) {
	handler := NewUnaryHandler(
		"/connect.ping.v1.PingService/Ping",
		func(_ context.Context, request *Request[pingv1.PingRequest]) (*Response[pingv1.PingResponse], error) {
			if request.Msg.Number == 1 {
				err := NewError(CodeUnauthenticated, errors.New("who are you"))
				err.Meta().Set("Www-Authenticate", "Bearer")
				err.Meta().Set("X-Plain", "plain")
				return nil, err
			}
			response := NewResponse(&pingv1.PingResponse{Number: request.Msg.Number})
			response.Trailer().Set("Cache-Control", "no-store")
			response.Trailer().Set("X-Plain", "plain")
			return response, nil
		},
	)
	var serverLog auditC05wF2Log
	server := httptest.NewUnstartedServer(handler)
	server.EnableHTTP2 = true
	server.Config.ErrorLog = log.New(&serverLog, "", 0)
	server.StartTLS()
	defer server.Close()

	call := func(contentType string, number int64) (http.Header, http.Header) {
		t.Helper()
		msg, err := proto.Marshal(&pingv1.PingRequest{Number: number})
		if err != nil {
			t.Fatal(err)
		}
		frame := make([]byte, 5+len(msg))
		binary.BigEndian.PutUint32(frame[1:5], uint32(len(msg)))
		copy(frame[5:], msg)
		request, err := http.NewRequest(http.MethodPost, server.URL+"/connect.ping.v1.PingService/Ping", bytes.NewReader(frame))
		if err != nil {
			t.Fatal(err)
		}
		request.Header.Set("Content-Type", contentType)
		request.Header.Set("Te", "trailers")
		response, err := server.Client().Do(request)
		if err != nil {
			t.Fatal(err)
		}
		defer response.Body.Close()
		if _, err := io.Copy(io.Discard, response.Body); err != nil {
			t.Fatal(err)
		}
		if response.ProtoMajor != 2 || response.StatusCode != http.StatusOK {
			t.Fatalf("got %s %d, want HTTP/2 200", response.Proto, response.StatusCode)
		}
		return response.Header, response.Trailer
	}
	get := func(header, trailer http.Header, key string) string {
		return strings.Join(append(header.Values(key), trailer.Values(key)...), ",")
	}

	// Error metadata.
	header, trailer := call("application/grpc+proto", 1)
	if got := trailer.Get("Grpc-Status"); got != "16" {
		t.Fatalf("grpc-status %q, want 16", got)
	}
	if got := get(header, trailer, "X-Plain"); got != "plain" {
		t.Fatalf("control: X-Plain = %q, want plain", got)
	}
	if got := get(header, trailer, "Www-Authenticate"); got != "Bearer" {
		t.Errorf("property C05 (the wire yields the metadata the application supplied): handler returned an "+
			"unauthenticated error with metadata Www-Authenticate: Bearer; the gRPC response carries Www-Authenticate = %q "+
			"(headers %v, trailers %v; server log: %q)", got, header, trailer, serverLog.String())
	}
	// Response trailers.
	header, trailer = call("application/grpc+proto", 2)
	if got := trailer.Get("Grpc-Status"); got != "0" {
		t.Fatalf("grpc-status %q, want 0", got)
	}
	if got := get(header, trailer, "X-Plain"); got != "plain" {
		t.Fatalf("control: X-Plain = %q, want plain", got)
	}
	if got := get(header, trailer, "Cache-Control"); got != "no-store" {
		t.Errorf("property C05 (the wire yields the metadata the application supplied): handler set the response "+
			"trailer Cache-Control: no-store; the gRPC response carries Cache-Control = %q "+
			"(headers %v, trailers %v; server log: %q)", got, header, trailer, serverLog.String())
	}
}
