package connect_test

import (
	"bytes"
	"context"
	"encoding/binary"
	"net/http"
	"net/http/httptest"
	"testing"

	connect "github.com/bufbuild/connect-go"
	pingv1 "github.com/bufbuild/connect-go/internal/gen/connect/ping/v1"
)

// auditC05yHugeCodec marshals every message to 4 GiB + 7 bytes. The slice is
// fresh zeroed memory that nobody touches, so it costs address space only.
type auditC05yHugeCodec struct{}

func (auditC05yHugeCodec) Name() string                { return "huge" }
func (auditC05yHugeCodec) Marshal(any) ([]byte, error) { return make([]byte, 1<<32+7), nil }
func (auditC05yHugeCodec) Unmarshal([]byte, any) error { return nil }

// auditC05yCountingWriter keeps the first bytes of the body and counts the rest.
type auditC05yCountingWriter struct {
	header http.Header
	status int
	first  []byte
	total  int64
}

func (w *auditC05yCountingWriter) Header() http.Header { return w.header }
func (w *auditC05yCountingWriter) WriteHeader(status int) {
	if w.status == 0 {
		w.status = status
	}
}
func (w *auditC05yCountingWriter) Write(data []byte) (int, error) {
	if w.status == 0 {
		w.status = http.StatusOK
	}
	if room := 5 - len(w.first); room > 0 {
		if room > len(data) {
			room = len(data)
		}
		w.first = append(w.first, data[:room]...)
	}
	w.total += int64(len(data))
	return len(data), nil
}

// C05: what a handler writes is decodable and yields the messages the
// application sent. The envelope's length prefix is 32 bits wide; a message
// that doesn't fit can't be sent, so Send has to fail - not write a frame whose
// prefix doesn't describe it.
func TestAuditC05yFinding3(t *testing.T) {
	if ^uint(0)>>32 == 0 {
		t.Skip("needs a 64-bit platform")
	}
	var sendErr error
	handler := connect.NewServerStreamHandler("/p/Count",
		func(_ context.Context, _ *connect.Request[pingv1.CountUpRequest], stream *connect.ServerStream[pingv1.CountUpResponse]) error {
			sendErr = stream.Send(&pingv1.CountUpResponse{})
			return nil
		}, connect.WithCodec(auditC05yHugeCodec{}))
	for _, contentType := range []string{"application/connect+huge", "application/grpc+huge", "application/grpc-web+huge"} {
		request := httptest.NewRequest(http.MethodPost, "/p/Count", bytes.NewReader([]byte{0, 0, 0, 0, 0}))
		request.Header.Set("Content-Type", contentType)
		writer := &auditC05yCountingWriter{header: make(http.Header)}
		handler.ServeHTTP(writer, request)
		if sendErr != nil {
			continue // refusing to send is fine
		}
		if len(writer.first) < 5 {
			t.Fatalf("%s: no envelope written", contentType)
		}
		declared := binary.BigEndian.Uint32(writer.first[1:5])
		t.Errorf("%s: Send of a %d-byte message returned nil; property C05 expects either an error or a frame the peer "+
			"can decode to that message; observed envelope prefix % x (declares %d bytes) followed by %d more body bytes",
			contentType, int64(1<<32+7), writer.first, declared, writer.total-5)
	}
}
