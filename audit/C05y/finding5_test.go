package connect_test

import (
	"bytes"
	"context"
	"io"
	"log"
	"net/http"
	"net/http/httptest"
	"strings"
	"testing"

	connect "github.com/bufbuild/connect-go"
	pingv1 "github.com/bufbuild/connect-go/internal/gen/connect/ping/v1"
)

// C05: whatever error a handler returns, the response is a well-formed error
// response of the protocol in use. A nil *connect.Error stored in an error
// interface is a non-nil error (the library's own comments warn about exactly
// that); a handler that declares `var err *connect.Error` and returns it
// unset returns such a value.
func TestAuditC05yFinding5(t *testing.T) {
	mux := http.NewServeMux()
	mux.Handle("/p/Ping", connect.NewUnaryHandler("/p/Ping",
		func(context.Context, *connect.Request[pingv1.PingRequest]) (*connect.Response[pingv1.PingResponse], error) {
			var connectErr *connect.Error
			return nil, connectErr
		}))
	mux.Handle("/p/Count", connect.NewServerStreamHandler("/p/Count",
		func(context.Context, *connect.Request[pingv1.CountUpRequest], *connect.ServerStream[pingv1.CountUpResponse]) error {
			var connectErr *connect.Error
			return connectErr
		}))
	server := httptest.NewUnstartedServer(mux)
	server.Config.ErrorLog = log.New(io.Discard, "", 0) // net/http logs the panic
	server.Start()
	defer server.Close()

	envelope := []byte{0, 0, 0, 0, 0}
	cases := []struct {
		name, path, contentType string
		body                    []byte
	}{
		{"connect unary", "/p/Ping", "application/proto", nil},
		{"connect stream", "/p/Count", "application/connect+proto", envelope},
		{"grpc", "/p/Ping", "application/grpc", envelope},
		{"grpc-web", "/p/Ping", "application/grpc-web", envelope},
	}
	for _, testCase := range cases {
		request, _ := http.NewRequest(http.MethodPost, server.URL+testCase.path, bytes.NewReader(testCase.body))
		request.Header.Set("Content-Type", testCase.contentType)
		response, err := server.Client().Do(request)
		if err != nil {
			t.Errorf("%s: property C05 expects an error response of the protocol; observed no HTTP response at all: %v", testCase.name, err)
			continue
		}
		body, readErr := io.ReadAll(response.Body)
		response.Body.Close()
		switch testCase.name {
		case "connect unary":
			if response.StatusCode == http.StatusOK || !strings.HasPrefix(response.Header.Get("Content-Type"), "application/json") {
				t.Errorf("%s: expected a JSON error under an error status; observed HTTP %d %v body %q", testCase.name, response.StatusCode, response.Header, body)
			}
		case "connect stream":
			if len(body) < 5 || body[0]&2 == 0 {
				t.Errorf("%s: property C05 expects exactly one end-of-stream envelope; observed HTTP %d, body %q (read error %v)", testCase.name, response.StatusCode, body, readErr)
			}
		default:
			statuses := len(response.Header.Values("Grpc-Status")) + len(response.Trailer.Values("Grpc-Status")) +
				strings.Count(strings.ToLower(string(body)), "grpc-status:")
			if response.StatusCode != http.StatusOK || statuses != 1 {
				t.Errorf("%s: property C05 expects HTTP 200 with exactly one grpc-status; observed HTTP %d with %d grpc-status, headers %v, trailers %v, body %q (read error %v)",
					testCase.name, response.StatusCode, statuses, response.Header, response.Trailer, body, readErr)
			}
		}
	}
}
