package connect_test

import (
	"bytes"
	"context"
	"io"
	"net/http"
	"net/http/httptest"
	"testing"

	connect "github.com/bufbuild/connect-go"
	pingv1 "github.com/bufbuild/connect-go/internal/gen/connect/ping/v1"
	"google.golang.org/protobuf/proto"
)

// C05: "every conformant request ... is accepted and decoded to the same
// values" for "any legal casing, padding ...". A media type is
// case-insensitive and may carry parameters with optional whitespace
// (RFC 9110 section 8.3.1); browsers' fetch and many HTTP libraries append
// "; charset=utf-8" to application/json on their own.
func TestAuditC05yFinding4(t *testing.T) {
	mux := http.NewServeMux()
	mux.Handle("/p/Ping", connect.NewUnaryHandler("/p/Ping",
		func(_ context.Context, req *connect.Request[pingv1.PingRequest]) (*connect.Response[pingv1.PingResponse], error) {
			return connect.NewResponse(&pingv1.PingResponse{Text: req.Msg.Text}), nil
		}))
	server := httptest.NewServer(mux)
	defer server.Close()

	binaryMessage, err := proto.Marshal(&pingv1.PingRequest{Text: "hi"})
	if err != nil {
		t.Fatal(err)
	}
	jsonMessage := []byte(`{"text":"hi"}`)
	envelope := func(message []byte) []byte {
		return append([]byte{0, 0, 0, 0, byte(len(message))}, message...)
	}
	cases := []struct {
		contentType string
		body        []byte
	}{
		{"application/json", jsonMessage}, // control: accepted
		{"application/json; charset=utf-8", jsonMessage},
		{"application/json;charset=UTF-8", jsonMessage},
		{"Application/JSON", jsonMessage},
		{"application/Proto", binaryMessage},
		{"Application/Grpc-Web+Proto", envelope(binaryMessage)},
		{"application/grpc-web+json; charset=utf-8", envelope(jsonMessage)},
		{"APPLICATION/GRPC", envelope(binaryMessage)},
	}
	for _, testCase := range cases {
		request, _ := http.NewRequest(http.MethodPost, server.URL+"/p/Ping", bytes.NewReader(testCase.body))
		request.Header.Set("Content-Type", testCase.contentType)
		response, err := server.Client().Do(request)
		if err != nil {
			t.Fatal(err)
		}
		body, _ := io.ReadAll(response.Body)
		response.Body.Close()
		if response.StatusCode != http.StatusOK {
			t.Errorf("Content-Type %q: property C05 expects the conformant request to be accepted (HTTP 200 and the echoed message); "+
				"observed HTTP %d, body %q", testCase.contentType, response.StatusCode, body)
		}
	}
}
