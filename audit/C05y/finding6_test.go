package connect_test

import (
	"bytes"
	"context"
	"errors"
	"io"
	"net/http"
	"net/http/httptest"
	"strconv"
	"testing"

	connect "github.com/bufbuild/connect-go"
	pingv1 "github.com/bufbuild/connect-go/internal/gen/connect/ping/v1"
)

// C05: the status on the wire is decodable and yields the error the
// application supplied. Code is a uint32 and NewError takes any value; gRPC's
// Status is a non-negative decimal integer.
func TestAuditC05yFinding6(t *testing.T) {
	const code = connect.Code(1 << 31)
	mux := http.NewServeMux()
	mux.Handle("/p/Ping", connect.NewUnaryHandler("/p/Ping",
		func(context.Context, *connect.Request[pingv1.PingRequest]) (*connect.Response[pingv1.PingResponse], error) {
			return nil, connect.NewError(code, errors.New("oops"))
		}))
	server := httptest.NewServer(mux)
	defer server.Close()

	// On the wire.
	request, _ := http.NewRequest(http.MethodPost, server.URL+"/p/Ping", bytes.NewReader([]byte{0, 0, 0, 0, 0}))
	request.Header.Set("Content-Type", "application/grpc-web")
	response, err := server.Client().Do(request)
	if err != nil {
		t.Fatal(err)
	}
	_, _ = io.Copy(io.Discard, response.Body)
	response.Body.Close()
	status := response.Header.Get("Grpc-Status")
	if _, err := strconv.ParseUint(status, 10, 32); err != nil {
		t.Errorf("property C05 expects grpc-status to be a decimal status code (1*DIGIT) a peer can decode; observed grpc-status %q", status)
	}

	// Through the library's own clients.
	for name, option := range map[string]connect.ClientOption{"grpc": connect.WithGRPC(), "grpc-web": connect.WithGRPCWeb()} {
		client := connect.NewClient[pingv1.PingRequest, pingv1.PingResponse](server.Client(), server.URL+"/p/Ping", option)
		_, err := client.CallUnary(context.Background(), connect.NewRequest(&pingv1.PingRequest{}))
		var connectErr *connect.Error
		if !errors.As(err, &connectErr) || connectErr.Code() != code || connectErr.Message() != "oops" {
			t.Errorf("%s: property C05 expects the client to see the handler's error (code %d, message %q); observed %v",
				name, code, "oops", err)
		}
	}
	// (The Connect protocol carries the same error intact.)
	client := connect.NewClient[pingv1.PingRequest, pingv1.PingResponse](server.Client(), server.URL+"/p/Ping")
	_, err = client.CallUnary(context.Background(), connect.NewRequest(&pingv1.PingRequest{}))
	if connect.CodeOf(err) != code {
		t.Logf("connect: code %d", connect.CodeOf(err))
	}
}
