package connect_test

import (
	"context"
	"net/http"
	"net/http/httptest"
	"testing"

	connect "github.com/bufbuild/connect-go"
	pingv1 "github.com/bufbuild/connect-go/internal/gen/connect/ping/v1"
)

// C05: a response carries "the messages, status, error and metadata the
// application supplied". A body-less ("trailers-only") gRPC / gRPC-Web response
// with grpc-status 0 carries its trailing metadata in the HTTP headers; the
// client must hand it out as trailers, as it does when the status is an error.
func TestAuditC05yFinding1(t *testing.T) {
	t.Run("library gRPC-Web handler to library client", func(t *testing.T) {
		mux := http.NewServeMux()
		mux.Handle("/p/Count", connect.NewServerStreamHandler("/p/Count",
			func(_ context.Context, _ *connect.Request[pingv1.CountUpRequest], stream *connect.ServerStream[pingv1.CountUpResponse]) error {
				stream.ResponseTrailer().Set("X-Trail", "t")
				return nil // zero messages, success
			}))
		server := httptest.NewServer(mux)
		defer server.Close()
		client := connect.NewClient[pingv1.CountUpRequest, pingv1.CountUpResponse](
			server.Client(), server.URL+"/p/Count", connect.WithGRPCWeb())
		stream, err := client.CallServerStream(context.Background(), connect.NewRequest(&pingv1.CountUpRequest{}))
		if err != nil {
			t.Fatal(err)
		}
		for stream.Receive() {
		}
		if err := stream.Err(); err != nil {
			t.Fatalf("unexpected error: %v", err)
		}
		if got := stream.ResponseTrailer().Get("X-Trail"); got != "t" {
			t.Errorf("property C05 expects the trailer X-Trail=\"t\" the handler set to arrive as a trailer; "+
				"observed ResponseTrailer()=%v, ResponseHeader()=%v", stream.ResponseTrailer(), stream.ResponseHeader())
		}
	})
	t.Run("peer-encoded gRPC Trailers-Only OK response", func(t *testing.T) {
		// What a spec-following gRPC server (grpc-go, for one) sends for a
		// server stream that ends OK without messages: one HEADERS block with
		// :status 200, content-type, grpc-status and the trailing metadata.
		server := httptest.NewUnstartedServer(http.HandlerFunc(func(w http.ResponseWriter, _ *http.Request) {
			w.Header().Set("Content-Type", "application/grpc+proto")
			w.Header().Set("Grpc-Status", "0")
			w.Header().Set("X-Trail", "t")
			w.WriteHeader(http.StatusOK)
		}))
		server.EnableHTTP2 = true
		server.StartTLS()
		defer server.Close()
		client := connect.NewClient[pingv1.CountUpRequest, pingv1.CountUpResponse](
			server.Client(), server.URL+"/p/Count", connect.WithGRPC())
		stream, err := client.CallServerStream(context.Background(), connect.NewRequest(&pingv1.CountUpRequest{}))
		if err != nil {
			t.Fatal(err)
		}
		for stream.Receive() {
		}
		if err := stream.Err(); err != nil {
			t.Fatalf("unexpected error: %v", err)
		}
		if got := stream.ResponseTrailer().Get("X-Trail"); got != "t" {
			t.Errorf("property C05 expects the Trailers-Only metadata X-Trail=\"t\" to be decoded as trailing metadata "+
				"(as it is when grpc-status is non-zero); observed ResponseTrailer()=%v, ResponseHeader()=%v",
				stream.ResponseTrailer(), stream.ResponseHeader())
		}
	})
}
