package connect_test

import (
	"bytes"
	"compress/gzip"
	"context"
	"io"
	"net/http"
	"net/http/httptest"
	"testing"

	connect "github.com/bufbuild/connect-go"
	pingv1 "github.com/bufbuild/connect-go/internal/gen/connect/ping/v1"
	"google.golang.org/protobuf/proto"
)

// C05: every response a handler writes is decodable by a strictly
// spec-following peer. A peer that compresses its request with gzip but says it
// accepts only identity responses (asymmetric compression is legal in all
// three protocols) must not be sent a gzip response.
func TestAuditC05yFinding2(t *testing.T) {
	mux := http.NewServeMux()
	mux.Handle("/p/Ping", connect.NewUnaryHandler("/p/Ping",
		func(_ context.Context, req *connect.Request[pingv1.PingRequest]) (*connect.Response[pingv1.PingResponse], error) {
			return connect.NewResponse(&pingv1.PingResponse{Text: req.Msg.Text}), nil
		}))
	server := httptest.NewServer(mux)
	defer server.Close()

	message, err := proto.Marshal(&pingv1.PingRequest{Text: "hello hello hello hello"})
	if err != nil {
		t.Fatal(err)
	}
	var zipped bytes.Buffer
	zw := gzip.NewWriter(&zipped)
	_, _ = zw.Write(message)
	_ = zw.Close()
	envelope := append([]byte{1, 0, 0, 0, byte(zipped.Len())}, zipped.Bytes()...)

	cases := []struct {
		name, contentType, sentHeader, acceptHeader string
		body                                        []byte
	}{
		{"connect unary", "application/proto", "Content-Encoding", "Accept-Encoding", zipped.Bytes()},
		{"grpc-web", "application/grpc-web+proto", "Grpc-Encoding", "Grpc-Accept-Encoding", envelope},
		{"grpc", "application/grpc+proto", "Grpc-Encoding", "Grpc-Accept-Encoding", envelope},
	}
	for _, testCase := range cases {
		request, _ := http.NewRequest(http.MethodPost, server.URL+"/p/Ping", bytes.NewReader(testCase.body))
		request.Header.Set("Content-Type", testCase.contentType)
		request.Header.Set(testCase.sentHeader, "gzip")
		request.Header.Set(testCase.acceptHeader, "identity")
		response, err := server.Client().Do(request)
		if err != nil {
			t.Fatal(err)
		}
		body, _ := io.ReadAll(response.Body)
		response.Body.Close()
		encoding := response.Header.Get(testCase.sentHeader)
		flagged := testCase.name != "connect unary" && len(body) > 0 && body[0]&1 == 1
		if (encoding != "" && encoding != "identity") || flagged {
			t.Errorf("%s: the peer sent %s: identity, so property C05 expects a response it can decode (identity); "+
				"observed HTTP %d with %s: %q, first body bytes %x",
				testCase.name, testCase.acceptHeader, response.StatusCode, testCase.sentHeader, encoding, firstBytes(body))
		}
	}
}

func firstBytes(data []byte) []byte {
	if len(data) > 8 {
		return data[:8]
	}
	return data
}
