package connect_test

import (
	"context"
	"net/http"
	"net/http/httptest"
	"sync"
	"testing"
	"time"

	connect "github.com/bufbuild/connect-go"
	pingv1 "github.com/bufbuild/connect-go/internal/gen/connect/ping/v1"
)

// C10: "without a client deadline the handler's context has none" (and "a
// remaining time too large to express is sent as no timeout").
//
// For unary calls the protocol client writes the timeout header straight into
// the caller's *connect.Request header map (client.go: protocolClient.NewConn(ctx,
// unarySpec, request.Header())), and it only ever *sets* the header: when the
// context has no deadline (or, for Connect, a deadline too large to express)
// nothing removes a value left behind by an earlier call. So if the same
// Request is used for a call with a deadline and then (for example by a retry
// or hedging loop, or by an interceptor that calls next twice) for a call
// without one, the second call sends the first call's timeout and the handler
// runs under a deadline the client does not have.
func TestAuditC10aFinding5(t *testing.T) {
	const procedure = "/connect.ping.v1.PingService/Ping"
	type observation struct {
		hasDeadline bool
		remaining   time.Duration
		header      string
	}
	var (
		mu       sync.Mutex
		observed observation
	)
	mux := http.NewServeMux()
	mux.Handle(procedure, connect.NewUnaryHandler(
		procedure,
		func(ctx context.Context, request *connect.Request[pingv1.PingRequest]) (*connect.Response[pingv1.PingResponse], error) {
			deadline, ok := ctx.Deadline()
			header := request.Header().Get("Connect-Timeout-Ms")
			if header == "" {
				header = request.Header().Get("Grpc-Timeout")
			}
			mu.Lock()
			observed = observation{hasDeadline: ok, header: header}
			if ok {
				observed.remaining = time.Until(deadline)
			}
			mu.Unlock()
			return connect.NewResponse(&pingv1.PingResponse{}), nil
		},
	))
	server := httptest.NewUnstartedServer(mux)
	server.EnableHTTP2 = true
	server.StartTLS()
	defer server.Close()

	protocols := []struct {
		name    string
		options []connect.ClientOption
	}{
		{"connect", nil},
		{"grpc", []connect.ClientOption{connect.WithGRPC()}},
		{"grpcweb", []connect.ClientOption{connect.WithGRPCWeb()}},
	}
	for _, protocol := range protocols {
		protocol := protocol
		t.Run(protocol.name+"/then_no_deadline", func(t *testing.T) {
			client := connect.NewClient[pingv1.PingRequest, pingv1.PingResponse](
				server.Client(), server.URL+procedure, protocol.options...,
			)
			request := connect.NewRequest(&pingv1.PingRequest{})

			withDeadline, cancel := context.WithTimeout(context.Background(), 2*time.Second)
			_, err := client.CallUnary(withDeadline, request)
			cancel()
			if err != nil {
				t.Fatalf("first call: %v", err)
			}
			mu.Lock()
			first := observed
			mu.Unlock()
			if !first.hasDeadline {
				t.Fatalf("harness: first call should have carried a deadline")
			}

			// Second call: same Request, a context WITHOUT a deadline.
			_, err = client.CallUnary(context.Background(), request)
			mu.Lock()
			second := observed
			mu.Unlock()
			if err != nil || second.hasDeadline {
				t.Errorf(
					"C10 violated (%s): the client call has no deadline; expected no timeout header and a handler context without a deadline; "+
						"observed timeout header %q, handler context has deadline=%v (%v remaining), call error=%v",
					protocol.name, second.header, second.hasDeadline, second.remaining, err,
				)
			}
		})
	}

	// Connect only: a deadline too large to express must be sent as "no
	// timeout", but the stale header of an earlier call is sent instead.
	t.Run("connect/then_inexpressible_deadline", func(t *testing.T) {
		client := connect.NewClient[pingv1.PingRequest, pingv1.PingResponse](
			server.Client(), server.URL+procedure,
		)
		request := connect.NewRequest(&pingv1.PingRequest{})
		withDeadline, cancel := context.WithTimeout(context.Background(), 2*time.Second)
		_, err := client.CallUnary(withDeadline, request)
		cancel()
		if err != nil {
			t.Fatalf("first call: %v", err)
		}
		// 200 days = 17,280,000,000 ms: 11 digits, too large for the grammar.
		huge, cancel := context.WithTimeout(context.Background(), 200*24*time.Hour)
		defer cancel()
		_, err = client.CallUnary(huge, request)
		mu.Lock()
		second := observed
		mu.Unlock()
		if err != nil || second.hasDeadline {
			t.Errorf(
				"C10 violated (connect): the client deadline is 200 days away, too large to express; expected it to be sent as no timeout "+
					"(handler context without deadline), never as a shorter one; "+
					"observed Connect-Timeout-Ms %q, handler context has deadline=%v (%v remaining), call error=%v",
				second.header, second.hasDeadline, second.remaining, err,
			)
		}
	})
}
