package connect_test

import (
	"bytes"
	"context"
	"io"
	"net/http"
	"net/http/httptest"
	"regexp"
	"sync/atomic"
	"testing"

	connect "github.com/bufbuild/connect-go"
	pingv1 "github.com/bufbuild/connect-go/internal/gen/connect/ping/v1"
)

// C10: "a malformed [timeout] - ... empty or non-decimal number ... - is
// rejected as invalid_argument without running user code."
//
// The gRPC grammar is TimeoutValue = "positive integer as ASCII string of at
// most 8 digits" followed by a unit. grpcParseTimeout uses strconv.ParseInt for
// the number, which accepts a leading sign: "+5S" is honoured as 5 seconds and
// "-0S" as zero, and the user's handler runs (gRPC and gRPC-Web).
func TestAuditC10aFinding3(t *testing.T) {
	const procedure = "/connect.ping.v1.PingService/Ping"
	var userCodeRan atomic.Int32
	mux := http.NewServeMux()
	mux.Handle(procedure, connect.NewUnaryHandler(
		procedure,
		func(ctx context.Context, _ *connect.Request[pingv1.PingRequest]) (*connect.Response[pingv1.PingResponse], error) {
			userCodeRan.Add(1)
			return connect.NewResponse(&pingv1.PingResponse{}), nil
		},
	))
	server := httptest.NewUnstartedServer(mux)
	server.EnableHTTP2 = true
	server.StartTLS()
	defer server.Close()

	webTrailerStatus := regexp.MustCompile(`(?i)grpc-status: *(\d+)`)
	// call returns the grpc-status the server reported.
	call := func(t *testing.T, contentType, timeout string) string {
		t.Helper()
		// One enveloped, empty protobuf message.
		request, err := http.NewRequest(http.MethodPost, server.URL+procedure, bytes.NewReader([]byte{0, 0, 0, 0, 0}))
		if err != nil {
			t.Fatal(err)
		}
		request.Header.Set("Content-Type", contentType)
		request.Header.Set("Te", "trailers")
		request.Header.Set("Grpc-Timeout", timeout)
		response, err := server.Client().Do(request)
		if err != nil {
			t.Fatal(err)
		}
		defer response.Body.Close()
		body, _ := io.ReadAll(response.Body)
		if status := response.Header.Get("Grpc-Status"); status != "" {
			return status // trailers-only response
		}
		if status := response.Trailer.Get("Grpc-Status"); status != "" {
			return status
		}
		if match := webTrailerStatus.FindSubmatch(body); match != nil {
			return string(match[1]) // gRPC-Web trailers are in the body
		}
		return "<none>"
	}

	const invalidArgument = "3"
	for _, contentType := range []string{"application/grpc", "application/grpc-web"} {
		contentType := contentType
		// Sanity: another malformed number is rejected the way C10 demands.
		userCodeRan.Store(0)
		if status := call(t, contentType, "5xS"); status != invalidArgument || userCodeRan.Load() != 0 {
			t.Fatalf("harness (%s): timeout %q: grpc-status %s, ran=%d", contentType, "5xS", status, userCodeRan.Load())
		}
		// Sanity: "-5S" is rejected.
		if status := call(t, contentType, "-5S"); status != invalidArgument || userCodeRan.Load() != 0 {
			t.Fatalf("harness (%s): timeout %q: grpc-status %s, ran=%d", contentType, "-5S", status, userCodeRan.Load())
		}
		for _, timeout := range []string{"+5S", "+99999999M", "-0S", "+0n", "+1H"} {
			timeout := timeout
			t.Run(contentType+"/"+timeout, func(t *testing.T) {
				userCodeRan.Store(0)
				status := call(t, contentType, timeout)
				ran := userCodeRan.Load()
				if status != invalidArgument || ran != 0 {
					t.Errorf(
						"C10 violated: Grpc-Timeout %q has a non-decimal number (the grammar is 1-8 ASCII digits, then a unit); "+
							"expected grpc-status 3 (invalid_argument) without running user code; "+
							"observed grpc-status %s, user handler ran %d time(s)",
						timeout, status, ran,
					)
				}
			})
		}
	}
}
