package connect_test

import (
	"bytes"
	"context"
	"io"
	"net/http"
	"net/http/httptest"
	"sync"
	"testing"
	"time"

	connect "github.com/bufbuild/connect-go"
	pingv1 "github.com/bufbuild/connect-go/internal/gen/connect/ping/v1"
)

// auditC10aFinding4Transport plays the role of the network: it hands the
// client's request to the handler. Like a real network, it does not carry the client's Go
// context to the server: the only thing that conveys the deadline is the
// timeout header.
type auditC10aFinding4Transport struct {
	handler http.Handler

	mu              sync.Mutex
	called          bool
	remainingAtSend time.Duration // client's remaining time when the request left
	header          []string      // Connect-Timeout-Ms values sent
}

func (a *auditC10aFinding4Transport) Do(request *http.Request) (*http.Response, error) {
	deadline, hasDeadline := request.Context().Deadline()
	remaining := time.Until(deadline)
	a.mu.Lock()
	a.called = true
	if hasDeadline {
		a.remainingAtSend = remaining
	}
	a.header = request.Header.Values("Connect-Timeout-Ms")
	a.mu.Unlock()

	// Consume the request body like a real transport would; if the client gave
	// up mid-way the read fails and we deliver what a peer would have seen of a
	// complete, empty protobuf message anyway.
	body, _ := io.ReadAll(request.Body)
	_ = request.Body.Close()
	serverRequest := httptest.NewRequest(http.MethodPost, request.URL.String(), bytes.NewReader(body))
	serverRequest.Header = request.Header.Clone()
	recorder := httptest.NewRecorder()
	a.handler.ServeHTTP(recorder, serverRequest)
	return recorder.Result(), nil
}

// C10: "When a client call has a deadline, the timeout sent to the server is
// never longer than the time remaining and shorter by at most ... one
// millisecond for Connect ... and the handler's context gets the corresponding
// deadline" (quantified over all durations in (0, 2^63) ns).
//
// For a remaining time in (0, 1ms) the Connect client computes millis == 0 and
// then sends NO timeout header at all (protocol_connect.go: "if millis > 0").
// "No timeout" is an unbounded timeout: longer than the time remaining, and
// the handler's context has no deadline although the client call has one. (A
// header of "0" would have satisfied the property; so would refusing to send.)
func TestAuditC10aFinding4(t *testing.T) {
	const procedure = "/connect.ping.v1.PingService/Ping"
	const timeout = 900 * time.Microsecond

	var (
		mu                 sync.Mutex
		handlerRan         bool
		handlerHasDeadline bool
	)
	handler := connect.NewUnaryHandler(
		procedure,
		func(ctx context.Context, _ *connect.Request[pingv1.PingRequest]) (*connect.Response[pingv1.PingResponse], error) {
			_, ok := ctx.Deadline()
			mu.Lock()
			handlerRan, handlerHasDeadline = true, ok
			mu.Unlock()
			return connect.NewResponse(&pingv1.PingResponse{}), nil
		},
	)

	// The window is short, so on a loaded machine the deadline may pass before
	// the request leaves the client; such attempts prove nothing and are retried.
	for attempt := 0; attempt < 200; attempt++ {
		transport := &auditC10aFinding4Transport{handler: handler}
		client := connect.NewClient[pingv1.PingRequest, pingv1.PingResponse](
			transport,
			"http://audit.invalid"+procedure,
		)
		mu.Lock()
		handlerRan, handlerHasDeadline = false, false
		mu.Unlock()

		ctx, cancel := context.WithTimeout(context.Background(), timeout)
		_, _ = client.CallUnary(ctx, connect.NewRequest(&pingv1.PingRequest{}))
		cancel()

		// CallUnary may return (deadline exceeded) while the transport goroutine
		// is still running; give it a moment.
		var called bool
		var remaining time.Duration
		var header []string
		for i := 0; i < 100; i++ {
			transport.mu.Lock()
			called, remaining, header = transport.called, transport.remainingAtSend, transport.header
			transport.mu.Unlock()
			if called {
				break
			}
			time.Sleep(time.Millisecond)
		}
		if !called || remaining <= 0 {
			continue // deadline passed before the request was sent: not a sample
		}
		// The request left the client while its deadline was still in the future:
		// 0 < remaining < 1ms held when the header was computed, too.
		for i := 0; i < 100; i++ {
			mu.Lock()
			ran := handlerRan
			mu.Unlock()
			if ran {
				break
			}
			time.Sleep(time.Millisecond)
		}
		mu.Lock()
		ran, hasDeadline := handlerRan, handlerHasDeadline
		mu.Unlock()
		if len(header) == 0 || (ran && !hasDeadline) {
			t.Fatalf(
				"C10 violated: the client call has a deadline with %v (< 1ms, > 0) remaining when the request was sent; "+
					"expected a Connect-Timeout-Ms no longer than the time remaining (i.e. \"0\") and a handler context with a deadline; "+
					"observed Connect-Timeout-Ms values %q (none = unbounded), handler ran=%v, handler context has deadline=%v",
				remaining, header, ran, hasDeadline,
			)
		}
		return // a valid sample that satisfied the property
	}
	t.Skip("could not send a request within the sub-millisecond window on this machine")
}
