package connect_test

import (
	"context"
	"encoding/json"
	"io"
	"net/http"
	"net/http/httptest"
	"strings"
	"sync/atomic"
	"testing"

	connect "github.com/bufbuild/connect-go"
	pingv1 "github.com/bufbuild/connect-go/internal/gen/connect/ping/v1"
)

// C10: "a malformed [timeout] - ... empty or non-decimal number ... - is
// rejected as invalid_argument without running user code."
//
// The Connect grammar for Connect-Timeout-Ms is "positive integer as ASCII
// string of at most 10 digits": a sign is not a decimal digit. The Connect
// handler parses the header with strconv.ParseInt, which accepts a leading "+"
// or "-", so "+5000" is honoured as 5000ms (user code runs) and "-5" produces a
// context that is already expired (reported as deadline_exceeded, and streaming
// handlers / interceptors run).
func TestAuditC10aFinding2(t *testing.T) {
	const (
		unaryProcedure  = "/connect.ping.v1.PingService/Ping"
		streamProcedure = "/connect.ping.v1.PingService/CountUp"
	)
	var userCodeRan atomic.Int32
	mux := http.NewServeMux()
	mux.Handle(unaryProcedure, connect.NewUnaryHandler(
		unaryProcedure,
		func(ctx context.Context, _ *connect.Request[pingv1.PingRequest]) (*connect.Response[pingv1.PingResponse], error) {
			userCodeRan.Add(1)
			return connect.NewResponse(&pingv1.PingResponse{}), nil
		},
	))
	mux.Handle(streamProcedure, connect.NewServerStreamHandler(
		streamProcedure,
		func(ctx context.Context, _ *connect.Request[pingv1.CountUpRequest], _ *connect.ServerStream[pingv1.CountUpResponse]) error {
			userCodeRan.Add(1)
			return nil
		},
	))
	server := httptest.NewServer(mux)
	defer server.Close()

	type wireError struct {
		Code string `json:"code"`
	}
	// call returns the HTTP status and the Connect error code ("" if none).
	callUnary := func(t *testing.T, timeout string) (int, string) {
		t.Helper()
		request, err := http.NewRequest(http.MethodPost, server.URL+unaryProcedure, strings.NewReader("{}"))
		if err != nil {
			t.Fatal(err)
		}
		request.Header.Set("Content-Type", "application/json")
		request.Header.Set("Connect-Timeout-Ms", timeout)
		response, err := server.Client().Do(request)
		if err != nil {
			t.Fatal(err)
		}
		defer response.Body.Close()
		body, _ := io.ReadAll(response.Body)
		var wire wireError
		if response.StatusCode != http.StatusOK {
			_ = json.Unmarshal(body, &wire)
		}
		return response.StatusCode, wire.Code
	}
	callStream := func(t *testing.T, timeout string) (int, string) {
		t.Helper()
		// One enveloped JSON message "{}".
		payload := string([]byte{0, 0, 0, 0, 2}) + "{}"
		request, err := http.NewRequest(http.MethodPost, server.URL+streamProcedure, strings.NewReader(payload))
		if err != nil {
			t.Fatal(err)
		}
		request.Header.Set("Content-Type", "application/connect+json")
		request.Header.Set("Connect-Timeout-Ms", timeout)
		response, err := server.Client().Do(request)
		if err != nil {
			t.Fatal(err)
		}
		defer response.Body.Close()
		body, _ := io.ReadAll(response.Body)
		// The end-of-stream envelope is flags(0x02) + 4-byte length + JSON.
		var end struct {
			Error *wireError `json:"error"`
		}
		if len(body) >= 5 {
			_ = json.Unmarshal(body[5:], &end)
		}
		if end.Error != nil {
			return response.StatusCode, end.Error.Code
		}
		return response.StatusCode, ""
	}

	// Sanity: the same requests with other malformed numbers are rejected the
	// way the property demands, so the harness is right.
	userCodeRan.Store(0)
	if status, code := callUnary(t, "5x"); status != http.StatusBadRequest || code != "invalid_argument" || userCodeRan.Load() != 0 {
		t.Fatalf("harness: timeout %q: got HTTP %d code %q ran=%d", "5x", status, code, userCodeRan.Load())
	}
	if _, code := callStream(t, "5x"); code != "invalid_argument" || userCodeRan.Load() != 0 {
		t.Fatalf("harness: stream timeout %q: got code %q ran=%d", "5x", code, userCodeRan.Load())
	}

	for _, timeout := range []string{"+5000", "-5", "+0", "-0", "-999999999"} {
		timeout := timeout
		t.Run("unary/"+timeout, func(t *testing.T) {
			userCodeRan.Store(0)
			status, code := callUnary(t, timeout)
			ran := userCodeRan.Load()
			if code != "invalid_argument" || ran != 0 {
				t.Errorf(
					"C10 violated: Connect-Timeout-Ms %q is not a decimal number (the grammar is 1-10 ASCII digits); "+
						"expected it to be rejected as invalid_argument without running user code; "+
						"observed HTTP %d, error code %q, user handler ran %d time(s)",
					timeout, status, code, ran,
				)
			}
		})
		t.Run("server_stream/"+timeout, func(t *testing.T) {
			userCodeRan.Store(0)
			status, code := callStream(t, timeout)
			ran := userCodeRan.Load()
			if code != "invalid_argument" || ran != 0 {
				t.Errorf(
					"C10 violated: Connect-Timeout-Ms %q is not a decimal number (the grammar is 1-10 ASCII digits); "+
						"expected it to be rejected as invalid_argument without running user code; "+
						"observed HTTP %d, end-of-stream error code %q, user handler ran %d time(s)",
					timeout, status, code, ran,
				)
			}
		})
	}
}
