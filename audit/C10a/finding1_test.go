package connect_test

import (
	"context"
	"net/http"
	"net/http/httptest"
	"sync"
	"testing"
	"time"

	connect "github.com/bufbuild/connect-go"
	pingv1 "github.com/bufbuild/connect-go/internal/gen/connect/ping/v1"
)

// C10: "the timeout sent to the server is never longer than the time
// remaining" / "deadlines ... are never extended".
//
// The timeout header of a streaming call is computed when the stream is
// created (protocolClient.NewConn), but the HTTP request (and so the header) is
// only sent on the first Send/CloseRequest. Any time the caller spends between
// creating the stream and the first Send is not subtracted, so the server is
// told a timeout that is longer than the time remaining, and the handler's
// deadline is later than the client's.
func TestAuditC10aFinding1(t *testing.T) {
	const (
		timeout = 3 * time.Second
		delay   = 700 * time.Millisecond
		// The property allows the handler deadline to be *earlier* than the
		// client's; it never allows it to be later. We still allow 50ms of slack
		// so that the failure cannot be blamed on scheduling noise.
		slack = 50 * time.Millisecond
	)
	const procedure = "/connect.ping.v1.PingService/Sum"

	type observation struct {
		deadline    time.Time
		hasDeadline bool
		header      string
		arrived     time.Time
	}
	var (
		mu       sync.Mutex
		observed observation
	)
	handler := connect.NewClientStreamHandler(
		procedure,
		func(ctx context.Context, stream *connect.ClientStream[pingv1.SumRequest]) (*connect.Response[pingv1.SumResponse], error) {
			now := time.Now()
			deadline, ok := ctx.Deadline()
			header := stream.RequestHeader().Get("Connect-Timeout-Ms")
			if header == "" {
				header = stream.RequestHeader().Get("Grpc-Timeout")
			}
			mu.Lock()
			observed = observation{deadline: deadline, hasDeadline: ok, header: header, arrived: now}
			mu.Unlock()
			for stream.Receive() {
			}
			return connect.NewResponse(&pingv1.SumResponse{}), nil
		},
	)
	mux := http.NewServeMux()
	mux.Handle(procedure, handler)
	server := httptest.NewUnstartedServer(mux)
	server.EnableHTTP2 = true
	server.StartTLS()
	defer server.Close()

	protocols := []struct {
		name    string
		options []connect.ClientOption
	}{
		{"connect", nil},
		{"grpc", []connect.ClientOption{connect.WithGRPC()}},
		{"grpcweb", []connect.ClientOption{connect.WithGRPCWeb()}},
	}
	for _, protocol := range protocols {
		protocol := protocol
		t.Run(protocol.name, func(t *testing.T) {
			client := connect.NewClient[pingv1.SumRequest, pingv1.SumResponse](
				server.Client(),
				server.URL+procedure,
				protocol.options...,
			)
			ctx, cancel := context.WithTimeout(context.Background(), timeout)
			defer cancel()
			clientDeadline, _ := ctx.Deadline()

			stream := client.CallClientStream(ctx)
			time.Sleep(delay) // the caller prepares its first message
			remainingAtSend := time.Until(clientDeadline)
			if err := stream.Send(&pingv1.SumRequest{Number: 1}); err != nil {
				t.Fatalf("send: %v", err)
			}
			if _, err := stream.CloseAndReceive(); err != nil {
				t.Fatalf("close and receive: %v", err)
			}

			mu.Lock()
			got := observed
			mu.Unlock()
			if !got.hasDeadline {
				t.Fatalf("handler context has no deadline")
			}
			if extended := got.deadline.Sub(clientDeadline); extended > slack {
				t.Errorf(
					"C10 violated (%s): expected the timeout sent to the server to be no longer than the time remaining "+
						"when it is sent (%v remaining at first Send) and the handler deadline to be no later than the client deadline; "+
						"observed timeout header %q and a handler deadline %v LATER than the client's deadline",
					protocol.name, remainingAtSend, got.header, extended,
				)
			}
		})
	}
}
