package connect_test

import (
	"bytes"
	"context"
	"encoding/json"
	"io"
	"net/http"
	"net/http/httptest"
	"strings"
	"sync/atomic"
	"testing"

	connect "github.com/bufbuild/connect-go"
	pingv1 "github.com/bufbuild/connect-go/internal/gen/connect/ping/v1"
)

// C10: "a malformed [timeout] ... is rejected as invalid_argument without
// running user code."
//
// Handler.ServeHTTP remembers the SetTimeout error but reports it only after
// protocolHandler.NewConn succeeded. When the same request also names a
// compression the handler doesn't know, NewConn itself closes the stream with
// the compression error and ServeHTTP returns: the malformed timeout is
// rejected as "unimplemented" instead of "invalid_argument".
func TestAuditC10aFinding6(t *testing.T) {
	const procedure = "/connect.ping.v1.PingService/Ping"
	var userCodeRan atomic.Int32
	mux := http.NewServeMux()
	mux.Handle(procedure, connect.NewUnaryHandler(
		procedure,
		func(ctx context.Context, _ *connect.Request[pingv1.PingRequest]) (*connect.Response[pingv1.PingResponse], error) {
			userCodeRan.Add(1)
			return connect.NewResponse(&pingv1.PingResponse{}), nil
		},
	))
	server := httptest.NewUnstartedServer(mux)
	server.EnableHTTP2 = true
	server.StartTLS()
	defer server.Close()

	do := func(t *testing.T, body []byte, header map[string]string) (*http.Response, []byte) {
		t.Helper()
		request, err := http.NewRequest(http.MethodPost, server.URL+procedure, bytes.NewReader(body))
		if err != nil {
			t.Fatal(err)
		}
		for key, value := range header {
			request.Header.Set(key, value)
		}
		response, err := server.Client().Do(request)
		if err != nil {
			t.Fatal(err)
		}
		defer response.Body.Close()
		data, _ := io.ReadAll(response.Body)
		return response, data
	}

	t.Run("connect_unary", func(t *testing.T) {
		userCodeRan.Store(0)
		response, data := do(t, []byte("{}"), map[string]string{
			"Content-Type":       "application/json",
			"Connect-Timeout-Ms": "5x", // malformed: non-decimal
			"Content-Encoding":   "audit-unknown",
		})
		var wire struct {
			Code string `json:"code"`
		}
		_ = json.Unmarshal(data, &wire)
		if wire.Code != "invalid_argument" || userCodeRan.Load() != 0 {
			t.Errorf(
				"C10 violated: Connect-Timeout-Ms %q is malformed; expected the request to be rejected as invalid_argument without running user code; "+
					"observed HTTP %d, error code %q (body %s), user handler ran %d time(s)",
				"5x", response.StatusCode, wire.Code, strings.TrimSpace(string(data)), userCodeRan.Load(),
			)
		}
	})
	for _, contentType := range []string{"application/grpc", "application/grpc-web"} {
		contentType := contentType
		t.Run(contentType, func(t *testing.T) {
			userCodeRan.Store(0)
			response, _ := do(t, []byte{0, 0, 0, 0, 0}, map[string]string{
				"Content-Type":  contentType,
				"Te":            "trailers",
				"Grpc-Timeout":  "5", // malformed: missing unit
				"Grpc-Encoding": "audit-unknown",
			})
			status := response.Header.Get("Grpc-Status")
			if status == "" {
				status = response.Trailer.Get("Grpc-Status")
			}
			if status != "3" || userCodeRan.Load() != 0 {
				t.Errorf(
					"C10 violated: Grpc-Timeout %q is malformed (missing unit); expected grpc-status 3 (invalid_argument) without running user code; "+
						"observed grpc-status %q (grpc-message %q), user handler ran %d time(s)",
					"5", status, response.Header.Get("Grpc-Message")+response.Trailer.Get("Grpc-Message"), userCodeRan.Load(),
				)
			}
		})
	}
}
