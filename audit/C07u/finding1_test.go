package connect_test

import (
	"context"
	"encoding/binary"
	"fmt"
	"io"
	"net"
	"net/http/httptest"
	"strings"
	"sync/atomic"
	"testing"
	"time"

	"github.com/bufbuild/connect-go"
	pingv1 "github.com/bufbuild/connect-go/internal/gen/connect/ping/v1"
	"google.golang.org/protobuf/proto"
)

// C07: "For any HTTP request whatsoever [quantifier: all (method, HTTP version,
// header multimap, body bytes)], serving it ... yields a response that is
// well-formed for the protocol selected by its Content-Type (or a bare
// 405/415/505 when none is selected). ... unknown compression ... reach the
// peer as the documented error codes, never as success."
//
// A gRPC response is only well-formed if it carries a grpc-status. The handler
// sends it as an HTTP trailer, which HTTP/1.0 cannot carry: over HTTP/1.0 a
// request with Content-Type application/grpc is answered "200 OK" with no
// grpc-status anywhere, and an error (here: unknown compression, which must be
// "unimplemented") vanishes completely.
func TestAuditC07uFinding1(t *testing.T) {
	var calls int32
	handler := connect.NewUnaryHandler(
		"/connect.ping.v1.PingService/Ping",
		func(_ context.Context, req *connect.Request[pingv1.PingRequest]) (*connect.Response[pingv1.PingResponse], error) {
			atomic.AddInt32(&calls, 1)
			return connect.NewResponse(&pingv1.PingResponse{Number: req.Msg.Number}), nil
		},
	)
	server := httptest.NewServer(handler)
	defer server.Close()

	payload, err := proto.Marshal(&pingv1.PingRequest{Number: 1})
	if err != nil {
		t.Fatal(err)
	}
	body := make([]byte, 5+len(payload))
	binary.BigEndian.PutUint32(body[1:5], uint32(len(payload)))
	copy(body[5:], payload)

	roundTrip := func(extraHeaders string) string {
		conn, err := net.Dial("tcp", server.Listener.Addr().String())
		if err != nil {
			t.Fatal(err)
		}
		defer conn.Close()
		_ = conn.SetDeadline(time.Now().Add(5 * time.Second))
		request := fmt.Sprintf(
			"POST /connect.ping.v1.PingService/Ping HTTP/1.0\r\n"+
				"Host: example.com\r\n"+
				"Content-Type: application/grpc\r\n"+
				"%s"+
				"Content-Length: %d\r\n\r\n%s",
			extraHeaders, len(body), body,
		)
		if _, err := conn.Write([]byte(request)); err != nil {
			t.Fatal(err)
		}
		raw, _ := io.ReadAll(conn)
		return string(raw)
	}
	wellFormed := func(raw string) bool {
		statusLine, _, _ := strings.Cut(raw, "\r\n")
		if !strings.Contains(statusLine, " 200 ") {
			// A bare refusal (505, say) would be fine.
			return strings.Contains(statusLine, " 505 ") ||
				strings.Contains(statusLine, " 415 ") ||
				strings.Contains(statusLine, " 405 ")
		}
		return strings.Contains(strings.ToLower(raw), "grpc-status")
	}

	t.Run("unknown_compression", func(t *testing.T) {
		raw := roundTrip("Grpc-Encoding: br\r\n")
		if !wellFormed(raw) {
			t.Errorf("gRPC request over HTTP/1.0 with unknown Grpc-Encoding \"br\": "+
				"expected the peer to get grpc-status 12 (unimplemented) in a well-formed gRPC response, or a bare 505/415; "+
				"observed a response with no grpc-status at all (the error is lost, the peer sees a plain 200 OK):\n%q", raw)
		}
		if n := atomic.LoadInt32(&calls); n != 0 {
			t.Errorf("user code ran %d times for a request with unknown compression", n)
		}
	})
	t.Run("invalid_timeout", func(t *testing.T) {
		raw := roundTrip("Grpc-Timeout: bogus\r\n")
		if !wellFormed(raw) {
			t.Errorf("gRPC request over HTTP/1.0 with invalid Grpc-Timeout: "+
				"expected the peer to get grpc-status 3 (invalid_argument) in a well-formed gRPC response, or a bare 505/415; "+
				"observed a response with no grpc-status at all:\n%q", raw)
		}
	})
	t.Run("valid_request", func(t *testing.T) {
		raw := roundTrip("")
		if !wellFormed(raw) {
			t.Errorf("valid gRPC request over HTTP/1.0: "+
				"expected a well-formed gRPC response (one that carries grpc-status) or a bare 505/415; "+
				"observed 200 OK with a message but no grpc-status anywhere:\n%q", raw)
		}
	})
}
