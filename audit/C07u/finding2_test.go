package connect_test

import (
	"bytes"
	"context"
	"encoding/binary"
	"encoding/json"
	"fmt"
	"net/http"
	"net/http/httptest"
	"strings"
	"testing"

	"github.com/bufbuild/connect-go"
	pingv1 "github.com/bufbuild/connect-go/internal/gen/connect/ping/v1"
	"google.golang.org/protobuf/encoding/protojson"
	"google.golang.org/protobuf/proto"
)

// auditC07uDecoderCodec is an ordinary user-supplied Codec (a handler
// configuration: connect.WithCodec). It parses the payload with a json.Decoder
// - the usual way to insist on exactly one well-formed JSON value - and then
// hands the value to protojson. For a payload that holds no JSON value at all
// (empty, or only white space) json.Decoder.Decode fails with io.EOF, which is
// a perfectly good way for a Codec to say "I can't decode this": the Codec
// documentation puts no restriction on the errors Unmarshal returns.
type auditC07uDecoderCodec struct{}

func (auditC07uDecoderCodec) Name() string { return "djson" }

func (auditC07uDecoderCodec) Marshal(message any) ([]byte, error) {
	protoMessage, ok := message.(proto.Message)
	if !ok {
		return nil, fmt.Errorf("%T is not a proto.Message", message)
	}
	return protojson.Marshal(protoMessage)
}

func (auditC07uDecoderCodec) Unmarshal(data []byte, message any) error {
	protoMessage, ok := message.(proto.Message)
	if !ok {
		return fmt.Errorf("%T is not a proto.Message", message)
	}
	var raw json.RawMessage
	if err := json.NewDecoder(bytes.NewReader(data)).Decode(&raw); err != nil {
		return err // io.EOF if there's no JSON value in data
	}
	return protojson.Unmarshal(raw, protoMessage)
}

func auditC07uEnvelope(flags byte, data string) []byte {
	out := make([]byte, 5, 5+len(data))
	out[0] = flags
	binary.BigEndian.PutUint32(out[1:5], uint32(len(data)))
	return append(out, data...)
}

// C07: "User code ... only ever receives messages that decoded successfully;
// malformed framing, unknown compression, undecodable payloads, ... reach the
// peer as the documented error codes, never as success." Quantifier: "... x 4
// RPC kinds x handler configurations".
//
// The envelope reader wraps the codec's error with %w
// ("unmarshal into %T: %w"), so a codec error that is (or wraps) io.EOF turns
// into an error for which errors.Is(err, io.EOF) holds - and that is how the
// handler side recognizes the clean end of the request (expectEndOfRequest,
// ClientStream.Err, the documented BidiStream.Receive contract). An
// undecodable message in the middle of the request is therefore taken for the
// end of the request: the rest of the request is dropped silently and the peer
// is told that the call succeeded.
func TestAuditC07uFinding2(t *testing.T) {
	const undecodable = " " // no JSON value in here: the codec fails to decode it

	t.Run("client_stream_connect", func(t *testing.T) {
		var seen []int64
		handler := connect.NewClientStreamHandler(
			"/connect.ping.v1.PingService/Sum",
			func(_ context.Context, stream *connect.ClientStream[pingv1.SumRequest]) (*connect.Response[pingv1.SumResponse], error) {
				var sum int64
				for stream.Receive() {
					seen = append(seen, stream.Msg().Number)
					sum += stream.Msg().Number
				}
				if err := stream.Err(); err != nil {
					return nil, err
				}
				return connect.NewResponse(&pingv1.SumResponse{Sum: sum}), nil
			},
			connect.WithCodec(auditC07uDecoderCodec{}),
		)
		var body []byte
		body = append(body, auditC07uEnvelope(0, `{"number":"1"}`)...)
		body = append(body, auditC07uEnvelope(0, undecodable)...)
		body = append(body, auditC07uEnvelope(0, `{"number":"100"}`)...)
		request := httptest.NewRequest(http.MethodPost, "http://example.com/connect.ping.v1.PingService/Sum", bytes.NewReader(body))
		request.Header.Set("Content-Type", "application/connect+djson")
		recorder := httptest.NewRecorder()
		handler.ServeHTTP(recorder, request)

		response := recorder.Body.String()
		if !strings.Contains(response, `"error"`) {
			t.Errorf("client stream over Connect, second of three messages is undecodable: "+
				"expected an end-of-stream message with an error (invalid_argument); "+
				"observed a successful response (user code saw messages %v, the undecodable message and everything after it were dropped silently): %q",
				seen, response)
		}
	})

	t.Run("unary_grpc", func(t *testing.T) {
		calls := 0
		handler := connect.NewUnaryHandler(
			"/connect.ping.v1.PingService/Ping",
			func(_ context.Context, req *connect.Request[pingv1.PingRequest]) (*connect.Response[pingv1.PingResponse], error) {
				calls++
				return connect.NewResponse(&pingv1.PingResponse{Number: req.Msg.Number}), nil
			},
			connect.WithCodec(auditC07uDecoderCodec{}),
		)
		var body []byte
		body = append(body, auditC07uEnvelope(0, `{"number":"1"}`)...)
		body = append(body, auditC07uEnvelope(0, undecodable)...)
		request := httptest.NewRequest(http.MethodPost, "http://example.com/connect.ping.v1.PingService/Ping", bytes.NewReader(body))
		request.ProtoMajor, request.ProtoMinor, request.Proto = 2, 0, "HTTP/2.0"
		request.Header.Set("Content-Type", "application/grpc+djson")
		recorder := httptest.NewRecorder()
		handler.ServeHTTP(recorder, request)

		result := recorder.Result()
		status := result.Trailer.Get("Grpc-Status")
		if status == "" {
			status = result.Header.Get("Grpc-Status")
		}
		if status == "0" || calls != 0 {
			t.Errorf("unary call over gRPC whose request is one message followed by an undecodable second message: "+
				"expected a non-zero grpc-status (the request is malformed) and user code not to run; "+
				"observed grpc-status %q, user code ran %d time(s), grpc-message %q",
				status, calls, result.Trailer.Get("Grpc-Message"))
		}
	})
}
