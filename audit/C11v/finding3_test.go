package connect_test

import (
	"context"
	"errors"
	"net/http"
	"net/http/httptest"
	"reflect"
	"strings"
	"testing"

	connect "github.com/bufbuild/connect-go"
	pingv1 "github.com/bufbuild/connect-go/internal/gen/connect/ping/v1"
)

// C11: every response trailer the handler sets is visible to the client on
// success, and on failure at least in the error's metadata, in all protocols.
// A client configured with WithReadMaxBytes (a limit on MESSAGE size) applies
// that limit to the Connect end-of-stream envelope and to the gRPC-Web
// trailers envelope too - which carry the trailers, the handler's error and
// its metadata, not a message. A handler whose trailers / error metadata are
// bigger than the client's message limit is then reported as a failed call
// (invalid_argument: message size ... is larger than configured max), the
// trailers are nowhere, and the handler's own error and metadata are lost.
// The same calls work over gRPC (HTTP trailers) and for Connect unary.
func TestAuditC11vFinding3(t *testing.T) {
	big := strings.Repeat("t", 3000)
	mux := http.NewServeMux()
	mux.Handle("/audit.C11v/OK", connect.NewServerStreamHandler("/audit.C11v/OK",
		func(_ context.Context, _ *connect.Request[pingv1.PingRequest], stream *connect.ServerStream[pingv1.PingResponse]) error {
			stream.ResponseTrailer().Set("X-Big-Trailer", big)
			return stream.Send(&pingv1.PingResponse{Number: 1})
		}))
	mux.Handle("/audit.C11v/Fail", connect.NewServerStreamHandler("/audit.C11v/Fail",
		func(_ context.Context, _ *connect.Request[pingv1.PingRequest], stream *connect.ServerStream[pingv1.PingResponse]) error {
			if err := stream.Send(&pingv1.PingResponse{Number: 1}); err != nil {
				return err
			}
			err := connect.NewError(connect.CodeResourceExhausted, errors.New("boom"))
			err.Meta().Set("X-Big-Meta", big)
			return err
		}))
	server := httptest.NewUnstartedServer(mux)
	server.EnableHTTP2 = true
	server.StartTLS()
	defer server.Close()

	protocols := []struct {
		name string
		opts []connect.ClientOption
	}{
		{"grpc", []connect.ClientOption{connect.WithGRPC()}}, // control: passes
		{"connect", nil},
		{"grpcweb", []connect.ClientOption{connect.WithGRPCWeb()}},
	}
	for _, protocol := range protocols {
		protocol := protocol
		opts := append([]connect.ClientOption{connect.WithReadMaxBytes(1024)}, protocol.opts...)
		t.Run(protocol.name+"/success", func(t *testing.T) {
			client := connect.NewClient[pingv1.PingRequest, pingv1.PingResponse](
				server.Client(), server.URL+"/audit.C11v/OK", opts...)
			stream, err := client.CallServerStream(context.Background(), connect.NewRequest(&pingv1.PingRequest{}))
			if err != nil {
				t.Fatal(err)
			}
			defer stream.Close()
			messages := 0
			for stream.Receive() {
				messages++
			}
			if err := stream.Err(); err != nil {
				t.Errorf("C11 violated (%s, server stream, success with 1 message, client WithReadMaxBytes(1024)): "+
					"handler succeeded and set a 3000-byte trailer; property expects a successful call with the trailer "+
					"under the response trailers, observed error: %v", protocol.name, err)
			}
			if got := stream.ResponseTrailer()["X-Big-Trailer"]; !reflect.DeepEqual(got, []string{big}) {
				t.Errorf("C11 violated (%s): trailer X-Big-Trailer (3000 bytes) set by the handler, "+
					"observed %d values under the client's response trailers (messages received: %d)",
					protocol.name, len(got), messages)
			}
		})
		t.Run(protocol.name+"/error_after_message", func(t *testing.T) {
			client := connect.NewClient[pingv1.PingRequest, pingv1.PingResponse](
				server.Client(), server.URL+"/audit.C11v/Fail", opts...)
			stream, err := client.CallServerStream(context.Background(), connect.NewRequest(&pingv1.PingRequest{}))
			if err != nil {
				t.Fatal(err)
			}
			defer stream.Close()
			for stream.Receive() {
			}
			var connectErr *connect.Error
			if !errors.As(stream.Err(), &connectErr) {
				t.Fatalf("expected an error, got %v", stream.Err())
			}
			if got := connectErr.Meta()["X-Big-Meta"]; !reflect.DeepEqual(got, []string{big}) {
				t.Errorf("C11 violated (%s, server stream, error after 1 message, client WithReadMaxBytes(1024)): "+
					"handler returned resource_exhausted with 3000-byte metadata X-Big-Meta; property expects it in the "+
					"client error's Meta(), observed %d values there; client error is: code=%v msg=%q",
					protocol.name, len(got), connectErr.Code(), connectErr.Message())
			}
		})
	}
}
