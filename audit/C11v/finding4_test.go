package connect_test

import (
	"context"
	"errors"
	"net/http"
	"net/http/httptest"
	"reflect"
	"testing"

	connect "github.com/bufbuild/connect-go"
	pingv1 "github.com/bufbuild/connect-go/internal/gen/connect/ping/v1"
)

// C11: every response header the handler sets (and, on failure, the error's
// metadata) is visible to the client in all protocols and RPC kinds.
// mergeMetadataHeaders / isFramingHeader (header.go) drop a fixed list of
// names from Response.Header() in NewUnaryHandler / NewClientStreamHandler and
// from error metadata in gRPC, gRPC-Web and unary Connect - whatever the
// protocol in use. Accept-Encoding is a valid header name outside the
// protocol-reserved prefixes, and in gRPC and gRPC-Web (which negotiate with
// Grpc-Accept-Encoding) the library neither sets nor reads it on responses;
// yet a unary or client-streaming handler can't send it, while a
// server-streaming handler (same protocol, same header) can, and error
// metadata of that name arrives over Connect streaming but not over gRPC.
func TestAuditC11vFinding4(t *testing.T) {
	want := []string{"br", "zstd"}
	mux := http.NewServeMux()
	mux.Handle("/audit.C11v/Unary", connect.NewUnaryHandler("/audit.C11v/Unary",
		func(_ context.Context, _ *connect.Request[pingv1.PingRequest]) (*connect.Response[pingv1.PingResponse], error) {
			res := connect.NewResponse(&pingv1.PingResponse{})
			res.Header()["Accept-Encoding"] = want
			res.Header().Set("X-Plain", "kept")
			return res, nil
		}))
	mux.Handle("/audit.C11v/ServerStream", connect.NewServerStreamHandler("/audit.C11v/ServerStream",
		func(_ context.Context, _ *connect.Request[pingv1.PingRequest], stream *connect.ServerStream[pingv1.PingResponse]) error {
			stream.ResponseHeader()["Accept-Encoding"] = want
			return stream.Send(&pingv1.PingResponse{})
		}))
	mux.Handle("/audit.C11v/FailStream", connect.NewServerStreamHandler("/audit.C11v/FailStream",
		func(_ context.Context, _ *connect.Request[pingv1.PingRequest], stream *connect.ServerStream[pingv1.PingResponse]) error {
			if err := stream.Send(&pingv1.PingResponse{}); err != nil {
				return err
			}
			err := connect.NewError(connect.CodeAborted, errors.New("boom"))
			err.Meta()["Accept-Encoding"] = want
			return err
		}))
	server := httptest.NewUnstartedServer(mux)
	server.EnableHTTP2 = true
	server.StartTLS()
	defer server.Close()

	protocols := []struct {
		name string
		opts []connect.ClientOption
	}{
		{"grpc", []connect.ClientOption{connect.WithGRPC()}},
		{"grpcweb", []connect.ClientOption{connect.WithGRPCWeb()}},
	}
	for _, protocol := range protocols {
		protocol := protocol
		t.Run(protocol.name+"/server_stream_header_control", func(t *testing.T) {
			client := connect.NewClient[pingv1.PingRequest, pingv1.PingResponse](
				server.Client(), server.URL+"/audit.C11v/ServerStream", protocol.opts...)
			stream, err := client.CallServerStream(context.Background(), connect.NewRequest(&pingv1.PingRequest{}))
			if err != nil {
				t.Fatal(err)
			}
			for stream.Receive() {
			}
			_ = stream.Close()
			if got := stream.ResponseHeader()["Accept-Encoding"]; !reflect.DeepEqual(got, want) {
				t.Errorf("control (%s, server stream): response header Accept-Encoding observed %q, want %q", protocol.name, got, want)
			}
		})
		t.Run(protocol.name+"/unary_header", func(t *testing.T) {
			client := connect.NewClient[pingv1.PingRequest, pingv1.PingResponse](
				server.Client(), server.URL+"/audit.C11v/Unary", protocol.opts...)
			res, err := client.CallUnary(context.Background(), connect.NewRequest(&pingv1.PingRequest{}))
			if err != nil {
				t.Fatal(err)
			}
			if res.Header().Get("X-Plain") != "kept" {
				t.Fatalf("X-Plain lost")
			}
			if got := res.Header()["Accept-Encoding"]; !reflect.DeepEqual(got, want) {
				t.Errorf("C11 violated (%s, unary, success): handler set response header Accept-Encoding=%q, "+
					"property expects it unchanged under the client's response headers, observed %q",
					protocol.name, want, got)
			}
		})
		t.Run(protocol.name+"/error_metadata", func(t *testing.T) {
			client := connect.NewClient[pingv1.PingRequest, pingv1.PingResponse](
				server.Client(), server.URL+"/audit.C11v/FailStream", protocol.opts...)
			stream, err := client.CallServerStream(context.Background(), connect.NewRequest(&pingv1.PingRequest{}))
			if err != nil {
				t.Fatal(err)
			}
			for stream.Receive() {
			}
			_ = stream.Close()
			var connectErr *connect.Error
			if !errors.As(stream.Err(), &connectErr) || connectErr.Code() != connect.CodeAborted {
				t.Fatalf("expected the handler's error, got %v", stream.Err())
			}
			if got := connectErr.Meta()["Accept-Encoding"]; !reflect.DeepEqual(got, want) {
				t.Errorf("C11 violated (%s, server stream, error after 1 message): handler's error metadata "+
					"Accept-Encoding=%q, property expects it in the client error's Meta(), observed %q",
					protocol.name, want, got)
			}
		})
	}
	// Control: the same error metadata does arrive with the Connect protocol.
	t.Run("connect/error_metadata_control", func(t *testing.T) {
		client := connect.NewClient[pingv1.PingRequest, pingv1.PingResponse](
			server.Client(), server.URL+"/audit.C11v/FailStream")
		stream, err := client.CallServerStream(context.Background(), connect.NewRequest(&pingv1.PingRequest{}))
		if err != nil {
			t.Fatal(err)
		}
		for stream.Receive() {
		}
		_ = stream.Close()
		var connectErr *connect.Error
		if !errors.As(stream.Err(), &connectErr) {
			t.Fatalf("expected an error, got %v", stream.Err())
		}
		if got := connectErr.Meta()["Accept-Encoding"]; !reflect.DeepEqual(got, want) {
			t.Errorf("control (connect streaming): error metadata Accept-Encoding observed %q, want %q", got, want)
		}
	})
}
