package connect_test

import (
	"context"
	"net/http"
	"net/http/httptest"
	"testing"

	connect "github.com/bufbuild/connect-go"
	pingv1 "github.com/bufbuild/connect-go/internal/gen/connect/ping/v1"
)

// C11: every header a client attaches to a call is visible to the handler, in
// all protocols and RPC kinds. User-Agent is a valid header name outside the
// protocol-reserved prefixes (Connect-, Grpc-, Trailer-), but both
// WriteRequestHeader implementations overwrite it unconditionally, and they
// run AFTER the caller's headers are in the map for unary calls
// (Client.callUnary) and server-streaming calls (Client.CallServerStream).
// For client-streaming and bidi calls the caller sets headers after
// WriteRequestHeader ran, so there the same header does reach the handler.
func TestAuditC11vFinding2(t *testing.T) {
	const userAgent = "audit-agent/1.0"
	seen := make(chan string, 1)
	mux := http.NewServeMux()
	mux.Handle("/audit.C11v/Unary", connect.NewUnaryHandler("/audit.C11v/Unary",
		func(_ context.Context, req *connect.Request[pingv1.PingRequest]) (*connect.Response[pingv1.PingResponse], error) {
			seen <- req.Header().Get("User-Agent")
			return connect.NewResponse(&pingv1.PingResponse{}), nil
		}))
	mux.Handle("/audit.C11v/ServerStream", connect.NewServerStreamHandler("/audit.C11v/ServerStream",
		func(_ context.Context, req *connect.Request[pingv1.PingRequest], _ *connect.ServerStream[pingv1.PingResponse]) error {
			seen <- req.Header().Get("User-Agent")
			return nil
		}))
	mux.Handle("/audit.C11v/ClientStream", connect.NewClientStreamHandler("/audit.C11v/ClientStream",
		func(_ context.Context, stream *connect.ClientStream[pingv1.PingRequest]) (*connect.Response[pingv1.PingResponse], error) {
			seen <- stream.RequestHeader().Get("User-Agent")
			for stream.Receive() {
			}
			return connect.NewResponse(&pingv1.PingResponse{}), nil
		}))
	server := httptest.NewUnstartedServer(mux)
	server.EnableHTTP2 = true
	server.StartTLS()
	defer server.Close()

	protocols := []struct {
		name string
		opts []connect.ClientOption
	}{
		{"connect", nil},
		{"grpc", []connect.ClientOption{connect.WithGRPC()}},
		{"grpcweb", []connect.ClientOption{connect.WithGRPCWeb()}},
	}
	for _, protocol := range protocols {
		protocol := protocol
		t.Run(protocol.name+"/client_stream_control", func(t *testing.T) {
			client := connect.NewClient[pingv1.PingRequest, pingv1.PingResponse](
				server.Client(), server.URL+"/audit.C11v/ClientStream", protocol.opts...)
			stream := client.CallClientStream(context.Background())
			stream.RequestHeader().Set("User-Agent", userAgent)
			if _, err := stream.CloseAndReceive(); err != nil {
				t.Fatal(err)
			}
			if got := <-seen; got != userAgent {
				t.Errorf("control (client stream): handler saw User-Agent %q, want %q", got, userAgent)
			}
		})
		t.Run(protocol.name+"/unary", func(t *testing.T) {
			client := connect.NewClient[pingv1.PingRequest, pingv1.PingResponse](
				server.Client(), server.URL+"/audit.C11v/Unary", protocol.opts...)
			req := connect.NewRequest(&pingv1.PingRequest{})
			req.Header().Set("User-Agent", userAgent)
			if _, err := client.CallUnary(context.Background(), req); err != nil {
				t.Fatal(err)
			}
			if got := <-seen; got != userAgent {
				t.Errorf("C11 violated (%s, unary): client attached header User-Agent=%q, "+
					"property expects the handler to see it, handler observed %q",
					protocol.name, userAgent, got)
			}
		})
		t.Run(protocol.name+"/server_stream", func(t *testing.T) {
			client := connect.NewClient[pingv1.PingRequest, pingv1.PingResponse](
				server.Client(), server.URL+"/audit.C11v/ServerStream", protocol.opts...)
			req := connect.NewRequest(&pingv1.PingRequest{})
			req.Header().Set("User-Agent", userAgent)
			stream, err := client.CallServerStream(context.Background(), req)
			if err != nil {
				t.Fatal(err)
			}
			for stream.Receive() {
			}
			_ = stream.Close()
			if got := <-seen; got != userAgent {
				t.Errorf("C11 violated (%s, server stream): client attached header User-Agent=%q, "+
					"property expects the handler to see it, handler observed %q",
					protocol.name, userAgent, got)
			}
		})
	}
}
