package connect_test

import (
	"context"
	"errors"
	"net/http"
	"net/http/httptest"
	"reflect"
	"testing"

	connect "github.com/bufbuild/connect-go"
	pingv1 "github.com/bufbuild/connect-go/internal/gen/connect/ping/v1"
)

// C11: every response trailer the handler sets, and the metadata of the error
// it returns, must reach the client in all protocols. With the gRPC protocol
// over HTTP/2 the library hands trailers (and ALL error metadata, even of
// unary handlers) to net/http as HTTP trailers, and net/http silently drops
// every name it considers forbidden in a trailer (Www-Authenticate,
// Authorization, Cache-Control, If-*, Pragma, Range, Expect, ...). The same
// handler works over Connect and gRPC-Web.
func TestAuditC11vFinding1(t *testing.T) {
	want := http.Header{
		"Www-Authenticate": {`Bearer realm="api"`, `Basic realm="api"`},
		"Cache-Control":    {"no-store"},
		"If-Match":         {"v1", "v2"},
		"X-Plain":          {"kept"},
	}
	mux := http.NewServeMux()
	mux.Handle("/audit.C11v/Unary", connect.NewUnaryHandler("/audit.C11v/Unary",
		func(_ context.Context, _ *connect.Request[pingv1.PingRequest]) (*connect.Response[pingv1.PingResponse], error) {
			err := connect.NewError(connect.CodeUnauthenticated, errors.New("who are you"))
			for k, vs := range want {
				for _, v := range vs {
					err.Meta().Add(k, v)
				}
			}
			return nil, err
		}))
	mux.Handle("/audit.C11v/Stream", connect.NewServerStreamHandler("/audit.C11v/Stream",
		func(_ context.Context, _ *connect.Request[pingv1.PingRequest], stream *connect.ServerStream[pingv1.PingResponse]) error {
			if err := stream.Send(&pingv1.PingResponse{Number: 1}); err != nil {
				return err
			}
			for k, vs := range want {
				for _, v := range vs {
					stream.ResponseTrailer().Add(k, v)
				}
			}
			return nil
		}))
	server := httptest.NewUnstartedServer(mux)
	server.EnableHTTP2 = true
	server.StartTLS()
	defer server.Close()

	protocols := []struct {
		name string
		opts []connect.ClientOption
	}{
		{"connect", nil},
		{"grpcweb", []connect.ClientOption{connect.WithGRPCWeb()}},
		{"grpc", []connect.ClientOption{connect.WithGRPC()}},
	}
	for _, protocol := range protocols {
		protocol := protocol
		t.Run(protocol.name+"/unary_error_metadata", func(t *testing.T) {
			client := connect.NewClient[pingv1.PingRequest, pingv1.PingResponse](
				server.Client(), server.URL+"/audit.C11v/Unary", protocol.opts...)
			_, err := client.CallUnary(context.Background(), connect.NewRequest(&pingv1.PingRequest{}))
			var connectErr *connect.Error
			if !errors.As(err, &connectErr) || connectErr.Code() != connect.CodeUnauthenticated {
				t.Fatalf("expected the handler's unauthenticated error, got %v", err)
			}
			for key, values := range want {
				if got := connectErr.Meta()[key]; !reflect.DeepEqual(got, values) {
					t.Errorf("C11 violated (%s, unary, error before first message): handler set error metadata %s=%q, "+
						"property expects it unchanged in the client's Error.Meta(), observed %q",
						protocol.name, key, values, got)
				}
			}
		})
		t.Run(protocol.name+"/stream_success_trailers", func(t *testing.T) {
			client := connect.NewClient[pingv1.PingRequest, pingv1.PingResponse](
				server.Client(), server.URL+"/audit.C11v/Stream", protocol.opts...)
			stream, err := client.CallServerStream(context.Background(), connect.NewRequest(&pingv1.PingRequest{}))
			if err != nil {
				t.Fatal(err)
			}
			defer stream.Close()
			messages := 0
			for stream.Receive() {
				messages++
			}
			if stream.Err() != nil || messages != 1 {
				t.Fatalf("expected 1 message and a clean end, got %d messages, err %v", messages, stream.Err())
			}
			for key, values := range want {
				if got := stream.ResponseTrailer()[key]; !reflect.DeepEqual(got, values) {
					t.Errorf("C11 violated (%s, server stream, success with 1 message): handler set trailer %s=%q, "+
						"property expects it unchanged under the client's response trailers, observed %q",
						protocol.name, key, values, got)
				}
			}
		})
	}
}
