package connect_test

import (
	"context"
	"errors"
	"net/http"
	"net/http/httptest"
	"testing"

	connect "github.com/bufbuild/connect-go"
	pingv1 "github.com/bufbuild/connect-go/internal/gen/connect/ping/v1"
	"github.com/bufbuild/connect-go/internal/gen/connect/ping/v1/pingv1connect"
	"google.golang.org/protobuf/proto"
	"google.golang.org/protobuf/types/known/anypb"
)

type auditC02uF2Server struct {
	pingv1connect.UnimplementedPingServiceHandler

	detail *anypb.Any
}

func (s auditC02uF2Server) newError() *connect.Error {
	err := connect.NewError(connect.CodeNotFound, errors.New("no such user"))
	err.AddDetail(proto.Clone(s.detail).(*anypb.Any))
	err.Meta().Set("X-Request-Id", "42")
	return err
}

func (s auditC02uF2Server) Fail(context.Context, *connect.Request[pingv1.FailRequest]) (*connect.Response[pingv1.FailResponse], error) {
	return nil, s.newError()
}

func (s auditC02uF2Server) CountUp(_ context.Context, _ *connect.Request[pingv1.CountUpRequest], stream *connect.ServerStream[pingv1.CountUpResponse]) error {
	if err := stream.Send(&pingv1.CountUpResponse{Number: 1}); err != nil {
		return err
	}
	return s.newError()
}

// Property C02: the client receives "the same code, byte-identical message,
// equal details in the same order ... in every protocol". The Connect protocol
// renders the details with protojson, which has to resolve and re-parse every
// Any: a detail whose message type isn't linked into the server binary (an
// error relayed from another service, a dynamic message) makes the handler
// replace the whole error by "internal: marshal error ...", and a detail with
// fields unknown to the linked-in schema arrives without them. The two gRPC
// protocols deliver both unchanged.
func TestAuditC02uFinding2(t *testing.T) {
	details := []struct {
		name   string
		detail *anypb.Any
	}{
		{
			"type_not_linked_in",
			&anypb.Any{TypeUrl: "type.googleapis.com/acme.user.v1.UserNotFound", Value: []byte{0x08, 0x01}},
		},
		{
			// connect.ping.v1.PingRequest{number: 1} plus field 15 (varint 7),
			// which this binary's PingRequest doesn't know.
			"known_type_with_unknown_field",
			&anypb.Any{TypeUrl: "type.googleapis.com/connect.ping.v1.PingRequest", Value: []byte{0x08, 0x01, 0x78, 0x07}},
		},
	}
	protocols := []struct {
		name string
		opts []connect.ClientOption
	}{
		{"grpc", []connect.ClientOption{connect.WithGRPC()}},       // control: passes
		{"grpcweb", []connect.ClientOption{connect.WithGRPCWeb()}}, // control: passes
		{"connect", nil},
		{"connect_json", []connect.ClientOption{connect.WithProtoJSON()}},
	}
	for _, detail := range details {
		service := auditC02uF2Server{detail: detail.detail}
		mux := http.NewServeMux()
		mux.Handle(pingv1connect.NewPingServiceHandler(service))
		server := httptest.NewUnstartedServer(mux)
		server.EnableHTTP2 = true
		server.StartTLS()
		defer server.Close()

		check := func(t *testing.T, err error) {
			t.Helper()
			var connectErr *connect.Error
			if !errors.As(err, &connectErr) {
				t.Fatalf("expected a *connect.Error, got %v", err)
			}
			if connectErr.Code() != connect.CodeNotFound {
				t.Errorf("property C02 expects the handler's code not_found; observed %v (%v)", connectErr.Code(), connectErr)
			}
			if connectErr.Message() != "no such user" {
				t.Errorf("property C02 expects the handler's message %q; observed %q", "no such user", connectErr.Message())
			}
			if len(connectErr.Details()) != 1 {
				t.Errorf("property C02 expects the handler's 1 detail; observed %d", len(connectErr.Details()))
			} else if !proto.Equal(connectErr.Details()[0], detail.detail) {
				t.Errorf("property C02 expects a detail equal to the handler's %v; observed %v", detail.detail, connectErr.Details()[0])
			}
		}
		for _, protocol := range protocols {
			client := pingv1connect.NewPingServiceClient(server.Client(), server.URL, protocol.opts...)
			t.Run(detail.name+"/"+protocol.name+"/unary", func(t *testing.T) {
				_, err := client.Fail(context.Background(), connect.NewRequest(&pingv1.FailRequest{}))
				check(t, err)
			})
			t.Run(detail.name+"/"+protocol.name+"/server_stream_after_1_message", func(t *testing.T) {
				stream, err := client.CountUp(context.Background(), connect.NewRequest(&pingv1.CountUpRequest{Number: 1}))
				if err != nil {
					t.Fatal(err)
				}
				defer stream.Close()
				for stream.Receive() {
				}
				check(t, stream.Err())
			})
		}
	}
}
