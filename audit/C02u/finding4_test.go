package connect_test

import (
	"context"
	"errors"
	"fmt"
	"net/http"
	"net/http/httptest"
	"testing"

	connect "github.com/bufbuild/connect-go"
	pingv1 "github.com/bufbuild/connect-go/internal/gen/connect/ping/v1"
	"github.com/bufbuild/connect-go/internal/gen/connect/ping/v1/pingv1connect"
)

type auditC02uF4Server struct {
	pingv1connect.UnimplementedPingServiceHandler

	err error
}

func (s auditC02uF4Server) Fail(context.Context, *connect.Request[pingv1.FailRequest]) (*connect.Response[pingv1.FailResponse], error) {
	return nil, s.err
}

func (s auditC02uF4Server) CountUp(_ context.Context, _ *connect.Request[pingv1.CountUpRequest], stream *connect.ServerStream[pingv1.CountUpResponse]) error {
	if err := stream.Send(&pingv1.CountUpResponse{Number: 1}); err != nil {
		return err
	}
	return s.err
}

// Property C02: "A plain Go error arrives as code unknown with its text." A
// plain (uncoded) Go error that happens to wrap context.Canceled or
// context.DeadlineExceeded - say, the error of a failed backend call made with
// a context of the handler's own, unrelated to the RPC's - arrives as
// canceled / deadline_exceeded instead. (The text is kept.)
func TestAuditC02uFinding4(t *testing.T) {
	plainErrors := []struct {
		name string
		err  error
	}{
		{"control", fmt.Errorf("inventory backend: %w", errors.New("boom"))}, // passes
		{"wraps_context_canceled", fmt.Errorf("inventory backend: %w", context.Canceled)},
		{"wraps_deadline_exceeded", fmt.Errorf("inventory backend: %w", context.DeadlineExceeded)},
	}
	protocols := []struct {
		name string
		opts []connect.ClientOption
	}{
		{"connect", nil},
		{"grpc", []connect.ClientOption{connect.WithGRPC()}},
		{"grpcweb", []connect.ClientOption{connect.WithGRPCWeb()}},
	}
	for _, plain := range plainErrors {
		mux := http.NewServeMux()
		mux.Handle(pingv1connect.NewPingServiceHandler(auditC02uF4Server{err: plain.err}))
		server := httptest.NewUnstartedServer(mux)
		server.EnableHTTP2 = true
		server.StartTLS()
		defer server.Close()
		check := func(t *testing.T, err error) {
			t.Helper()
			var connectErr *connect.Error
			if !errors.As(err, &connectErr) {
				t.Fatalf("expected a *connect.Error, got %v", err)
			}
			if connectErr.Code() != connect.CodeUnknown || connectErr.Message() != plain.err.Error() {
				t.Errorf("property C02 expects the handler's plain Go error to arrive as unknown with text %q; observed code %v with text %q",
					plain.err.Error(), connectErr.Code(), connectErr.Message())
			}
		}
		for _, protocol := range protocols {
			client := pingv1connect.NewPingServiceClient(server.Client(), server.URL, protocol.opts...)
			t.Run(plain.name+"/"+protocol.name+"/unary", func(t *testing.T) {
				// The client's context has no deadline and is never canceled.
				_, err := client.Fail(context.Background(), connect.NewRequest(&pingv1.FailRequest{}))
				check(t, err)
			})
			t.Run(plain.name+"/"+protocol.name+"/server_stream_after_1_message", func(t *testing.T) {
				stream, err := client.CountUp(context.Background(), connect.NewRequest(&pingv1.CountUpRequest{Number: 1}))
				if err != nil {
					t.Fatal(err)
				}
				defer stream.Close()
				for stream.Receive() {
				}
				check(t, stream.Err())
			})
		}
	}
}
