package connect_test

import (
	"context"
	"errors"
	"net/http"
	"net/http/httptest"
	"strings"
	"testing"

	connect "github.com/bufbuild/connect-go"
	pingv1 "github.com/bufbuild/connect-go/internal/gen/connect/ping/v1"
	"github.com/bufbuild/connect-go/internal/gen/connect/ping/v1/pingv1connect"
)

type auditC02uF3Server struct {
	pingv1connect.UnimplementedPingServiceHandler
}

var auditC02uF3Message = "quota exceeded for " + strings.Repeat("tenant/", 40) // 299 bytes

func auditC02uF3Error() *connect.Error {
	err := connect.NewError(connect.CodeNotFound, errors.New(auditC02uF3Message))
	err.Meta().Set("X-Request-Id", "42")
	return err
}

func (auditC02uF3Server) Fail(context.Context, *connect.Request[pingv1.FailRequest]) (*connect.Response[pingv1.FailResponse], error) {
	return nil, auditC02uF3Error()
}

func (auditC02uF3Server) CountUp(_ context.Context, _ *connect.Request[pingv1.CountUpRequest], stream *connect.ServerStream[pingv1.CountUpResponse]) error {
	if err := stream.Send(&pingv1.CountUpResponse{Number: 1}); err != nil {
		return err
	}
	return auditC02uF3Error()
}

// Property C02: code, message ("long" messages are in the quantifier) and
// metadata of a handler's error reach the client in every protocol. A client
// created WithReadMaxBytes(n) - documented as a limit on each Protobuf
// *message* the server responds with - also applies n to the serialized
// *error*: to the JSON body of a unary Connect error, and to the end-of-stream
// envelope of Connect streams and of gRPC-Web. A handler error that serializes
// to more than n bytes is replaced by an error made up by the client. gRPC
// (HTTP trailers) delivers the same error unharmed.
func TestAuditC02uFinding3(t *testing.T) {
	mux := http.NewServeMux()
	mux.Handle(pingv1connect.NewPingServiceHandler(auditC02uF3Server{}))
	server := httptest.NewUnstartedServer(mux)
	server.EnableHTTP2 = true
	server.StartTLS()
	defer server.Close()

	check := func(t *testing.T, err error) {
		t.Helper()
		var connectErr *connect.Error
		if !errors.As(err, &connectErr) {
			t.Fatalf("expected a *connect.Error, got %v", err)
		}
		if connectErr.Code() != connect.CodeNotFound {
			t.Errorf("property C02 expects the handler's code not_found; observed %v", connectErr.Code())
		}
		if connectErr.Message() != auditC02uF3Message {
			t.Errorf("property C02 expects the handler's %d-byte message %.30q...; observed %q",
				len(auditC02uF3Message), auditC02uF3Message, connectErr.Message())
		}
		if got := connectErr.Meta().Values("X-Request-Id"); len(got) != 1 || got[0] != "42" {
			t.Errorf("property C02 expects error metadata X-Request-Id: \"42\"; observed %q", got)
		}
	}
	protocols := []struct {
		name string
		opts []connect.ClientOption
	}{
		{"grpc", []connect.ClientOption{connect.WithGRPC()}}, // control: passes
		{"connect", nil},
		{"grpcweb", []connect.ClientOption{connect.WithGRPCWeb()}}, // unary passes (error in HTTP headers), stream fails
	}
	for _, protocol := range protocols {
		opts := append([]connect.ClientOption{connect.WithReadMaxBytes(128)}, protocol.opts...)
		client := pingv1connect.NewPingServiceClient(server.Client(), server.URL, opts...)
		t.Run(protocol.name+"/unary", func(t *testing.T) {
			_, err := client.Fail(context.Background(), connect.NewRequest(&pingv1.FailRequest{}))
			check(t, err)
		})
		t.Run(protocol.name+"/server_stream_after_1_message", func(t *testing.T) {
			stream, err := client.CountUp(context.Background(), connect.NewRequest(&pingv1.CountUpRequest{Number: 1}))
			if err != nil {
				t.Fatal(err)
			}
			defer stream.Close()
			received := 0
			for stream.Receive() {
				received++
			}
			if received != 1 {
				t.Errorf("expected 1 message before the error, got %d", received)
			}
			check(t, stream.Err())
		})
	}
}
