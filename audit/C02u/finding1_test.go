package connect_test

import (
	"context"
	"errors"
	"net/http"
	"net/http/httptest"
	"testing"

	connect "github.com/bufbuild/connect-go"
	pingv1 "github.com/bufbuild/connect-go/internal/gen/connect/ping/v1"
	"github.com/bufbuild/connect-go/internal/gen/connect/ping/v1/pingv1connect"
)

type auditC02uF1Server struct {
	pingv1connect.UnimplementedPingServiceHandler
}

func auditC02uF1Error() *connect.Error {
	err := connect.NewError(connect.CodeUnauthenticated, errors.New("token expired"))
	err.Meta().Set("Www-Authenticate", `Bearer realm="api"`)
	err.Meta().Set("Cache-Control", "no-store")
	err.Meta().Set("X-Request-Id", "42") // control: an ordinary key
	return err
}

func (auditC02uF1Server) Fail(context.Context, *connect.Request[pingv1.FailRequest]) (*connect.Response[pingv1.FailResponse], error) {
	return nil, auditC02uF1Error()
}

func (auditC02uF1Server) CountUp(_ context.Context, _ *connect.Request[pingv1.CountUpRequest], stream *connect.ServerStream[pingv1.CountUpResponse]) error {
	if err := stream.Send(&pingv1.CountUpResponse{Number: 1}); err != nil {
		return err
	}
	return auditC02uF1Error()
}

// Property C02: the client's error has "metadata containing every key/value
// the handler attached - in every protocol ... whether or not response messages
// were already sent". With the gRPC protocol the handler puts the error's
// metadata into HTTP trailers, and net/http silently drops trailer fields
// named Www-Authenticate, Cache-Control, Authorization, If-*, ... .
func TestAuditC02uFinding1(t *testing.T) {
	mux := http.NewServeMux()
	mux.Handle(pingv1connect.NewPingServiceHandler(auditC02uF1Server{}))
	server := httptest.NewUnstartedServer(mux)
	server.EnableHTTP2 = true
	server.StartTLS()
	defer server.Close()

	check := func(t *testing.T, err error) {
		t.Helper()
		var connectErr *connect.Error
		if !errors.As(err, &connectErr) {
			t.Fatalf("expected a *connect.Error, got %v", err)
		}
		if connectErr.Code() != connect.CodeUnauthenticated || connectErr.Message() != "token expired" {
			t.Errorf("expected unauthenticated/%q, got %v/%q", "token expired", connectErr.Code(), connectErr.Message())
		}
		for key, values := range auditC02uF1Error().Meta() {
			if got := connectErr.Meta().Values(key); len(got) != 1 || got[0] != values[0] {
				t.Errorf("property C02 expects error metadata %s: %q (attached by the handler) to reach the client; observed %q",
					key, values[0], got)
			}
		}
	}
	protocols := []struct {
		name string
		opts []connect.ClientOption
	}{
		{"connect", nil}, // control: passes
		{"grpcweb", []connect.ClientOption{connect.WithGRPCWeb()}}, // control: passes
		{"grpc", []connect.ClientOption{connect.WithGRPC()}},
	}
	for _, protocol := range protocols {
		client := pingv1connect.NewPingServiceClient(server.Client(), server.URL, protocol.opts...)
		t.Run(protocol.name+"/unary", func(t *testing.T) {
			_, err := client.Fail(context.Background(), connect.NewRequest(&pingv1.FailRequest{}))
			check(t, err)
		})
		t.Run(protocol.name+"/server_stream_after_1_message", func(t *testing.T) {
			stream, err := client.CountUp(context.Background(), connect.NewRequest(&pingv1.CountUpRequest{Number: 1}))
			if err != nil {
				t.Fatal(err)
			}
			defer stream.Close()
			for stream.Receive() {
			}
			check(t, stream.Err())
		})
	}
}
