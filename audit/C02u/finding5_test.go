package connect_test

import (
	"context"
	"errors"
	"net/http"
	"net/http/httptest"
	"testing"

	connect "github.com/bufbuild/connect-go"
	pingv1 "github.com/bufbuild/connect-go/internal/gen/connect/ping/v1"
	"github.com/bufbuild/connect-go/internal/gen/connect/ping/v1/pingv1connect"
)

type auditC02uF5Server struct {
	pingv1connect.UnimplementedPingServiceHandler
}

func auditC02uF5Error() *connect.Error {
	err := connect.NewError(connect.CodeAborted, errors.New("conflict"))
	// gRPC-style lower-case key written straight into the map by one layer...
	err.Meta()["x-conflict-with"] = []string{"alice"}
	// ...and the same key added the net/http way by another.
	err.Meta().Add("X-Conflict-With", "bob")
	return err
}

func (auditC02uF5Server) Fail(context.Context, *connect.Request[pingv1.FailRequest]) (*connect.Response[pingv1.FailResponse], error) {
	return nil, auditC02uF5Error()
}

func (auditC02uF5Server) CountUp(_ context.Context, _ *connect.Request[pingv1.CountUpRequest], stream *connect.ServerStream[pingv1.CountUpResponse]) error {
	if err := stream.Send(&pingv1.CountUpResponse{Number: 1}); err != nil {
		return err
	}
	return auditC02uF5Error()
}

// Property C02: the client's error has "metadata containing every key/value
// the handler attached - in every protocol". Header names are case-insensitive,
// and the metadata is a multimap: values attached under two spellings of one
// key are two values of that key. Connect (unary and streaming) and gRPC-Web
// deliver both; the gRPC handler writes each spelling as its own
// "Trailer:"-prefixed response header, which net/http folds by assignment, so
// one of the two values is lost.
func TestAuditC02uFinding5(t *testing.T) {
	mux := http.NewServeMux()
	mux.Handle(pingv1connect.NewPingServiceHandler(auditC02uF5Server{}))
	server := httptest.NewUnstartedServer(mux)
	server.EnableHTTP2 = true
	server.StartTLS()
	defer server.Close()

	check := func(t *testing.T, err error) {
		t.Helper()
		var connectErr *connect.Error
		if !errors.As(err, &connectErr) {
			t.Fatalf("expected a *connect.Error, got %v", err)
		}
		got := connectErr.Meta().Values("X-Conflict-With")
		for _, want := range []string{"alice", "bob"} {
			found := false
			for _, value := range got {
				found = found || value == want
			}
			if !found {
				t.Errorf("property C02 expects the value %q the handler attached to X-Conflict-With to reach the client; observed values %q", want, got)
			}
		}
	}
	protocols := []struct {
		name string
		opts []connect.ClientOption
	}{
		{"connect", nil}, // control: passes
		{"grpcweb", []connect.ClientOption{connect.WithGRPCWeb()}}, // control: passes
		{"grpc", []connect.ClientOption{connect.WithGRPC()}},
	}
	for _, protocol := range protocols {
		client := pingv1connect.NewPingServiceClient(server.Client(), server.URL, protocol.opts...)
		t.Run(protocol.name+"/unary", func(t *testing.T) {
			_, err := client.Fail(context.Background(), connect.NewRequest(&pingv1.FailRequest{}))
			check(t, err)
		})
		t.Run(protocol.name+"/server_stream_after_1_message", func(t *testing.T) {
			stream, err := client.CountUp(context.Background(), connect.NewRequest(&pingv1.CountUpRequest{Number: 1}))
			if err != nil {
				t.Fatal(err)
			}
			defer stream.Close()
			for stream.Receive() {
			}
			check(t, stream.Err())
		})
	}
}
