package connect_test

import (
	"bufio"
	"context"
	"fmt"
	"net"
	"net/http"
	"net/http/httptest"
	"sync/atomic"
	"testing"

	"github.com/bufbuild/connect-go"
	pingv1 "github.com/bufbuild/connect-go/internal/gen/connect/ping/v1"
)

// auditC12aCountingInterceptor counts how often the handler-side interceptor
// runs, for unary and for streaming handlers.
type auditC12aCountingInterceptor struct{ runs *int32 }

func (i auditC12aCountingInterceptor) WrapUnary(next connect.UnaryFunc) connect.UnaryFunc {
	return func(ctx context.Context, r connect.AnyRequest) (connect.AnyResponse, error) {
		atomic.AddInt32(i.runs, 1)
		return next(ctx, r)
	}
}

func (i auditC12aCountingInterceptor) WrapStreamingClient(next connect.StreamingClientFunc) connect.StreamingClientFunc {
	return next
}

func (i auditC12aCountingInterceptor) WrapStreamingHandler(next connect.StreamingHandlerFunc) connect.StreamingHandlerFunc {
	return func(ctx context.Context, c connect.StreamingHandlerConn) error {
		atomic.AddInt32(i.runs, 1)
		return next(ctx, c)
	}
}

// C12 lists three rejected cases (non-POST -> 405, bidi over HTTP/1.x -> 505,
// unserved Content-Type -> 415) and says that otherwise user code and
// interceptors run exactly once. A POST over HTTP/1.0 to a unary, client
// streaming or server streaming handler with one of the gRPC content types that
// the handler advertises in Accept-Post is none of the rejected cases, yet the
// handler answers 505 and neither the interceptor nor the user code runs.
func TestAuditC12aFinding1(t *testing.T) {
	const procedure = "/connect.ping.v1.PingService/X"
	var userRuns, interceptorRuns int32
	opt := connect.WithInterceptors(auditC12aCountingInterceptor{&interceptorRuns})
	handlers := map[string]*connect.Handler{
		"unary": connect.NewUnaryHandler(procedure, func(context.Context, *connect.Request[pingv1.PingRequest]) (*connect.Response[pingv1.PingResponse], error) {
			atomic.AddInt32(&userRuns, 1)
			return connect.NewResponse(&pingv1.PingResponse{}), nil
		}, opt),
		"client_stream": connect.NewClientStreamHandler(procedure, func(_ context.Context, s *connect.ClientStream[pingv1.PingRequest]) (*connect.Response[pingv1.PingResponse], error) {
			atomic.AddInt32(&userRuns, 1)
			for s.Receive() {
			}
			return connect.NewResponse(&pingv1.PingResponse{}), s.Err()
		}, opt),
		"server_stream": connect.NewServerStreamHandler(procedure, func(_ context.Context, _ *connect.Request[pingv1.PingRequest], s *connect.ServerStream[pingv1.PingResponse]) error {
			atomic.AddInt32(&userRuns, 1)
			return s.Send(&pingv1.PingResponse{})
		}, opt),
	}
	for kind, handler := range handlers {
		server := httptest.NewServer(handler)
		t.Cleanup(server.Close)
		for _, contentType := range []string{"application/grpc", "application/grpc+proto"} {
			for _, version := range []string{"1.1", "1.0"} {
				atomic.StoreInt32(&userRuns, 0)
				atomic.StoreInt32(&interceptorRuns, 0)
				conn, err := net.Dial("tcp", server.Listener.Addr().String())
				if err != nil {
					t.Fatal(err)
				}
				// One enveloped, uncompressed, empty protobuf message.
				fmt.Fprintf(conn, "POST %s HTTP/%s\r\nHost: example.com\r\nConnection: close\r\nContent-Type: %s\r\nContent-Length: 5\r\n\r\n\x00\x00\x00\x00\x00", procedure, version, contentType)
				response, err := http.ReadResponse(bufio.NewReader(conn), nil)
				if err != nil {
					t.Fatal(err)
				}
				response.Body.Close()
				conn.Close()
				user, interceptor := atomic.LoadInt32(&userRuns), atomic.LoadInt32(&interceptorRuns)
				if response.StatusCode != http.StatusOK || user != 1 || interceptor != 1 {
					t.Errorf("%s handler, POST over HTTP/%s, Content-Type %q (advertised in Accept-Post): "+
						"C12 expects the request to be served (not one of the 405/505-for-bidi/415 cases): interceptor and user code run exactly once; "+
						"observed HTTP status %d, interceptor runs = %d, user code runs = %d",
						kind, version, contentType, response.StatusCode, interceptor, user)
				}
			}
		}
	}
}
