package connect_test

// Audit C19a, finding 3: gRPC served over HTTP/1.1 (which the handler accepts:
// only HTTP/1.0 is refused). A client-streaming handler panics before its
// first Receive while the client is still uploading a large request. The
// recovery function runs and its error is written as HTTP trailers, but the
// handler closes the request body without draining it, net/http then closes
// the connection, and the client loses the trailers: it reports a transport
// error instead of the error returned by the recovery function.

import (
	"context"
	"errors"
	"net/http"
	"net/http/httptest"
	"sync/atomic"
	"testing"
	"time"

	"github.com/bufbuild/connect-go"
	pingv1 "github.com/bufbuild/connect-go/internal/gen/connect/ping/v1"
	"github.com/bufbuild/connect-go/internal/gen/connect/ping/v1/pingv1connect"
)

type auditC19aFinding3Server struct {
	pingv1connect.UnimplementedPingServiceHandler
}

func (auditC19aFinding3Server) Sum(
	context.Context,
	*connect.ClientStream[pingv1.SumRequest],
) (*connect.Response[pingv1.SumResponse], error) {
	panic("boom") // before the first Receive // nolint:forbidigo
}

func TestAuditC19aFinding3(t *testing.T) {
	var calls int32
	handle := func(_ context.Context, _ connect.Spec, _ http.Header, r any) error {
		atomic.AddInt32(&calls, 1)
		return connect.NewError(connect.CodeAborted, errors.New("recovered from panic"))
	}
	mux := http.NewServeMux()
	mux.Handle(pingv1connect.NewPingServiceHandler(auditC19aFinding3Server{}, connect.WithRecover(handle)))
	server := httptest.NewUnstartedServer(mux)
	server.EnableHTTP2 = false // HTTP/1.1 over TLS
	server.StartTLS()
	defer server.Close()
	client := pingv1connect.NewPingServiceClient(server.Client(), server.URL, connect.WithGRPC())

	// The outcome depends on how much of the response the client's transport
	// had buffered when its upload failed, so try a few times: the property
	// must hold every time.
	const attempts = 10
	for attempt := 1; attempt <= attempts; attempt++ {
		atomic.StoreInt32(&calls, 0)
		ctx, cancel := context.WithTimeout(context.Background(), 30*time.Second)
		stream := client.Sum(ctx)
		sent := 0
		// ~14 bytes per enveloped message: at most ~14 MiB, but Send starts
		// failing (with io.EOF) as soon as the server has gone away.
		for ; sent < 1_000_000; sent++ {
			if err := stream.Send(&pingv1.SumRequest{Number: 1 << 60}); err != nil {
				break
			}
		}
		_, err := stream.CloseAndReceive()
		cancel()
		if n := atomic.LoadInt32(&calls); n != 1 {
			t.Fatalf("attempt %d: C19: expected exactly one call of the recovery function, observed %d", attempt, n)
		}
		var connectErr *connect.Error
		if !errors.As(err, &connectErr) ||
			connectErr.Code() != connect.CodeAborted ||
			connectErr.Message() != "recovered from panic" {
			t.Fatalf(
				"attempt %d (client had sent %d messages): C19 violated: expected the client to receive the error "+
					"returned by the recovery function (aborted: recovered from panic); observed: %v",
				attempt, sent, err,
			)
		}
	}
}
