package connect_test

// Audit C19a, finding 2: a handler that ends its goroutine with
// runtime.Goexit (for example testing.T.FailNow/Fatal/SkipNow called from
// handler code, or any library that uses Goexit) does not panic, yet the
// WithRecover function is called - with a nil "recovered value".

import (
	"context"
	"errors"
	"net/http"
	"net/http/httptest"
	"runtime"
	"sync/atomic"
	"testing"
	"time"

	"github.com/bufbuild/connect-go"
	pingv1 "github.com/bufbuild/connect-go/internal/gen/connect/ping/v1"
	"github.com/bufbuild/connect-go/internal/gen/connect/ping/v1/pingv1connect"
)

type auditC19aFinding2Server struct {
	pingv1connect.UnimplementedPingServiceHandler
}

func (auditC19aFinding2Server) Ping(
	context.Context,
	*connect.Request[pingv1.PingRequest],
) (*connect.Response[pingv1.PingResponse], error) {
	runtime.Goexit() // not a panic
	return nil, errors.New("unreachable")
}

func (auditC19aFinding2Server) CountUp(
	context.Context,
	*connect.Request[pingv1.CountUpRequest],
	*connect.ServerStream[pingv1.CountUpResponse],
) error {
	runtime.Goexit() // not a panic
	return errors.New("unreachable")
}

func TestAuditC19aFinding2(t *testing.T) {
	var calls int32
	var lastValue atomic.Value
	handle := func(_ context.Context, _ connect.Spec, _ http.Header, r any) error {
		atomic.AddInt32(&calls, 1)
		lastValue.Store([]any{r})
		return connect.NewError(connect.CodeAborted, errors.New("recovered"))
	}
	mux := http.NewServeMux()
	mux.Handle(pingv1connect.NewPingServiceHandler(auditC19aFinding2Server{}, connect.WithRecover(handle)))
	server := httptest.NewUnstartedServer(mux)
	server.EnableHTTP2 = true
	server.StartTLS()
	defer server.Close()
	client := pingv1connect.NewPingServiceClient(server.Client(), server.URL)

	ctx, cancel := context.WithTimeout(context.Background(), 5*time.Second)
	defer cancel()

	_, err := client.Ping(ctx, connect.NewRequest(&pingv1.PingRequest{}))
	t.Logf("unary: client observed %v", err)
	if n := atomic.LoadInt32(&calls); n != 0 {
		t.Errorf(
			"C19 violated (unary): the handler did not panic (it called runtime.Goexit), so the recovery function "+
				"was expected to be called 0 times; observed %d call(s), recovered value %v",
			n, lastValue.Load(),
		)
	}

	atomic.StoreInt32(&calls, 0)
	stream, err := client.CountUp(ctx, connect.NewRequest(&pingv1.CountUpRequest{}))
	if err == nil {
		for stream.Receive() {
		}
		err = stream.Err()
		_ = stream.Close()
	}
	t.Logf("server stream: client observed %v", err)
	if n := atomic.LoadInt32(&calls); n != 0 {
		t.Errorf(
			"C19 violated (server stream): the handler did not panic (it called runtime.Goexit), so the recovery "+
				"function was expected to be called 0 times; observed %d call(s), recovered value %v",
			n, lastValue.Load(),
		)
	}
}
