package connect_test

// Audit C19a, finding 1: with a client read limit configured, the error
// returned by the WithRecover function doesn't reach the client when it's
// carried in an in-body end-of-stream frame (Connect streaming end-stream
// message, gRPC-Web trailers frame) that is larger than the limit.

import (
	"context"
	"errors"
	"net/http"
	"net/http/httptest"
	"strings"
	"sync/atomic"
	"testing"

	"github.com/bufbuild/connect-go"
	pingv1 "github.com/bufbuild/connect-go/internal/gen/connect/ping/v1"
	"github.com/bufbuild/connect-go/internal/gen/connect/ping/v1/pingv1connect"
)

type auditC19aFinding1Server struct {
	pingv1connect.UnimplementedPingServiceHandler
}

func (auditC19aFinding1Server) CountUp(
	_ context.Context,
	_ *connect.Request[pingv1.CountUpRequest],
	stream *connect.ServerStream[pingv1.CountUpResponse],
) error {
	if err := stream.Send(&pingv1.CountUpResponse{Number: 1}); err != nil {
		return err
	}
	panic("boom") // nolint:forbidigo
}

func TestAuditC19aFinding1(t *testing.T) {
	// What a recovery function typically reports: a description of the panic
	// plus a stack trace, i.e. a couple of kilobytes of text.
	longMessage := "panic: boom\n" + strings.Repeat("goroutine frame\n", 125) // ~2 KB
	var calls int32
	handle := func(_ context.Context, _ connect.Spec, _ http.Header, r any) error {
		atomic.AddInt32(&calls, 1)
		if r != "boom" {
			t.Errorf("recovery function got %v, expected the panic value \"boom\"", r)
		}
		return connect.NewError(connect.CodeAborted, errors.New(longMessage))
	}
	mux := http.NewServeMux()
	mux.Handle(pingv1connect.NewPingServiceHandler(auditC19aFinding1Server{}, connect.WithRecover(handle)))
	server := httptest.NewUnstartedServer(mux)
	server.EnableHTTP2 = true
	server.StartTLS()
	defer server.Close()

	for _, protocol := range []struct {
		name string
		opts []connect.ClientOption
	}{
		{"connect", nil},
		{"grpc", []connect.ClientOption{connect.WithGRPC()}},
		{"grpcweb", []connect.ClientOption{connect.WithGRPCWeb()}},
	} {
		protocol := protocol
		t.Run(protocol.name, func(t *testing.T) {
			atomic.StoreInt32(&calls, 0)
			// Every response *message* of this RPC is a few bytes, far below the limit.
			opts := append([]connect.ClientOption{connect.WithReadMaxBytes(1024)}, protocol.opts...)
			client := pingv1connect.NewPingServiceClient(server.Client(), server.URL, opts...)
			stream, err := client.CountUp(context.Background(), connect.NewRequest(&pingv1.CountUpRequest{Number: 1}))
			if err != nil {
				t.Fatalf("CountUp: %v", err)
			}
			defer stream.Close()
			if !stream.Receive() {
				t.Fatalf("expected the message sent before the panic, got error %v", stream.Err())
			}
			if stream.Receive() {
				t.Fatalf("expected the stream to end after the panic")
			}
			if n := atomic.LoadInt32(&calls); n != 1 {
				t.Errorf("C19: expected exactly one call of the recovery function, observed %d", n)
			}
			err = stream.Err()
			var connectErr *connect.Error
			if !errors.As(err, &connectErr) {
				t.Fatalf("C19: expected the client to receive the error returned by the recovery function, observed %v", err)
			}
			if connectErr.Code() != connect.CodeAborted || connectErr.Message() != longMessage {
				t.Errorf(
					"C19 violated: expected the client to receive the error returned by the recovery function "+
						"(code %v, %d byte message); observed code %v, message %q",
					connect.CodeAborted, len(longMessage), connectErr.Code(), connectErr.Message(),
				)
			}
		})
	}
}
