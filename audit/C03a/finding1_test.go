package connect_test

import (
	"context"
	"encoding/binary"
	"errors"
	"fmt"
	"io"
	"net/http"
	"sort"
	"strings"
	"testing"

	connect "github.com/bufbuild/connect-go"
	pingv1 "github.com/bufbuild/connect-go/internal/gen/connect/ping/v1"
	"google.golang.org/protobuf/proto"
)

// auditC03aF1Body delivers a fixed byte string in chunks of at most chunkSize
// bytes. The end of the body is reported either together with the last bytes
// (eofWithLast) or on a separate, empty read. Both are legal io.Reader
// behaviour, and net/http bodies do both.
type auditC03aF1Body struct {
	data        []byte
	chunkSize   int
	eofWithLast bool
	onEOF       func()
	sawEOF      bool
}

func (b *auditC03aF1Body) Read(p []byte) (int, error) {
	if len(b.data) == 0 {
		b.eof()
		return 0, io.EOF
	}
	n := len(p)
	if n > b.chunkSize {
		n = b.chunkSize
	}
	n = copy(p[:n], b.data)
	b.data = b.data[n:]
	if len(b.data) == 0 && b.eofWithLast {
		b.eof()
		return n, io.EOF
	}
	return n, nil
}

func (b *auditC03aF1Body) eof() {
	if !b.sawEOF {
		b.sawEOF = true
		b.onEOF()
	}
}

func (b *auditC03aF1Body) Close() error { return nil }

// auditC03aF1Transport answers every request with the same gRPC response. Like
// net/http, it fills in the HTTP trailers when the body reports io.EOF.
type auditC03aF1Transport struct {
	body        []byte
	trailer     http.Header
	chunkSize   int
	eofWithLast bool
}

func (t *auditC03aF1Transport) Do(req *http.Request) (*http.Response, error) {
	_, _ = io.Copy(io.Discard, req.Body)
	_ = req.Body.Close()
	resp := &http.Response{
		StatusCode: http.StatusOK,
		Status:     "200 OK",
		Proto:      "HTTP/2.0",
		ProtoMajor: 2,
		Header:     http.Header{"Content-Type": {"application/grpc+proto"}},
		Trailer:    http.Header{},
		Request:    req,
	}
	resp.Body = &auditC03aF1Body{
		data:        t.body,
		chunkSize:   t.chunkSize,
		eofWithLast: t.eofWithLast,
		onEOF: func() {
			for k, v := range t.trailer {
				resp.Trailer[k] = v
			}
		},
	}
	return resp, nil
}

func auditC03aF1Envelope(payload []byte) []byte {
	out := make([]byte, 5+len(payload))
	binary.BigEndian.PutUint32(out[1:5], uint32(len(payload)))
	copy(out[5:], payload)
	return out
}

func auditC03aF1Observe(t *testing.T, transport *auditC03aF1Transport, readMax int) string {
	t.Helper()
	client := connect.NewClient[pingv1.PingRequest, pingv1.PingResponse](
		transport,
		"http://example.com/connect.ping.v1.PingService/CountUp",
		connect.WithGRPC(),
		connect.WithReadMaxBytes(readMax),
	)
	stream, err := client.CallServerStream(context.Background(), connect.NewRequest(&pingv1.PingRequest{}))
	if err != nil {
		t.Fatalf("CallServerStream: %v", err)
	}
	var out strings.Builder
	for stream.Receive() {
		fmt.Fprintf(&out, "message(number=%d) ", stream.Msg().Number)
	}
	streamErr := stream.Err()
	fmt.Fprintf(&out, "| error: code=%v text=%q ", connect.CodeOf(streamErr), fmt.Sprint(streamErr))
	var connectErr *connect.Error
	if errors.As(streamErr, &connectErr) {
		fmt.Fprintf(&out, "| error metadata X-Foo=%q ", connectErr.Meta().Values("X-Foo"))
	}
	trailer := stream.ResponseTrailer()
	keys := make([]string, 0, len(trailer))
	for k, v := range trailer {
		keys = append(keys, fmt.Sprintf("%s=%q", k, v))
	}
	sort.Strings(keys)
	fmt.Fprintf(&out, "| trailers: %v", keys)
	_ = stream.Close()
	return out.String()
}

// A gRPC response: one small message, one message that is larger than the
// client's read limit, a third message, then the HTTP trailers with the status
// (here the server reports resource_exhausted and a custom trailer). The bytes
// that follow the oversized message are exactly 4 MiB long. The property says
// that the receiver's observation (messages, error, metadata) is a function of
// these bytes only: in particular it must be the same whether the transport
// reports the end of the body together with the last bytes or on a separate
// read.
func TestAuditC03aFinding1(t *testing.T) {
	const discardLimit = 4 * 1024 * 1024 // protocol.go: discardLimit
	small, err := proto.Marshal(&pingv1.PingResponse{Number: 1})
	if err != nil {
		t.Fatal(err)
	}
	const readMax = 64
	oversized, err := proto.Marshal(&pingv1.PingResponse{Number: 2, Text: strings.Repeat("x", 200)})
	if err != nil {
		t.Fatal(err)
	}
	// The rest of the body after the oversized message is one more enveloped
	// message, discardLimit bytes in total (5-byte prefix + payload).
	rest, err := proto.Marshal(&pingv1.PingResponse{Number: 3, Text: strings.Repeat("y", discardLimit-5-2-5)})
	if err != nil {
		t.Fatal(err)
	}
	if got := len(auditC03aF1Envelope(rest)); got != discardLimit {
		t.Fatalf("test setup: rest of body is %d bytes, want %d", got, discardLimit)
	}
	var body []byte
	body = append(body, auditC03aF1Envelope(small)...)
	body = append(body, auditC03aF1Envelope(oversized)...)
	body = append(body, auditC03aF1Envelope(rest)...)
	trailer := http.Header{
		"Grpc-Status":  {"8"},
		"Grpc-Message": {"quota used up"},
		"X-Foo":        {"bar"},
	}

	type delivery struct {
		name        string
		chunkSize   int
		eofWithLast bool
	}
	deliveries := []delivery{
		{"one piece, EOF with the last bytes", len(body), true},
		{"one piece, EOF on a separate read", len(body), false},
		{"7-byte chunks, EOF with the last bytes", 7, true},
		{"7-byte chunks, EOF on a separate read", 7, false},
		{"4096-byte chunks, EOF with the last bytes", 4096, true},
		{"4096-byte chunks, EOF on a separate read", 4096, false},
	}
	reference := ""
	for i, d := range deliveries {
		observed := auditC03aF1Observe(t, &auditC03aF1Transport{
			body:        body,
			trailer:     trailer,
			chunkSize:   d.chunkSize,
			eofWithLast: d.eofWithLast,
		}, readMax)
		t.Logf("%-45s -> %s", d.name, observed)
		if i == 0 {
			reference = observed
			continue
		}
		if observed != reference {
			t.Errorf(
				"C03 violated: the same %d response bytes and trailers give different outcomes depending on how the transport delivers them.\n"+
					"  expected (property): delivery %q observes exactly what delivery %q observes:\n    %s\n"+
					"  observed:\n    %s",
				len(body), d.name, deliveries[0].name, reference, observed,
			)
		}
	}
}
