package connect_test

import (
	"context"
	"encoding/binary"
	"fmt"
	"io"
	"net/http"
	"sort"
	"testing"

	connect "github.com/bufbuild/connect-go"
	pingv1 "github.com/bufbuild/connect-go/internal/gen/connect/ping/v1"
	"google.golang.org/protobuf/proto"
)

// auditC03aF2Body delivers a fixed byte string in chunks of at most chunkSize
// bytes, with io.EOF either together with the last bytes or on its own.
type auditC03aF2Body struct {
	data        []byte
	chunkSize   int
	eofWithLast bool
}

func (b *auditC03aF2Body) Read(p []byte) (int, error) {
	if len(b.data) == 0 {
		return 0, io.EOF
	}
	n := len(p)
	if n > b.chunkSize {
		n = b.chunkSize
	}
	n = copy(p[:n], b.data)
	b.data = b.data[n:]
	if len(b.data) == 0 && b.eofWithLast {
		return n, io.EOF
	}
	return n, nil
}

func (b *auditC03aF2Body) Close() error { return nil }

type auditC03aF2Transport struct {
	body        []byte
	chunkSize   int
	eofWithLast bool
}

func (t *auditC03aF2Transport) Do(req *http.Request) (*http.Response, error) {
	_, _ = io.Copy(io.Discard, req.Body)
	_ = req.Body.Close()
	return &http.Response{
		StatusCode: http.StatusOK,
		Status:     "200 OK",
		Proto:      "HTTP/2.0",
		ProtoMajor: 2,
		Header:     http.Header{"Content-Type": {"application/connect+proto"}},
		Body:       &auditC03aF2Body{data: t.body, chunkSize: t.chunkSize, eofWithLast: t.eofWithLast},
		Request:    req,
	}, nil
}

func auditC03aF2Envelope(flags byte, payload []byte) []byte {
	out := make([]byte, 5+len(payload))
	out[0] = flags
	binary.BigEndian.PutUint32(out[1:5], uint32(len(payload)))
	copy(out[5:], payload)
	return out
}

// A Connect streaming response: one message, then an end-of-stream message
// whose metadata object spells one field name in two ways (HTTP field names
// are case-insensitive, so both spellings name the same trailer). The property
// says that what the receiver observes - here the trailers - depends only on
// the bytes the peer sent, whatever the delivery. Observed: the order of the
// values of that trailer (and therefore what Trailer.Get returns) changes from
// one delivery of the very same bytes to the next.
func TestAuditC03aFinding2(t *testing.T) {
	msg, err := proto.Marshal(&pingv1.PingResponse{Number: 1})
	if err != nil {
		t.Fatal(err)
	}
	endStream := []byte(`{"metadata":{"x-foo":["first"],"X-Foo":["second"]}}`)
	var body []byte
	body = append(body, auditC03aF2Envelope(0, msg)...)
	body = append(body, auditC03aF2Envelope(0b10, endStream)...)

	observe := func(chunkSize int, eofWithLast bool) string {
		client := connect.NewClient[pingv1.PingRequest, pingv1.PingResponse](
			&auditC03aF2Transport{body: body, chunkSize: chunkSize, eofWithLast: eofWithLast},
			"http://example.com/connect.ping.v1.PingService/CountUp",
		)
		stream, err := client.CallServerStream(context.Background(), connect.NewRequest(&pingv1.PingRequest{}))
		if err != nil {
			t.Fatalf("CallServerStream: %v", err)
		}
		messages := 0
		for stream.Receive() {
			messages++
		}
		defer stream.Close()
		return fmt.Sprintf(
			"messages=%d err=%v Trailer.Get(X-Foo)=%q Trailer.Values(X-Foo)=%q",
			messages, stream.Err(), stream.ResponseTrailer().Get("X-Foo"), stream.ResponseTrailer().Values("X-Foo"),
		)
	}

	type delivery struct {
		name        string
		chunkSize   int
		eofWithLast bool
	}
	deliveries := []delivery{
		{"one piece, EOF with the last bytes", len(body), true},
		{"one piece, EOF on a separate read", len(body), false},
		{"one byte at a time, EOF with the last byte", 1, true},
		{"one byte at a time, EOF on a separate read", 1, false},
	}
	const rounds = 100
	for _, d := range deliveries {
		seen := map[string]int{}
		for i := 0; i < rounds; i++ {
			seen[observe(d.chunkSize, d.eofWithLast)]++
		}
		outcomes := make([]string, 0, len(seen))
		for outcome, count := range seen {
			outcomes = append(outcomes, fmt.Sprintf("%3d x  %s", count, outcome))
		}
		sort.Strings(outcomes)
		if len(seen) != 1 {
			t.Errorf(
				"C03 violated: the observation is not a function of the %d response bytes.\n"+
					"  expected (property): %d deliveries of the same bytes (%s) all observe the same messages, error and trailers\n"+
					"  observed: %d different outcomes:\n    %s",
				len(body), rounds, d.name, len(seen), auditC03aF2JoinLines(outcomes),
			)
		}
	}
}

func auditC03aF2JoinLines(lines []string) string {
	out := ""
	for i, l := range lines {
		if i > 0 {
			out += "\n    "
		}
		out += l
	}
	return out
}
