package connect_test

import (
	"context"
	"net/http"
	"net/http/httptest"
	"strings"
	"testing"

	connect "github.com/bufbuild/connect-go"
	pingv1 "github.com/bufbuild/connect-go/internal/gen/connect/ping/v1"
)

// C07: the response must be well-formed for the protocol selected by the
// request's Content-Type. A request in an unknown compression is answered with
// "unimplemented", but the response also carries the protocol's encoding header
// with an EMPTY value ("Grpc-Encoding: " / "Connect-Content-Encoding: "), which
// is not a content-coding in either protocol's grammar.
func TestAuditC07sFinding1(t *testing.T) {
	called := 0
	handler := connect.NewClientStreamHandler(
		"/connect.ping.v1.PingService/Sum",
		func(_ context.Context, stream *connect.ClientStream[pingv1.PingRequest]) (*connect.Response[pingv1.PingResponse], error) {
			called++
			for stream.Receive() {
			}
			return connect.NewResponse(&pingv1.PingResponse{}), stream.Err()
		},
	)
	for _, testcase := range []struct {
		contentType string
		header      string
	}{
		{"application/grpc", "Grpc-Encoding"},
		{"application/grpc-web+proto", "Grpc-Encoding"},
		{"application/connect+proto", "Connect-Content-Encoding"},
	} {
		request := httptest.NewRequest(http.MethodPost, "http://localhost/connect.ping.v1.PingService/Sum", strings.NewReader(""))
		request.Header.Set("Content-Type", testcase.contentType)
		request.Header.Set(testcase.header, "br") // not registered with the handler
		recorder := httptest.NewRecorder()
		handler.ServeHTTP(recorder, request)
		if called != 0 {
			t.Fatalf("%s: user code ran for a request in an unknown compression", testcase.contentType)
		}
		values, present := recorder.Header()[testcase.header]
		if !present {
			continue // fine: no encoding header means identity
		}
		for _, value := range values {
			if value == "" {
				t.Errorf(
					"%s: expected a well-formed response (no %s header, or one naming a content-coding such as identity/gzip); observed %s present with an empty value; response headers: %q",
					testcase.contentType, testcase.header, testcase.header, recorder.Header(),
				)
			}
		}
	}
}
