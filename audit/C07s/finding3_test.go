package connect_test

import (
	"bytes"
	"context"
	"encoding/binary"
	"net/http"
	"net/http/httptest"
	"testing"

	connect "github.com/bufbuild/connect-go"
	pingv1 "github.com/bufbuild/connect-go/internal/gen/connect/ping/v1"
	"google.golang.org/protobuf/proto"
)

// C07: user code only ever receives messages that decoded successfully. In a
// client-streaming handler, ClientStream.Receive decodes straight into the
// message that ClientStream.Msg hands out. When the second request message is
// undecodable, Receive returns false, but Msg() now returns the half-decoded
// contents of the undecodable message (and the last good message is gone).
func TestAuditC07sFinding3(t *testing.T) {
	envelope := func(payload []byte) []byte {
		out := make([]byte, 5+len(payload))
		binary.BigEndian.PutUint32(out[1:5], uint32(len(payload)))
		copy(out[5:], payload)
		return out
	}
	good, err := proto.Marshal(&pingv1.PingRequest{Number: 7})
	if err != nil {
		t.Fatal(err)
	}
	// field 1 (number) = 99, followed by a byte that is not a valid tag: the
	// message does not decode.
	undecodable := []byte{0x08, 0x63, 0xff}
	if err := proto.Unmarshal(undecodable, &pingv1.PingRequest{}); err == nil {
		t.Fatal("test bug: payload decodes")
	}

	for _, contentType := range []string{"application/grpc", "application/grpc-web", "application/connect+proto"} {
		var seenWhileReceiving []int64
		afterFailure := int64(-1)
		var streamErr error
		handler := connect.NewClientStreamHandler(
			"/connect.ping.v1.PingService/Sum",
			func(_ context.Context, stream *connect.ClientStream[pingv1.PingRequest]) (*connect.Response[pingv1.PingResponse], error) {
				for stream.Receive() {
					seenWhileReceiving = append(seenWhileReceiving, stream.Msg().Number)
				}
				afterFailure = stream.Msg().Number
				streamErr = stream.Err()
				return nil, stream.Err()
			},
		)
		body := append(envelope(good), envelope(undecodable)...)
		request := httptest.NewRequest(http.MethodPost, "http://localhost/connect.ping.v1.PingService/Sum", bytes.NewReader(body))
		request.Header.Set("Content-Type", contentType)
		handler.ServeHTTP(httptest.NewRecorder(), request)

		if connect.CodeOf(streamErr) != connect.CodeInvalidArgument {
			t.Fatalf("%s: test bug: expected the second message to be rejected, got %v", contentType, streamErr)
		}
		if afterFailure != 7 && afterFailure != 0 {
			t.Errorf(
				"%s: expected user code to see only successfully decoded messages (Msg().Number 7, the last good message, or a zero message); observed Msg().Number = %d, a field of the message that failed to decode (messages seen while Receive was true: %v)",
				contentType, afterFailure, seenWhileReceiving,
			)
		}
	}
}
