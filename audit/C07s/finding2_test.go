package connect_test

import (
	"bytes"
	"context"
	"encoding/binary"
	"net/http"
	"net/http/httptest"
	"testing"

	connect "github.com/bufbuild/connect-go"
	pingv1 "github.com/bufbuild/connect-go/internal/gen/connect/ping/v1"
	"google.golang.org/protobuf/proto"
)

// C07: invalid timeouts reach the peer as invalid_argument, never as success,
// for every header multimap. A timeout header sent as two field lines, the
// second of which is not a timeout at all, is served as if it were valid: only
// the first line is ever looked at (Header.Get), user code runs and the RPC
// succeeds. (RFC 9110 5.3: several field lines mean the same as one line with
// the values joined by commas, "10S,bogus" here; grpc-go (from memory) checks every
// grpc-timeout line and fails the RPC for a malformed one.)
func TestAuditC07sFinding2(t *testing.T) {
	payload, err := proto.Marshal(&pingv1.PingRequest{Number: 42})
	if err != nil {
		t.Fatal(err)
	}
	enveloped := make([]byte, 5+len(payload))
	binary.BigEndian.PutUint32(enveloped[1:5], uint32(len(payload)))
	copy(enveloped[5:], payload)

	for _, testcase := range []struct {
		name        string
		contentType string
		header      string
		values      []string
		body        []byte
	}{
		{"grpc", "application/grpc", "Grpc-Timeout", []string{"10S", "bogus"}, enveloped},
		{"grpc-web", "application/grpc-web", "Grpc-Timeout", []string{"10S", ""}, enveloped},
		{"connect unary", "application/proto", "Connect-Timeout-Ms", []string{"10000", "abc"}, payload},
	} {
		called := 0
		handler := connect.NewUnaryHandler(
			"/connect.ping.v1.PingService/Ping",
			func(_ context.Context, request *connect.Request[pingv1.PingRequest]) (*connect.Response[pingv1.PingResponse], error) {
				called++
				return connect.NewResponse(&pingv1.PingResponse{Number: request.Msg.Number}), nil
			},
		)
		request := httptest.NewRequest(http.MethodPost, "http://localhost/connect.ping.v1.PingService/Ping", bytes.NewReader(testcase.body))
		request.Header.Set("Content-Type", testcase.contentType)
		request.Header[testcase.header] = testcase.values
		recorder := httptest.NewRecorder()
		handler.ServeHTTP(recorder, request)
		response := recorder.Result()

		succeeded := false
		switch testcase.name {
		case "grpc":
			succeeded = response.Trailer.Get("Grpc-Status") == "0"
		case "grpc-web":
			// a successful unary gRPC-Web response: a message, then a trailers frame with grpc-status: 0
			succeeded = response.Header.Get("Grpc-Status") == "" && bytes.Contains(recorder.Body.Bytes(), []byte("grpc-status: 0"))
		default:
			succeeded = response.StatusCode == http.StatusOK
		}
		if called != 0 || succeeded {
			t.Errorf(
				"%s: request with %s field lines %q: expected invalid_argument and user code not run (the second line is not a valid timeout); observed user code ran %d time(s), RPC succeeded=%v (HTTP %d, headers %q, trailers %q)",
				testcase.name, testcase.header, testcase.values, called, succeeded, response.StatusCode, response.Header, response.Trailer,
			)
		}
	}
}
