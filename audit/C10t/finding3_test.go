package connect_test

import (
	"context"
	"io"
	"net/http"
	"net/http/httptest"
	"strings"
	"testing"

	"github.com/bufbuild/connect-go"
	pingv1 "github.com/bufbuild/connect-go/internal/gen/connect/ping/v1"
	"github.com/bufbuild/connect-go/internal/gen/connect/ping/v1/pingv1connect"
)

type auditC10tF3Server struct {
	pingv1connect.UnimplementedPingServiceHandler
}

func (auditC10tF3Server) Ping(
	context.Context,
	*connect.Request[pingv1.PingRequest],
) (*connect.Response[pingv1.PingResponse], error) {
	return connect.NewResponse(&pingv1.PingResponse{}), nil
}

func (auditC10tF3Server) Sum(
	_ context.Context,
	stream *connect.ClientStream[pingv1.SumRequest],
) (*connect.Response[pingv1.SumResponse], error) {
	for stream.Receive() {
	}
	return connect.NewResponse(&pingv1.SumResponse{}), nil
}

// C10: "a malformed [timeout] - missing or unknown unit, empty or non-decimal
// number, or a magnitude beyond the grammar's digit limit - is rejected as
// invalid_argument without running user code."
//
// Handler.ServeHTTP remembers the timeout error, then lets the protocol build
// the connection; when that fails too (the request names a compression the
// handler doesn't have) the connection's own error is sent and the timeout
// error is dropped. The request with the malformed timeout is answered with
// "unimplemented", not "invalid_argument".
func TestAuditC10tFinding3(t *testing.T) {
	mux := http.NewServeMux()
	mux.Handle(pingv1connect.NewPingServiceHandler(auditC10tF3Server{}))
	for _, testcase := range []struct {
		name, path, contentType       string
		timeoutHeader, timeout        string
		compressionHeader, wantMarker string
	}{
		{"connect_unary", "Ping", "application/proto", "Connect-Timeout-Ms", "12345678901", "Content-Encoding", `"code":"invalid_argument"`},
		{"connect_stream", "Sum", "application/connect+proto", "Connect-Timeout-Ms", "10s", "Connect-Content-Encoding", `"code":"invalid_argument"`},
		{"grpc", "Ping", "application/grpc", "Grpc-Timeout", "10", "Grpc-Encoding", "Grpc-Status:[3]"},
		{"grpcweb", "Ping", "application/grpc-web", "Grpc-Timeout", "123456789S", "Grpc-Encoding", "Grpc-Status:[3]"},
	} {
		testcase := testcase
		t.Run(testcase.name, func(t *testing.T) {
			send := func(compression string) string {
				request := httptest.NewRequest(
					http.MethodPost,
					"/connect.ping.v1.PingService/"+testcase.path,
					strings.NewReader(""),
				)
				request.Header.Set("Content-Type", testcase.contentType)
				request.Header.Set(testcase.timeoutHeader, testcase.timeout)
				if compression != "" {
					request.Header.Set(testcase.compressionHeader, compression)
				}
				recorder := httptest.NewRecorder()
				mux.ServeHTTP(recorder, request)
				response := recorder.Result()
				body, _ := io.ReadAll(response.Body)
				// Everything the peer gets to see, in one string.
				return strings.Join([]string{
					response.Status,
					strings.ReplaceAll(strings.ReplaceAll(
						strings.Join([]string{
							"Grpc-Status:" + "[" + strings.Join(response.Header.Values("Grpc-Status"), ",") + "]",
							"Trailer Grpc-Status:" + "[" + strings.Join(response.Trailer.Values("Grpc-Status"), ",") + "]",
							"Grpc-Message:[" + response.Header.Get("Grpc-Message") + response.Trailer.Get("Grpc-Message") + "]",
						}, " "), "\n", ""), "\r", ""),
					string(body),
				}, " | ")
			}
			// Control: the malformed timeout alone is rejected as invalid_argument.
			if got := send(""); !strings.Contains(got, testcase.wantMarker) {
				t.Fatalf("control: malformed timeout alone not rejected as invalid_argument: %s", got)
			}
			if got := send("audit-unknown"); !strings.Contains(got, testcase.wantMarker) {
				t.Errorf("property C10 expects a request whose %s is the malformed %q to be rejected as invalid_argument "+
					"(marker %s), but with %s: audit-unknown alongside the peer observed: %s",
					testcase.timeoutHeader, testcase.timeout, testcase.wantMarker, testcase.compressionHeader, got)
			}
		})
	}
}
