package connect_test

import (
	"context"
	"net/http"
	"net/http/httptest"
	"testing"
	"time"

	"github.com/bufbuild/connect-go"
	pingv1 "github.com/bufbuild/connect-go/internal/gen/connect/ping/v1"
	"github.com/bufbuild/connect-go/internal/gen/connect/ping/v1/pingv1connect"
)

type auditC10tF1Server struct {
	pingv1connect.UnimplementedPingServiceHandler

	remaining chan time.Duration // what the handler's context has left, or -1 for no deadline
	header    chan string
}

func (s *auditC10tF1Server) Sum(
	ctx context.Context,
	stream *connect.ClientStream[pingv1.SumRequest],
) (*connect.Response[pingv1.SumResponse], error) {
	if deadline, ok := ctx.Deadline(); ok {
		s.remaining <- time.Until(deadline)
	} else {
		s.remaining <- -1
	}
	s.header <- stream.RequestHeader().Get("Connect-Timeout-Ms") + stream.RequestHeader().Get("Grpc-Timeout")
	for stream.Receive() {
	}
	return connect.NewResponse(&pingv1.SumResponse{}), nil
}

// C10: "the timeout sent to the server is never longer than the time
// remaining ... and the handler's context gets the corresponding deadline"
// (title: deadlines are never extended).
//
// A streaming client call computes the timeout header when the stream is
// created, but the request (with that header) only leaves when the first
// message is sent or the request is closed. Whatever time passes in between is
// handed to the server on top of the client's deadline.
func TestAuditC10tFinding1(t *testing.T) {
	const (
		timeout = 3 * time.Second
		wait    = 1500 * time.Millisecond
	)
	for _, protocol := range []struct {
		name string
		opts []connect.ClientOption
	}{
		{"connect", nil},
		{"grpc", []connect.ClientOption{connect.WithGRPC()}},
		{"grpcweb", []connect.ClientOption{connect.WithGRPCWeb()}},
	} {
		protocol := protocol
		t.Run(protocol.name, func(t *testing.T) {
			impl := &auditC10tF1Server{remaining: make(chan time.Duration, 1), header: make(chan string, 1)}
			mux := http.NewServeMux()
			mux.Handle(pingv1connect.NewPingServiceHandler(impl))
			server := httptest.NewUnstartedServer(mux)
			server.EnableHTTP2 = true
			server.StartTLS()
			defer server.Close()
			client := pingv1connect.NewPingServiceClient(server.Client(), server.URL, protocol.opts...)

			ctx, cancel := context.WithTimeout(context.Background(), timeout)
			defer cancel()
			clientDeadline, _ := ctx.Deadline()

			stream := client.Sum(ctx) // timeout header is computed here ...
			time.Sleep(wait)          // ... the caller prepares its first message ...
			if err := stream.Send(&pingv1.SumRequest{Number: 1}); err != nil { // ... and only now the request leaves
				t.Fatalf("send: %v", err)
			}
			clientRemainingAtSend := time.Until(clientDeadline)
			var handlerRemaining time.Duration
			select {
			case handlerRemaining = <-impl.remaining:
			case <-time.After(5 * time.Second):
				t.Fatal("handler not reached")
			}
			header := <-impl.header
			_, _ = stream.CloseAndReceive()

			if handlerRemaining < 0 {
				t.Fatalf("handler has no deadline at all")
			}
			// clientRemainingAtSend was taken after the request left, the
			// handler's reading later still, so handlerRemaining must be smaller.
			// Allow 200ms of slack for scheduling anyway.
			if handlerRemaining > clientRemainingAtSend+200*time.Millisecond {
				t.Errorf("property C10 expects the timeout sent to the server to be no longer than the time remaining "+
					"(client had at most %v left when the request was sent), but the request carried timeout %q and the "+
					"handler's context had %v left: the handler's deadline lies about %v after the client's",
					clientRemainingAtSend, header, handlerRemaining, handlerRemaining-clientRemainingAtSend)
			}
		})
	}
}
