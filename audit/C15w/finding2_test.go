package connect_test

import (
	"context"
	"errors"
	"fmt"
	"io"
	"net/http"
	"net/http/httptest"
	"testing"
	"time"

	connect "github.com/bufbuild/connect-go"
	pingv1 "github.com/bufbuild/connect-go/internal/gen/connect/ping/v1"
	"github.com/bufbuild/connect-go/internal/gen/connect/ping/v1/pingv1connect"
)

type auditC15wF2Server struct {
	pingv1connect.UnimplementedPingServiceHandler
	sent chan struct{}
}

func (s *auditC15wF2Server) Sum(ctx context.Context, stream *connect.ClientStream[pingv1.SumRequest]) (*connect.Response[pingv1.SumResponse], error) {
	for stream.Receive() {
	}
	<-ctx.Done()
	time.Sleep(300 * time.Millisecond)
	return nil, ctx.Err()
}

func (s *auditC15wF2Server) CountUp(
	ctx context.Context,
	_ *connect.Request[pingv1.CountUpRequest],
	stream *connect.ServerStream[pingv1.CountUpResponse],
) error {
	if err := stream.Send(&pingv1.CountUpResponse{Number: 1}); err != nil {
		return err
	}
	s.sent <- struct{}{}
	<-ctx.Done()
	// The handler has not finished when the client's context ends (and, in the
	// deadline case, can't win a race against the client's own timer).
	time.Sleep(300 * time.Millisecond)
	return ctx.Err()
}

// C15: a context that ends while the client waits for the response or is
// blocked in Receive makes the call fail with canceled / deadline_exceeded.
// Here the context ends with a cause that is itself a *connect.Error of the
// matching code and wraps io.EOF - e.g. the error of another stream, passed on
// as the reason for giving up - over HTTP/1.1.
func TestAuditC15wFinding2(t *testing.T) {
	for _, proto := range []string{"connect", "grpcweb"} {
		for _, kind := range []string{"cancel", "deadline"} {
			for _, instant := range []string{"waiting-for-response", "blocked-in-receive"} {
				proto, kind, instant := proto, kind, instant
				t.Run(proto+"/"+kind+"/"+instant, func(t *testing.T) {
					srv := &auditC15wF2Server{sent: make(chan struct{}, 1)}
					mux := http.NewServeMux()
					mux.Handle(pingv1connect.NewPingServiceHandler(srv))
					server := httptest.NewServer(mux) // HTTP/1.1
					defer server.Close()
					var opts []connect.ClientOption
					if proto == "grpcweb" {
						opts = append(opts, connect.WithGRPCWeb())
					}
					client := pingv1connect.NewPingServiceClient(server.Client(), server.URL, opts...)

					var ctx context.Context
					var end func()
					want := connect.CodeCanceled
					if kind == "cancel" {
						cause := connect.NewError(connect.CodeCanceled, fmt.Errorf("upstream went away: %w", io.EOF))
						c, cancel := context.WithCancelCause(context.Background())
						defer cancel(nil)
						ctx, end = c, func() { cancel(cause) }
					} else {
						want = connect.CodeDeadlineExceeded
						cause := connect.NewError(connect.CodeDeadlineExceeded, fmt.Errorf("upstream went away: %w", io.EOF))
						c, cancel := context.WithTimeoutCause(context.Background(), 300*time.Millisecond, cause)
						defer cancel()
						ctx, end = c, func() {}
					}
					var err error
					if instant == "waiting-for-response" {
						stream := client.Sum(ctx)
						if sendErr := stream.Send(&pingv1.SumRequest{Number: 1}); sendErr != nil {
							t.Fatalf("Send: %v", sendErr)
						}
						go func() {
							time.Sleep(100 * time.Millisecond) // CloseAndReceive below is blocked by now
							end()
						}()
						_, err = stream.CloseAndReceive()
					} else {
						stream, callErr := client.CountUp(ctx, connect.NewRequest(&pingv1.CountUpRequest{Number: 1}))
						if callErr != nil {
							t.Fatalf("CountUp: %v", callErr)
						}
						defer stream.Close()
						if !stream.Receive() {
							t.Fatalf("first Receive: %v", stream.Err())
						}
						<-srv.sent
						go func() {
							time.Sleep(100 * time.Millisecond) // Receive below is blocked by now
							end()
						}()
						if stream.Receive() {
							t.Fatalf("C15 expects Receive to fail once the context is done; it succeeded")
						}
						err = stream.Err()
					}
					if ctx.Err() == nil {
						t.Fatalf("test bug: context not done")
					}
					if err == nil || connect.CodeOf(err) != want {
						t.Fatalf("C15 expects the operation that was in progress when the context ended (ctx.Err()=%v, cause %q) "+
							"to fail with code %v; observed err=%v (code %v, wraps io.EOF: %v)",
							ctx.Err(), context.Cause(ctx), want, err, connect.CodeOf(err), errors.Is(err, io.EOF))
					}
				})
			}
		}
	}
}
