package connect_test

import (
	"context"
	"net/http"
	"net/http/httptest"
	"testing"
	"time"

	connect "github.com/bufbuild/connect-go"
	pingv1 "github.com/bufbuild/connect-go/internal/gen/connect/ping/v1"
	"github.com/bufbuild/connect-go/internal/gen/connect/ping/v1/pingv1connect"
)

type auditC15wF3Server struct {
	pingv1connect.UnimplementedPingServiceHandler
	answered chan struct{}
	ctxDone  chan time.Duration // how long the handler waited for its context; -1 if it gave up
}

func (s *auditC15wF3Server) CumSum(
	ctx context.Context,
	stream *connect.BidiStream[pingv1.CumSumRequest, pingv1.CumSumResponse],
) error {
	if _, err := stream.Receive(); err != nil {
		return err
	}
	if err := stream.Send(&pingv1.CumSumResponse{Sum: 1}); err != nil {
		return err
	}
	s.answered <- struct{}{}
	start := time.Now()
	select {
	case <-ctx.Done():
		s.ctxDone <- time.Since(start)
		return ctx.Err()
	case <-time.After(3 * time.Second):
		s.ctxDone <- -1
		return nil
	}
}

// C15: when the call's context is cancelled - between two operations, or
// during a blocked Receive - before the handler has finished, the handler's
// context is cancelled as well, and a blocked Receive fails with canceled.
// Bidi stream over HTTP/2, request side still open, one message exchanged.
func TestAuditC15wFinding3(t *testing.T) {
	for _, proto := range []string{"connect", "grpc", "grpcweb"} {
		for _, instant := range []string{"between-operations", "during-blocked-receive"} {
			proto, instant := proto, instant
			t.Run(proto+"/"+instant, func(t *testing.T) {
				srv := &auditC15wF3Server{answered: make(chan struct{}, 1), ctxDone: make(chan time.Duration, 1)}
				mux := http.NewServeMux()
				mux.Handle(pingv1connect.NewPingServiceHandler(srv))
				server := httptest.NewUnstartedServer(mux)
				server.EnableHTTP2 = true
				server.StartTLS()
				defer server.Close()
				var opts []connect.ClientOption
				switch proto {
				case "grpc":
					opts = append(opts, connect.WithGRPC())
				case "grpcweb":
					opts = append(opts, connect.WithGRPCWeb())
				}
				client := pingv1connect.NewPingServiceClient(server.Client(), server.URL, opts...)
				ctx, cancel := context.WithCancel(context.Background())
				defer cancel()
				stream := client.CumSum(ctx)
				if err := stream.Send(&pingv1.CumSumRequest{Number: 1}); err != nil {
					t.Fatalf("Send: %v", err)
				}
				if _, err := stream.Receive(); err != nil {
					t.Fatalf("Receive: %v", err)
				}
				<-srv.answered

				type result struct {
					err   error
					after time.Duration
				}
				received := make(chan result, 1)
				if instant == "during-blocked-receive" {
					go func() {
						start := time.Now()
						_, err := stream.Receive()
						received <- result{err, time.Since(start)}
					}()
					time.Sleep(100 * time.Millisecond) // Receive is blocked by now
				}
				cancel() // the handler is still running

				waited := <-srv.ctxDone
				if instant == "during-blocked-receive" {
					res := <-received
					if res.after > 2*time.Second || connect.CodeOf(res.err) != connect.CodeCanceled {
						t.Errorf("C15 expects the Receive that is blocked when the context is cancelled to fail with code canceled then; "+
							"observed: it stayed blocked for %v, until the handler gave up and ended the stream by itself (err=%v)", res.after, res.err)
					}
				}
				if waited < 0 {
					t.Errorf("C15 expects the handler's context to be cancelled when the call's context is; "+
						"observed: the handler's context was still not done 3s after the client's cancel() (ctx.Err()=%v on the client)", ctx.Err())
				}
				_ = stream.CloseRequest()
				_ = stream.CloseResponse()
			})
		}
	}
}
