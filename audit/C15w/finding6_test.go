package connect_test

import (
	"context"
	"net/http"
	"net/http/httptest"
	"strings"
	"testing"
	"time"

	connect "github.com/bufbuild/connect-go"
	pingv1 "github.com/bufbuild/connect-go/internal/gen/connect/ping/v1"
	"github.com/bufbuild/connect-go/internal/gen/connect/ping/v1/pingv1connect"
)

// C15: if the context is cancelled while the client is waiting for / receiving
// the response and before the handler has finished, every operation that fails
// afterwards fails with code canceled. Here the peer (still running) has
// answered with response headers the client can't accept - an encoding it
// doesn't know - which no operation has reported yet when the context is
// cancelled; the first Receive after the cancellation is the first failure
// the caller sees.
func TestAuditC15wFinding6(t *testing.T) {
	handlerRunning := make(chan struct{}, 3)
	release := make(chan struct{})
	defer close(release)
	server := httptest.NewUnstartedServer(http.HandlerFunc(func(w http.ResponseWriter, r *http.Request) {
		w.Header().Set("Content-Type", r.Header.Get("Content-Type"))
		if strings.HasPrefix(r.Header.Get("Content-Type"), "application/grpc") {
			w.Header().Set("Grpc-Encoding", "zstd")
		} else {
			w.Header().Set("Connect-Content-Encoding", "zstd")
		}
		w.WriteHeader(http.StatusOK)
		w.(http.Flusher).Flush()
		handlerRunning <- struct{}{}
		select { // the handler has not finished
		case <-release:
		case <-r.Context().Done():
		}
	}))
	server.EnableHTTP2 = true
	server.StartTLS()
	defer server.Close()
	t.Run("unconstructible-request/before-the-call", func(t *testing.T) {
		// url.ParseRequestURI (NewClient's check) accepts this URL, url.Parse
		// (http.NewRequest) doesn't: the call can't be made, which is stored as the
		// call's error when the stream is created.
		client := connect.NewClient[pingv1.SumRequest, pingv1.SumResponse](
			server.Client(), server.URL+"/connect.ping.v1.PingService/Sum?x#%zz")
		ctx, cancel := context.WithCancel(context.Background())
		cancel() // before the call
		stream := client.CallClientStream(ctx)
		_, err := stream.CloseAndReceive()
		if err == nil || connect.CodeOf(err) != connect.CodeCanceled {
			t.Errorf("C15 expects CloseAndReceive on a call whose context was cancelled before the call (ctx.Err()=%v) "+
				"to fail with code canceled; observed err=%v (code %v)", ctx.Err(), err, connect.CodeOf(err))
		}
	})
	for _, proto := range []string{"connect", "grpc", "grpcweb"} {
		proto := proto
		t.Run(proto, func(t *testing.T) {
			var opts []connect.ClientOption
			switch proto {
			case "grpc":
				opts = append(opts, connect.WithGRPC())
			case "grpcweb":
				opts = append(opts, connect.WithGRPCWeb())
			}
			client := pingv1connect.NewPingServiceClient(server.Client(), server.URL, opts...)
			ctx, cancel := context.WithCancel(context.Background())
			defer cancel()
			stream, err := client.CountUp(ctx, connect.NewRequest(&pingv1.CountUpRequest{Number: 1}))
			if err != nil {
				t.Fatalf("CountUp: %v", err) // no operation has failed so far
			}
			defer stream.Close()
			<-handlerRunning
			time.Sleep(50 * time.Millisecond)
			cancel()
			if stream.Receive() {
				t.Fatalf("Receive succeeded")
			}
			if err := stream.Err(); err == nil || connect.CodeOf(err) != connect.CodeCanceled {
				t.Errorf("C15 expects Receive, the first operation to fail and failing after the context was cancelled (ctx.Err()=%v), "+
					"to fail with code canceled; observed err=%v (code %v)", ctx.Err(), err, connect.CodeOf(err))
			}
		})
	}
}
