package connect_test

import (
	"context"
	"errors"
	"io"
	"net/http"
	"net/http/httptest"
	"testing"
	"time"

	connect "github.com/bufbuild/connect-go"
	pingv1 "github.com/bufbuild/connect-go/internal/gen/connect/ping/v1"
	"github.com/bufbuild/connect-go/internal/gen/connect/ping/v1/pingv1connect"
)

type auditC15wF1Server struct {
	pingv1connect.UnimplementedPingServiceHandler
	sent chan struct{}
}

func (s *auditC15wF1Server) CountUp(
	ctx context.Context,
	_ *connect.Request[pingv1.CountUpRequest],
	stream *connect.ServerStream[pingv1.CountUpResponse],
) error {
	if err := stream.Send(&pingv1.CountUpResponse{Number: 1}); err != nil {
		return err
	}
	s.sent <- struct{}{}
	<-ctx.Done()
	// The handler has not finished when the client's context ends (and, in the
	// deadline case, can't win a race against the client's own timer).
	time.Sleep(300 * time.Millisecond)
	return ctx.Err()
}

// C15: a context that ends while the client is blocked in Receive makes
// Receive fail with canceled / deadline_exceeded. Here the context ends with
// the cause io.EOF (what errgroup.WithContext does when a goroutine returns
// io.EOF), over HTTP/1.1.
func TestAuditC15wFinding1(t *testing.T) {
	for _, proto := range []string{"connect", "grpcweb"} {
		for _, kind := range []string{"cancel", "deadline"} {
			proto, kind := proto, kind
			t.Run(proto+"/"+kind, func(t *testing.T) {
				srv := &auditC15wF1Server{sent: make(chan struct{}, 1)}
				mux := http.NewServeMux()
				mux.Handle(pingv1connect.NewPingServiceHandler(srv))
				server := httptest.NewServer(mux) // HTTP/1.1
				defer server.Close()
				var opts []connect.ClientOption
				if proto == "grpcweb" {
					opts = append(opts, connect.WithGRPCWeb())
				}
				client := pingv1connect.NewPingServiceClient(server.Client(), server.URL, opts...)

				var ctx context.Context
				var end func()
				want := connect.CodeCanceled
				if kind == "cancel" {
					c, cancel := context.WithCancelCause(context.Background())
					defer cancel(nil)
					ctx, end = c, func() { cancel(io.EOF) }
				} else {
					want = connect.CodeDeadlineExceeded
					c, cancel := context.WithTimeoutCause(context.Background(), 300*time.Millisecond, io.EOF)
					defer cancel()
					ctx, end = c, func() {}
				}
				stream, err := client.CountUp(ctx, connect.NewRequest(&pingv1.CountUpRequest{Number: 1}))
				if err != nil {
					t.Fatalf("CountUp: %v", err)
				}
				defer stream.Close()
				if !stream.Receive() {
					t.Fatalf("first Receive: %v", stream.Err())
				}
				<-srv.sent
				go func() {
					time.Sleep(100 * time.Millisecond) // Receive below is blocked by now
					end()
				}()
				if stream.Receive() {
					t.Fatalf("C15 expects Receive to fail once the context is done; it succeeded")
				}
				err = stream.Err()
				if ctx.Err() == nil {
					t.Fatalf("test bug: context not done")
				}
				if err == nil || connect.CodeOf(err) != want || errors.Is(err, io.EOF) {
					t.Fatalf("C15 expects the Receive that was blocked when the context ended (ctx.Err()=%v, cause io.EOF) "+
						"to fail with code %v; observed err=%v (code %v, wraps io.EOF: %v)",
						ctx.Err(), want, err, connect.CodeOf(err), errors.Is(err, io.EOF))
				}
			})
		}
	}
}
