package connect_test

import (
	"context"
	"net/http"
	"net/http/httptest"
	"testing"
	"time"

	connect "github.com/bufbuild/connect-go"
	pingv1 "github.com/bufbuild/connect-go/internal/gen/connect/ping/v1"
	"github.com/bufbuild/connect-go/internal/gen/connect/ping/v1/pingv1connect"
)

type auditC15wF5Server struct {
	pingv1connect.UnimplementedPingServiceHandler
}

func (auditC15wF5Server) Ping(ctx context.Context, req *connect.Request[pingv1.PingRequest]) (*connect.Response[pingv1.PingResponse], error) {
	return connect.NewResponse(&pingv1.PingResponse{Number: req.Msg.Number}), nil
}

func (auditC15wF5Server) Sum(ctx context.Context, stream *connect.ClientStream[pingv1.SumRequest]) (*connect.Response[pingv1.SumResponse], error) {
	for stream.Receive() {
	}
	<-ctx.Done()
	return nil, ctx.Err()
}

// C15: if the context is cancelled or expired before the call, or between two
// operations, every operation that fails afterwards fails with canceled /
// deadline_exceeded, never another code. Here the operation is a Send (or a
// unary call) whose message the codec rejects: a proto3 string field holding
// invalid UTF-8.
func TestAuditC15wFinding5(t *testing.T) {
	mux := http.NewServeMux()
	mux.Handle(pingv1connect.NewPingServiceHandler(auditC15wF5Server{}))
	server := httptest.NewUnstartedServer(mux)
	server.EnableHTTP2 = true
	server.StartTLS()
	defer server.Close()
	for _, proto := range []string{"connect", "grpc", "grpcweb"} {
		for _, kind := range []string{"cancel", "deadline"} {
			proto, kind := proto, kind
			var opts []connect.ClientOption
			switch proto {
			case "grpc":
				opts = append(opts, connect.WithGRPC())
			case "grpcweb":
				opts = append(opts, connect.WithGRPCWeb())
			}
			client := pingv1connect.NewPingServiceClient(server.Client(), server.URL, opts...)
			want := connect.CodeCanceled
			newEndedContext := func() (context.Context, func(), context.CancelFunc) {
				if kind == "cancel" {
					ctx, cancel := context.WithCancel(context.Background())
					return ctx, cancel, cancel
				}
				ctx, cancel := context.WithTimeout(context.Background(), 50*time.Millisecond)
				return ctx, func() { <-ctx.Done() }, cancel
			}
			if kind == "deadline" {
				want = connect.CodeDeadlineExceeded
			}
			t.Run(proto+"/"+kind+"/unary-before-the-call", func(t *testing.T) {
				ctx, end, cancel := newEndedContext()
				defer cancel()
				end()
				_, err := client.Ping(ctx, connect.NewRequest(&pingv1.PingRequest{Text: "\xff"}))
				if err == nil || connect.CodeOf(err) != want {
					t.Errorf("C15 expects a unary call made with a context that is already done (ctx.Err()=%v) to fail with code %v; "+
						"observed err=%v (code %v)", ctx.Err(), want, err, connect.CodeOf(err))
				}
			})
			t.Run(proto+"/"+kind+"/stream-send-between-operations", func(t *testing.T) {
				// A client stream whose request type has a string field (on the wire,
				// PingRequest{number} reads as SumRequest{number}).
				streamClient := connect.NewClient[pingv1.PingRequest, pingv1.SumResponse](
					server.Client(), server.URL+"/connect.ping.v1.PingService/Sum", opts...)
				ctx, end, cancel := newEndedContext()
				defer cancel()
				stream := streamClient.CallClientStream(ctx)
				if err := stream.Send(&pingv1.PingRequest{Number: 1}); err != nil {
					t.Fatalf("first Send: %v", err)
				}
				end()
				err := stream.Send(&pingv1.PingRequest{Text: "\xff"})
				if err == nil || connect.CodeOf(err) != want {
					t.Errorf("C15 expects a Send that fails after the context ended (ctx.Err()=%v) to fail with code %v; "+
						"observed err=%v (code %v)", ctx.Err(), want, err, connect.CodeOf(err))
				}
				_, _ = stream.CloseAndReceive()
			})
		}
	}
}
