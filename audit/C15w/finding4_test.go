package connect_test

import (
	"context"
	"net/http"
	"net/http/httptest"
	"testing"
	"time"

	connect "github.com/bufbuild/connect-go"
	pingv1 "github.com/bufbuild/connect-go/internal/gen/connect/ping/v1"
	"github.com/bufbuild/connect-go/internal/gen/connect/ping/v1/pingv1connect"
)

type auditC15wF4Result struct {
	op     string
	err    error
	ctxErr error
}

type auditC15wF4Server struct {
	pingv1connect.UnimplementedPingServiceHandler
	ready   chan struct{}
	results chan auditC15wF4Result
}

// Sum blocks in Receive when the client cancels.
func (s *auditC15wF4Server) Sum(ctx context.Context, stream *connect.ClientStream[pingv1.SumRequest]) (*connect.Response[pingv1.SumResponse], error) {
	if !stream.Receive() {
		s.results <- auditC15wF4Result{"first Receive", stream.Err(), ctx.Err()}
		return nil, stream.Err()
	}
	s.ready <- struct{}{}
	stream.Receive() // blocked until the client cancels
	<-ctx.Done()
	s.results <- auditC15wF4Result{"Receive", stream.Err(), ctx.Err()}
	return nil, ctx.Err()
}

// CountUp sends after the client has cancelled.
func (s *auditC15wF4Server) CountUp(
	ctx context.Context,
	_ *connect.Request[pingv1.CountUpRequest],
	stream *connect.ServerStream[pingv1.CountUpResponse],
) error {
	if err := stream.Send(&pingv1.CountUpResponse{Number: 1}); err != nil {
		s.results <- auditC15wF4Result{"first Send", err, ctx.Err()}
		return err
	}
	s.ready <- struct{}{}
	<-ctx.Done()
	var err error
	for i := 0; i < 100000 && err == nil; i++ { // net/http may buffer a few
		err = stream.Send(&pingv1.CountUpResponse{Number: 2})
	}
	s.results <- auditC15wF4Result{"Send", err, ctx.Err()}
	return ctx.Err()
}

// C15: once the call's context is cancelled (before the handler has finished)
// the handler's context is cancelled as well and every operation on the call
// that fails afterwards fails with code canceled - the handler's view of the
// call included. HTTP/2, all three protocols.
func TestAuditC15wFinding4(t *testing.T) {
	for _, proto := range []string{"connect", "grpc", "grpcweb"} {
		for _, op := range []string{"Receive", "Send"} {
			proto, op := proto, op
			t.Run(proto+"/handler-"+op, func(t *testing.T) {
				srv := &auditC15wF4Server{ready: make(chan struct{}, 1), results: make(chan auditC15wF4Result, 1)}
				mux := http.NewServeMux()
				mux.Handle(pingv1connect.NewPingServiceHandler(srv))
				server := httptest.NewUnstartedServer(mux)
				server.EnableHTTP2 = true
				server.StartTLS()
				defer server.Close()
				var opts []connect.ClientOption
				switch proto {
				case "grpc":
					opts = append(opts, connect.WithGRPC())
				case "grpcweb":
					opts = append(opts, connect.WithGRPCWeb())
				}
				client := pingv1connect.NewPingServiceClient(server.Client(), server.URL, opts...)
				ctx, cancel := context.WithCancel(context.Background())
				defer cancel()
				if op == "Receive" {
					stream := client.Sum(ctx)
					if err := stream.Send(&pingv1.SumRequest{Number: 1}); err != nil {
						t.Fatalf("Send: %v", err)
					}
					<-srv.ready
					time.Sleep(50 * time.Millisecond) // the handler is blocked in Receive
					cancel()
					// The client's next operation notices the cancellation (and tears the
					// HTTP/2 stream down).
					if err := stream.Send(&pingv1.SumRequest{Number: 2}); connect.CodeOf(err) != connect.CodeCanceled {
						t.Errorf("client: Send after cancel: %v", err)
					}
				} else {
					stream, err := client.CountUp(ctx, connect.NewRequest(&pingv1.CountUpRequest{Number: 1}))
					if err != nil {
						t.Fatalf("CountUp: %v", err)
					}
					defer stream.Close()
					if !stream.Receive() {
						t.Fatalf("Receive: %v", stream.Err())
					}
					<-srv.ready
					cancel()
				}
				select {
				case res := <-srv.results:
					if res.ctxErr == nil {
						t.Errorf("handler's context not cancelled")
					}
					if res.err == nil {
						t.Fatalf("handler's %s didn't fail", res.op)
					}
					if connect.CodeOf(res.err) != connect.CodeCanceled {
						t.Errorf("C15 expects the handler's %s, which fails after the call's context was cancelled (handler ctx.Err()=%v), "+
							"to fail with code canceled; observed err=%v (code %v)", res.op, res.ctxErr, res.err, connect.CodeOf(res.err))
					}
				case <-time.After(5 * time.Second):
					t.Fatalf("handler didn't notice the cancellation")
				}
			})
		}
	}
}
