package connect_test

import (
	"context"
	"net/http"
	"net/http/httptest"
	"sync"
	"testing"

	"github.com/bufbuild/connect-go"
	pingv1 "github.com/bufbuild/connect-go/internal/gen/connect/ping/v1"
)

// auditC12sSpecObserver is a handler-side interceptor that looks at the Spec of
// the request it is given, both on the way in and on the way out (as a logging
// or metrics interceptor does).
type auditC12sSpecObserver struct {
	mu            sync.Mutex
	runs          int
	before, after connect.Spec
}

func (o *auditC12sSpecObserver) WrapUnary(next connect.UnaryFunc) connect.UnaryFunc {
	return func(ctx context.Context, req connect.AnyRequest) (connect.AnyResponse, error) {
		before := req.Spec()
		res, err := next(ctx, req)
		after := req.Spec()
		o.mu.Lock()
		o.runs++
		o.before, o.after = before, after
		o.mu.Unlock()
		return res, err
	}
}

func (o *auditC12sSpecObserver) WrapStreamingClient(next connect.StreamingClientFunc) connect.StreamingClientFunc {
	return next
}

func (o *auditC12sSpecObserver) WrapStreamingHandler(next connect.StreamingHandlerFunc) connect.StreamingHandlerFunc {
	return next
}

// TestAuditC12sFinding1: the interceptors (and the WithRecover function) of a
// unary handler must observe the Spec the handler was built with. A handler
// whose user code forwards the request it received to a connect client (a
// proxy) has that Spec replaced, inside the very request object the handler's
// interceptors hold, by the Spec of the client: Client.CallUnary assigns
// request.spec.
func TestAuditC12sFinding1(t *testing.T) {
	const (
		frontProcedure   = "/connect.ping.v1.PingService/Ping"
		backendProcedure = "/audit.backend.v1.BackendService/Echo"
	)
	built := connect.Spec{StreamType: connect.StreamTypeUnary, Procedure: frontProcedure, IsClient: false}

	// The backend the proxy forwards to.
	backendMux := http.NewServeMux()
	backendMux.Handle(backendProcedure, connect.NewUnaryHandler(
		backendProcedure,
		func(_ context.Context, req *connect.Request[pingv1.PingRequest]) (*connect.Response[pingv1.PingResponse], error) {
			return connect.NewResponse(&pingv1.PingResponse{Number: req.Msg.Number}), nil
		},
	))
	backend := httptest.NewServer(backendMux)
	defer backend.Close()
	backendClient := connect.NewClient[pingv1.PingRequest, pingv1.PingResponse](
		backend.Client(), backend.URL+backendProcedure,
	)

	t.Run("interceptor", func(t *testing.T) {
		observer := &auditC12sSpecObserver{}
		frontMux := http.NewServeMux()
		frontMux.Handle(frontProcedure, connect.NewUnaryHandler(
			frontProcedure,
			func(ctx context.Context, req *connect.Request[pingv1.PingRequest]) (*connect.Response[pingv1.PingResponse], error) {
				return backendClient.CallUnary(ctx, req) // proxy: pass the request on
			},
			connect.WithInterceptors(observer),
		))
		front := httptest.NewServer(frontMux)
		defer front.Close()

		client := connect.NewClient[pingv1.PingRequest, pingv1.PingResponse](front.Client(), front.URL+frontProcedure)
		res, err := client.CallUnary(context.Background(), connect.NewRequest(&pingv1.PingRequest{Number: 42}))
		if err != nil {
			t.Fatalf("call through the proxy failed: %v", err)
		}
		if res.Msg.Number != 42 {
			t.Fatalf("unexpected response %v", res.Msg)
		}
		observer.mu.Lock()
		defer observer.mu.Unlock()
		if observer.runs != 1 {
			t.Fatalf("C12 expects the handler's interceptor to run exactly once, it ran %d times", observer.runs)
		}
		if observer.before != built {
			t.Errorf("C12 expects the handler's interceptor to observe the Spec the handler was built with, %+v; before calling next it observed %+v", built, observer.before)
		}
		if observer.after != built {
			t.Errorf("C12 expects the handler's interceptor to observe the Spec the handler was built with, %+v; after next returned, the same request reports %+v (the Spec of the client the user code forwarded the request to)", built, observer.after)
		}
	})

	t.Run("recover", func(t *testing.T) {
		var (
			mu      sync.Mutex
			handled []connect.Spec
		)
		frontMux := http.NewServeMux()
		frontMux.Handle(frontProcedure, connect.NewUnaryHandler(
			frontProcedure,
			func(ctx context.Context, req *connect.Request[pingv1.PingRequest]) (*connect.Response[pingv1.PingResponse], error) {
				if _, err := backendClient.CallUnary(ctx, req); err != nil {
					return nil, err
				}
				panic("post-processing of the backend's answer failed") //nolint:forbidigo
			},
			connect.WithRecover(func(_ context.Context, spec connect.Spec, _ http.Header, _ any) error {
				mu.Lock()
				handled = append(handled, spec)
				mu.Unlock()
				return connect.NewError(connect.CodeInternal, nil)
			}),
		))
		front := httptest.NewServer(frontMux)
		defer front.Close()

		client := connect.NewClient[pingv1.PingRequest, pingv1.PingResponse](front.Client(), front.URL+frontProcedure)
		_, err := client.CallUnary(context.Background(), connect.NewRequest(&pingv1.PingRequest{Number: 42}))
		if connect.CodeOf(err) != connect.CodeInternal {
			t.Fatalf("expected the recover function's error, got %v", err)
		}
		mu.Lock()
		defer mu.Unlock()
		if len(handled) != 1 {
			t.Fatalf("expected the recover function to run once, it ran %d times", len(handled))
		}
		if handled[0] != built {
			t.Errorf("C12 expects the recover interceptor of the handler to be given the Spec the handler was built with, %+v; it was given %+v (the Spec of the client the user code forwarded the request to)", built, handled[0])
		}
	})
}
