package connect_test

import (
	"bytes"
	"context"
	"encoding/binary"
	"errors"
	"io"
	"net/http"
	"net/http/httptest"
	"net/url"
	"strings"
	"testing"

	connect "github.com/bufbuild/connect-go"
	pingv1 "github.com/bufbuild/connect-go/internal/gen/connect/ping/v1"
	"google.golang.org/protobuf/proto"
)

// Handlers fail with an error whose message begins and ends with a space (an
// indented line of a multi-line report, say). gRPC's Status-Message is
// "grpc-message" Percent-Encoded; the library leaves SP unencoded everywhere,
// so the message is put on the wire as a field value with leading and
// trailing whitespace. Field values are trimmed of optional whitespace by
// every HTTP/1 header parser (and net/http's Header.Write, which the
// gRPC-Web trailers block is rendered with, trims them before they are even
// sent); in HTTP/2 a field value that starts or ends with SP is malformed
// (RFC 9113, 8.2.1). The peer therefore decodes a different message from the
// one the application supplied. (Percent-encoding the first and last space
// would be accepted by every decoder.)
func TestAuditC05vFinding3(t *testing.T) {
	t.Parallel()
	const message = "  indented detail line  "
	mux := http.NewServeMux()
	mux.Handle("/connect.ping.v1.PingService/Ping", connect.NewUnaryHandler(
		"/connect.ping.v1.PingService/Ping",
		func(_ context.Context, _ *connect.Request[pingv1.PingRequest]) (*connect.Response[pingv1.PingResponse], error) {
			return nil, connect.NewError(connect.CodeFailedPrecondition, errors.New(message))
		},
	))
	mux.Handle("/connect.ping.v1.PingService/CountUp", connect.NewServerStreamHandler(
		"/connect.ping.v1.PingService/CountUp",
		func(_ context.Context, _ *connect.Request[pingv1.CountUpRequest], stream *connect.ServerStream[pingv1.CountUpResponse]) error {
			if err := stream.Send(&pingv1.CountUpResponse{Number: 1}); err != nil {
				return err
			}
			return connect.NewError(connect.CodeFailedPrecondition, errors.New(message))
		},
	))
	server := httptest.NewServer(mux) // HTTP/1.1, the usual carrier of gRPC-Web
	defer server.Close()

	payload, err := proto.Marshal(&pingv1.PingRequest{Number: 1})
	if err != nil {
		t.Fatal(err)
	}
	requestBody := make([]byte, 5+len(payload))
	binary.BigEndian.PutUint32(requestBody[1:5], uint32(len(payload)))
	copy(requestBody[5:], payload)
	call := func(procedure string) (*http.Response, []byte) {
		t.Helper()
		request, err := http.NewRequest(http.MethodPost, server.URL+procedure, bytes.NewReader(requestBody))
		if err != nil {
			t.Fatal(err)
		}
		request.Header.Set("Content-Type", "application/grpc-web+proto")
		response, err := server.Client().Do(request)
		if err != nil {
			t.Fatal(err)
		}
		defer response.Body.Close()
		body, err := io.ReadAll(response.Body)
		if err != nil {
			t.Fatal(err)
		}
		if response.StatusCode != http.StatusOK {
			t.Fatalf("expected HTTP 200, got %d", response.StatusCode)
		}
		return response, body
	}
	percentDecode := func(encoded string) string {
		t.Helper()
		// '+' is not special in gRPC's percent-encoding, PathUnescape leaves it alone.
		decoded, err := url.PathUnescape(encoded)
		if err != nil {
			t.Fatalf("grpc-message %q is not percent-encoded: %v", encoded, err)
		}
		return decoded
	}

	// (a) Body-less response: status in the HTTP headers.
	response, body := call("/connect.ping.v1.PingService/Ping")
	if len(body) != 0 || response.Header.Get("Grpc-Status") != "9" {
		t.Fatalf("expected a body-less response with grpc-status 9, got body %x and headers %v", body, response.Header)
	}
	if got := percentDecode(response.Header.Get("Grpc-Message")); got != message {
		t.Errorf(
			"property C05 (the response yields the error the application supplied), gRPC-Web body-less response: "+
				"expected grpc-message to decode to %q, observed %q",
			message, got,
		)
	}

	// (b) Response with a body: status in the final 0x80 frame.
	_, body = call("/connect.ping.v1.PingService/CountUp")
	var trailerBlock []byte
	for rest := body; len(rest) >= 5; {
		size := int(binary.BigEndian.Uint32(rest[1:5]))
		if rest[0] == 0x80 {
			trailerBlock = rest[5 : 5+size]
		}
		rest = rest[5+size:]
	}
	if trailerBlock == nil {
		t.Fatalf("no 0x80 frame in %x", body)
	}
	var rawValue string
	found := false
	for _, line := range strings.Split(string(trailerBlock), "\r\n") {
		if strings.HasPrefix(line, "grpc-message:") {
			// field-line = field-name ":" OWS field-value OWS: even a decoder that
			// strips only the single conventional space after the colon loses data.
			rawValue = strings.TrimPrefix(strings.TrimPrefix(line, "grpc-message:"), " ")
			found = true
		}
	}
	if !found {
		t.Fatalf("no grpc-message in trailers block %q", trailerBlock)
	}
	if got := percentDecode(rawValue); got != message {
		t.Errorf(
			"property C05, gRPC-Web trailers frame: expected grpc-message to decode to %q, observed %q (trailers block as sent: %q)",
			message, got, trailerBlock,
		)
	}

	// (c) gRPC over HTTP/2: the status travels in HTTP trailers. RFC 9113, 8.2.1:
	// "A field value MUST NOT start or end with an ASCII whitespace character";
	// a peer that enforces this (nghttp2 does by default, hence Envoy) treats
	// the whole response as malformed.
	tlsServer := httptest.NewUnstartedServer(mux)
	tlsServer.EnableHTTP2 = true
	tlsServer.StartTLS()
	defer tlsServer.Close()
	request, err := http.NewRequest(http.MethodPost, tlsServer.URL+"/connect.ping.v1.PingService/Ping", bytes.NewReader(requestBody))
	if err != nil {
		t.Fatal(err)
	}
	request.Header.Set("Content-Type", "application/grpc+proto")
	request.Header.Set("Te", "trailers")
	h2Response, err := tlsServer.Client().Do(request)
	if err != nil {
		t.Fatal(err)
	}
	if _, err := io.Copy(io.Discard, h2Response.Body); err != nil {
		t.Fatal(err)
	}
	h2Response.Body.Close()
	if h2Response.ProtoMajor != 2 {
		t.Fatalf("expected HTTP/2, got %s", h2Response.Proto)
	}
	if value := h2Response.Trailer.Get("Grpc-Message"); value != strings.Trim(value, " \t") {
		t.Errorf(
			"property C05 (decodable by a strictly spec-following peer), gRPC over HTTP/2: expected the grpc-message "+
				"field value not to start or end with whitespace (RFC 9113 8.2.1: malformed), observed %q",
			value,
		)
	}
}
