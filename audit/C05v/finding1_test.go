package connect_test

import (
	"bytes"
	"context"
	"encoding/binary"
	"net/http"
	"net/http/httptest"
	"strings"
	"testing"

	connect "github.com/bufbuild/connect-go"
	pingv1 "github.com/bufbuild/connect-go/internal/gen/connect/ping/v1"
	"google.golang.org/protobuf/proto"
)

// A gRPC-Web peer that advertises "grpc-accept-encoding: gzip" (and nothing
// else unusual) calls a unary handler that uses the library's defaults. A
// strictly spec-following gRPC-Web decoder splits the body into length-prefixed
// frames; bit 0 of the flag byte says "compressed *message*", the MSB says
// "trailers". The trailers frame is an HTTP/1 header block; the specification
// defines no compressed form of it, and the property demands a "final 0x80
// frame" carrying exactly one grpc-status.
func TestAuditC05vFinding1(t *testing.T) {
	t.Parallel()
	handler := connect.NewUnaryHandler(
		"/connect.ping.v1.PingService/Ping",
		func(_ context.Context, req *connect.Request[pingv1.PingRequest]) (*connect.Response[pingv1.PingResponse], error) {
			res := connect.NewResponse(&pingv1.PingResponse{Number: req.Msg.Number})
			res.Trailer().Set("X-Custom-Trailer", "value")
			return res, nil
		},
	)
	payload, err := proto.Marshal(&pingv1.PingRequest{Number: 42})
	if err != nil {
		t.Fatal(err)
	}
	body := make([]byte, 5+len(payload))
	binary.BigEndian.PutUint32(body[1:5], uint32(len(payload)))
	copy(body[5:], payload)
	request := httptest.NewRequest(http.MethodPost, "/connect.ping.v1.PingService/Ping", bytes.NewReader(body))
	request.Header.Set("Content-Type", "application/grpc-web+proto")
	request.Header.Set("Grpc-Accept-Encoding", "gzip")
	recorder := httptest.NewRecorder()
	handler.ServeHTTP(recorder, request)

	if recorder.Code != http.StatusOK {
		t.Fatalf("expected HTTP 200, got %d", recorder.Code)
	}
	// Independent frame decoder.
	type frame struct {
		flags byte
		data  []byte
	}
	var frames []frame
	rest := recorder.Body.Bytes()
	for len(rest) > 0 {
		if len(rest) < 5 {
			t.Fatalf("truncated frame prefix %x", rest)
		}
		size := int(binary.BigEndian.Uint32(rest[1:5]))
		if len(rest) < 5+size {
			t.Fatalf("truncated frame")
		}
		frames = append(frames, frame{flags: rest[0], data: rest[5 : 5+size]})
		rest = rest[5+size:]
	}
	if len(frames) != 2 {
		t.Fatalf("expected a message frame and a trailers frame, got %d frames", len(frames))
	}
	last := frames[len(frames)-1]
	if last.flags != 0x80 {
		t.Errorf(
			"property C05 (gRPC-Web: exactly one grpc-status in the final 0x80 frame, an HTTP/1 header block): "+
				"expected the flag byte of the last frame to be 0x80, observed %#x "+
				"(response headers: Grpc-Encoding=%q) - the trailers block was run through the message compressor",
			last.flags, recorder.Header().Get("Grpc-Encoding"),
		)
	}
	// A strict decoder reads the frame's payload as "key: value\r\n" lines.
	statuses := 0
	for _, line := range strings.Split(string(last.data), "\r\n") {
		if strings.HasPrefix(strings.ToLower(line), "grpc-status:") {
			statuses++
		}
	}
	if statuses != 1 {
		t.Errorf(
			"property C05: expected exactly one grpc-status line in the trailers frame's header block, "+
				"found %d; the block as sent starts with % x (gzip magic 1f 8b), not with header text",
			statuses, last.data[:4],
		)
	}
}
