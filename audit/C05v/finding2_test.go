package connect_test

import (
	"bytes"
	"context"
	"encoding/binary"
	"errors"
	"io"
	"net/http"
	"net/http/httptest"
	"testing"

	connect "github.com/bufbuild/connect-go"
	pingv1 "github.com/bufbuild/connect-go/internal/gen/connect/ping/v1"
	"google.golang.org/protobuf/proto"
)

// A unary handler rejects a call with CodeUnauthenticated and attaches the
// usual challenge as error metadata. "www-authenticate" and "cache-control"
// are legal gRPC custom-metadata keys (lower-case letters, digits, "-", "_",
// "."; not starting with "grpc-"). Over the Connect protocol and gRPC-Web the
// peer receives them; over gRPC (HTTP/2) they never reach the wire.
func TestAuditC05vFinding2(t *testing.T) {
	t.Parallel()
	mux := http.NewServeMux()
	mux.Handle("/connect.ping.v1.PingService/Ping", connect.NewUnaryHandler(
		"/connect.ping.v1.PingService/Ping",
		func(_ context.Context, _ *connect.Request[pingv1.PingRequest]) (*connect.Response[pingv1.PingResponse], error) {
			err := connect.NewError(connect.CodeUnauthenticated, errors.New("no credentials"))
			err.Meta().Set("Www-Authenticate", `Bearer realm="example"`)
			err.Meta().Set("Cache-Control", "no-store")
			err.Meta().Set("X-Request-Id", "abc123")
			return nil, err
		},
	))
	server := httptest.NewUnstartedServer(mux)
	server.EnableHTTP2 = true
	server.StartTLS()
	defer server.Close()

	// (1) An independent peer: a bare HTTP/2 client speaking gRPC.
	payload, err := proto.Marshal(&pingv1.PingRequest{Number: 1})
	if err != nil {
		t.Fatal(err)
	}
	body := make([]byte, 5+len(payload))
	binary.BigEndian.PutUint32(body[1:5], uint32(len(payload)))
	copy(body[5:], payload)
	request, err := http.NewRequest(http.MethodPost, server.URL+"/connect.ping.v1.PingService/Ping", bytes.NewReader(body))
	if err != nil {
		t.Fatal(err)
	}
	request.Header.Set("Content-Type", "application/grpc+proto")
	request.Header.Set("Te", "trailers")
	response, err := server.Client().Do(request)
	if err != nil {
		t.Fatal(err)
	}
	if _, err := io.Copy(io.Discard, response.Body); err != nil {
		t.Fatal(err)
	}
	response.Body.Close()
	if response.ProtoMajor != 2 || response.StatusCode != http.StatusOK {
		t.Fatalf("expected an HTTP/2 200 response, got %s %d", response.Proto, response.StatusCode)
	}
	metadata := response.Header.Clone()
	for key, values := range response.Trailer {
		metadata[key] = append(metadata[key], values...)
	}
	if got := metadata.Get("Grpc-Status"); got != "16" {
		t.Fatalf("expected grpc-status 16, got %q", got)
	}
	if got := metadata.Get("X-Request-Id"); got != "abc123" {
		t.Fatalf("expected x-request-id to arrive, got %q", got)
	}
	for _, key := range []string{"Www-Authenticate", "Cache-Control"} {
		if got := metadata.Get(key); got == "" {
			t.Errorf(
				"property C05 (a gRPC response yields the metadata the application supplied): "+
					"the handler's error carries metadata %q, expected it in the response's headers or trailers; "+
					"observed headers %v, trailers %v",
				key, response.Header, response.Trailer,
			)
		}
	}

	// (2) The same through the library's own gRPC client.
	client := connect.NewClient[pingv1.PingRequest, pingv1.PingResponse](
		server.Client(),
		server.URL+"/connect.ping.v1.PingService/Ping",
		connect.WithGRPC(),
	)
	_, callErr := client.CallUnary(context.Background(), connect.NewRequest(&pingv1.PingRequest{}))
	var connectErr *connect.Error
	if !errors.As(callErr, &connectErr) {
		t.Fatalf("expected a *connect.Error, got %v", callErr)
	}
	if got := connectErr.Meta().Get("Www-Authenticate"); got != `Bearer realm="example"` {
		t.Errorf(
			"property C05: expected the client to see error metadata Www-Authenticate=%q, observed %q (all metadata: %v)",
			`Bearer realm="example"`, got, connectErr.Meta(),
		)
	}
}
