package connect_test

import (
	"context"
	"fmt"
	"io"
	"net/http"
	"net/http/httptest"
	"sync"
	"testing"

	connect "github.com/bufbuild/connect-go"
	pingv1 "github.com/bufbuild/connect-go/internal/gen/connect/ping/v1"
	"google.golang.org/protobuf/proto"
)

// The application asks a Connect-protocol client to send a message that can't
// be serialized (a proto3 string field holding invalid UTF-8; a failing
// compressor or custom codec has the same effect). CallUnary reports the
// marshalling error - but it also puts a request on the wire: a complete,
// well-formed Connect unary POST with an empty body. An empty body is the
// valid binary encoding of the all-defaults message, so a strict peer decodes
// a message the application never supplied and runs the procedure with it.
func TestAuditC05vFinding4(t *testing.T) {
	t.Parallel()
	var (
		mu       sync.Mutex
		requests []string
	)
	// The independent peer: a bare HTTP server that decodes what arrives.
	server := httptest.NewServer(http.HandlerFunc(func(w http.ResponseWriter, r *http.Request) {
		body, err := io.ReadAll(r.Body)
		var decoded pingv1.PingRequest
		description := fmt.Sprintf(
			"%s %s Content-Type=%q body=%x (read error: %v)",
			r.Method, r.URL.Path, r.Header.Get("Content-Type"), body, err,
		)
		if err == nil && r.Header.Get("Content-Type") == "application/proto" {
			if unmarshalErr := proto.Unmarshal(body, &decoded); unmarshalErr == nil {
				description += fmt.Sprintf(" -> a valid request, message {%v}", decoded.String())
			}
		}
		mu.Lock()
		requests = append(requests, description)
		mu.Unlock()
		w.Header().Set("Content-Type", "application/proto")
		w.WriteHeader(http.StatusOK) // an empty PingResponse
	}))
	defer server.Close()

	client := connect.NewClient[pingv1.PingRequest, pingv1.PingResponse](
		server.Client(),
		server.URL+"/connect.ping.v1.PingService/Ping",
	)
	_, err := client.CallUnary(
		context.Background(),
		connect.NewRequest(&pingv1.PingRequest{Number: 42, Text: "\xff\xfe"}),
	)
	if err == nil {
		t.Fatal("expected CallUnary to fail: the message can't be marshalled")
	}
	t.Logf("CallUnary returned: %v", err)
	server.Close() // waits for outstanding requests
	mu.Lock()
	defer mu.Unlock()
	if len(requests) != 0 {
		t.Errorf(
			"property C05 (every request a client writes decodes to the messages the application supplied): "+
				"the application's only message {number:42 text:<invalid UTF-8>} could not be encoded and CallUnary "+
				"failed with %q, so no request carrying a message was expected; observed on the wire: %v",
			err, requests,
		)
	}
}
