package connect

import (
	"bytes"
	"context"
	"encoding/binary"
	"io"
	"net/http"
	"net/http/httptest"
	"strings"
	"sync/atomic"
	"testing"

	pingv1 "github.com/bufbuild/connect-go/internal/gen/connect/ping/v1"
	"google.golang.org/protobuf/proto"
)

// C07: "invalid timeouts ... reach the peer as the documented error codes,
// never as success."
//
// The gRPC grammar is  Timeout -> TimeoutValue TimeoutUnit,  TimeoutValue ->
// "positive integer as ASCII string of at most 8 digits".  grpcParseTimeout
// (protocol_grpc.go) enforces the limit on the numeric value (num > 99999999),
// not on the number of digits, so a value written with 9 or more digits is
// honoured as long as leading zeros keep the number small.  (The sibling
// Connect parser does check the length of the string.)
func TestAuditC07rFinding1(t *testing.T) {
	var calls atomic.Int32
	handler := NewUnaryHandler(
		"/connect.ping.v1.PingService/Ping",
		func(_ context.Context, r *Request[pingv1.PingRequest]) (*Response[pingv1.PingResponse], error) {
			calls.Add(1)
			return NewResponse(&pingv1.PingResponse{Number: r.Msg.Number}), nil
		},
	)
	payload, err := proto.Marshal(&pingv1.PingRequest{Number: 42})
	if err != nil {
		t.Fatal(err)
	}
	body := make([]byte, 5+len(payload))
	binary.BigEndian.PutUint32(body[1:5], uint32(len(payload)))
	copy(body[5:], payload)

	for _, contentType := range []string{"application/grpc", "application/grpc-web"} {
		for _, timeout := range []string{
			"000000001S",         // 9 digits
			"00000000000000005M", // 17 digits
			"0000000000000000000000000000000000000000000000000001H", // 52 digits
		} {
			calls.Store(0)
			req := httptest.NewRequest(http.MethodPost, "http://localhost/connect.ping.v1.PingService/Ping", bytes.NewReader(body))
			req.ProtoMajor, req.ProtoMinor, req.Proto = 2, 0, "HTTP/2.0"
			req.Header.Set("Content-Type", contentType)
			req.Header.Set("Grpc-Timeout", timeout)
			rec := httptest.NewRecorder()
			handler.ServeHTTP(rec, req)
			res := rec.Result()
			resBody, _ := io.ReadAll(res.Body)
			status := res.Trailer.Get("Grpc-Status") // gRPC: HTTP trailers
			if status == "" {
				status = res.Header.Get("Grpc-Status") // gRPC-Web, trailers-only
			}
			if _, after, found := strings.Cut(string(resBody), "grpc-status: "); status == "" && found {
				status, _, _ = strings.Cut(after, "\r\n") // gRPC-Web, trailers frame in the body
			}
			if status != "3" || calls.Load() != 0 {
				t.Errorf(
					"%s, Grpc-Timeout: %s (%d digits; the gRPC grammar allows at most 8): "+
						"expected the invalid timeout to be answered with grpc-status 3 (invalid_argument) without running user code; "+
						"observed grpc-status %q, user code ran %d time(s)",
					contentType, timeout, len(timeout)-1, status, calls.Load(),
				)
			}
		}
	}
}
