package connect

import (
	"context"
	"encoding/binary"
	"fmt"
	"io"
	"net"
	"net/http/httptest"
	"strings"
	"testing"
	"time"

	pingv1 "github.com/bufbuild/connect-go/internal/gen/connect/ping/v1"
	"google.golang.org/protobuf/proto"
)

// C07: "For any HTTP request whatsoever [quantifier: method, HTTP version,
// header multimap, body bytes], serving it ... yields a response that is
// well-formed for the protocol selected by its Content-Type (or a bare
// 405/415/505 when none is selected) ... invalid timeouts [and] unknown
// compression ... reach the peer as the documented error codes".
//
// A POST with Content-Type: application/grpc that arrives over HTTP/1.0 selects
// the gRPC protocol (only bidi handlers answer 505 to HTTP/1.x).  The gRPC
// handler reports every outcome in HTTP trailers (http.TrailerPrefix), which
// net/http can only send with chunked transfer encoding, i.e. not to an
// HTTP/1.0 peer.  The peer gets "200 OK, Content-Type: application/grpc" with
// no grpc-status anywhere: not a gRPC response, and the error code is lost.
func TestAuditC07rFinding4(t *testing.T) {
	handler := NewUnaryHandler(
		"/connect.ping.v1.PingService/Ping",
		func(_ context.Context, r *Request[pingv1.PingRequest]) (*Response[pingv1.PingResponse], error) {
			return NewResponse(&pingv1.PingResponse{Number: r.Msg.Number}), nil
		},
	)
	server := httptest.NewServer(handler)
	defer server.Close()

	payload, err := proto.Marshal(&pingv1.PingRequest{Number: 42})
	if err != nil {
		t.Fatal(err)
	}
	body := make([]byte, 5+len(payload))
	binary.BigEndian.PutUint32(body[1:5], uint32(len(payload)))
	copy(body[5:], payload)

	exchange := func(version, extraHeader string) string {
		conn, err := net.Dial("tcp", server.Listener.Addr().String())
		if err != nil {
			t.Fatal(err)
		}
		defer conn.Close()
		_ = conn.SetDeadline(time.Now().Add(5 * time.Second))
		request := fmt.Sprintf(
			"POST /connect.ping.v1.PingService/Ping HTTP/%s\r\nHost: localhost\r\nConnection: close\r\n"+
				"Content-Type: application/grpc\r\n%sContent-Length: %d\r\n\r\n%s",
			version, extraHeader, len(body), body,
		)
		if _, err := conn.Write([]byte(request)); err != nil {
			t.Fatal(err)
		}
		response, _ := io.ReadAll(conn)
		return string(response)
	}

	for _, tc := range []struct {
		name        string
		extraHeader string
		wantStatus  string
	}{
		{"invalid timeout", "Grpc-Timeout: bogus\r\n", "3"},
		{"unknown compression", "Grpc-Encoding: snappy\r\n", "12"},
		{"valid request", "", "0"},
	} {
		// Control: over HTTP/1.1 the same request gets a proper gRPC response.
		if control := exchange("1.1", tc.extraHeader); !strings.Contains(control, "\r\nGrpc-Status: "+tc.wantStatus+"\r\n") {
			t.Fatalf("%s over HTTP/1.1 (control): expected Grpc-Status: %s, got %q", tc.name, tc.wantStatus, control)
		}
		response := exchange("1.0", tc.extraHeader)
		statusLine, _, _ := strings.Cut(response, "\r\n")
		bare505 := strings.Contains(statusLine, " 505 ")
		hasStatus := strings.Contains(strings.ToLower(response), "\r\ngrpc-status: "+tc.wantStatus+"\r\n")
		if !bare505 && !hasStatus {
			t.Errorf(
				"%s, Content-Type: application/grpc over HTTP/1.0: expected either a well-formed gRPC response carrying grpc-status %s "+
					"or a bare 505; observed a response with no grpc-status at all: %q",
				tc.name, tc.wantStatus, response,
			)
		}
	}
}
