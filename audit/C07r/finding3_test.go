package connect

import (
	"bytes"
	"context"
	"encoding/binary"
	"io"
	"net/http"
	"net/http/httptest"
	"testing"

	pingv1 "github.com/bufbuild/connect-go/internal/gen/connect/ping/v1"
	"google.golang.org/protobuf/proto"
)

// C07: "serving it ... yields a response that is well-formed for the protocol
// selected by its Content-Type"; "unknown compression ... reach[es] the peer as
// the documented error code".
//
// When the request names a compression the handler doesn't know, the error
// (unimplemented) does reach the peer, but the response that carries it has a
// message-encoding header with an EMPTY value: "Grpc-Encoding: " for gRPC and
// gRPC-Web, "Connect-Content-Encoding: " for Connect streaming.  Both grammars
// require a content-coding name there (identity / gzip / ...), or no header.
// negotiateCompression returns "" for the response compression on failure and
// NewConn writes the header whenever the value != "identity".
func TestAuditC07rFinding3(t *testing.T) {
	unary := NewUnaryHandler(
		"/connect.ping.v1.PingService/Ping",
		func(_ context.Context, r *Request[pingv1.PingRequest]) (*Response[pingv1.PingResponse], error) {
			return NewResponse(&pingv1.PingResponse{Number: r.Msg.Number}), nil
		},
	)
	serverStream := NewServerStreamHandler(
		"/connect.ping.v1.PingService/CountUp",
		func(_ context.Context, r *Request[pingv1.CountUpRequest], s *ServerStream[pingv1.CountUpResponse]) error {
			return s.Send(&pingv1.CountUpResponse{Number: 1})
		},
	)
	payload, err := proto.Marshal(&pingv1.PingRequest{Number: 42})
	if err != nil {
		t.Fatal(err)
	}
	enveloped := make([]byte, 5+len(payload))
	binary.BigEndian.PutUint32(enveloped[1:5], uint32(len(payload)))
	copy(enveloped[5:], payload)

	for _, tc := range []struct {
		handler        *Handler
		contentType    string
		requestHeader  string
		responseHeader string
	}{
		{unary, "application/grpc", "Grpc-Encoding", "Grpc-Encoding"},
		{unary, "application/grpc-web", "Grpc-Encoding", "Grpc-Encoding"},
		{serverStream, "application/connect+proto", "Connect-Content-Encoding", "Connect-Content-Encoding"},
	} {
		req := httptest.NewRequest(http.MethodPost, "http://localhost/connect.ping.v1.PingService/X", bytes.NewReader(enveloped))
		req.ProtoMajor, req.ProtoMinor, req.Proto = 2, 0, "HTTP/2.0"
		req.Header.Set("Content-Type", tc.contentType)
		req.Header.Set(tc.requestHeader, "snappy")
		rec := httptest.NewRecorder()
		tc.handler.ServeHTTP(rec, req)
		res := rec.Result()
		resBody, _ := io.ReadAll(res.Body)
		values, present := res.Header[tc.responseHeader]
		if !present {
			continue // fine: no encoding named
		}
		for _, value := range values {
			if value != "identity" && value != "gzip" {
				t.Errorf(
					"%s request with %s: snappy (unknown compression): expected a well-formed error response, "+
						"i.e. no %s header or one naming a supported content-coding (identity, gzip); "+
						"observed response header %s: %q (values %q), body %q",
					tc.contentType, tc.requestHeader, tc.responseHeader, tc.responseHeader, value, values, resBody,
				)
			}
		}
	}
}
