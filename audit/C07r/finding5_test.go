package connect

import (
	"bytes"
	"context"
	"fmt"
	"io"
	"net/http"
	"net/http/httptest"
	"os"
	"os/exec"
	"strings"
	"testing"

	pingv1 "github.com/bufbuild/connect-go/internal/gen/connect/ping/v1"
)

// C07: "For any HTTP request whatsoever, serving it terminates without
// panicking ... malformed framing ... reach[es] the peer as the documented
// error codes".
//
// envelopeReader.Read (envelope.go) trusts the 4-byte length prefix of an
// envelope: unless WithReadMaxBytes is configured (the default is "no limit")
// it calls env.Data.Grow(size) with the size the client claims, before a
// single payload byte has arrived.  An 8-byte request body
//
//	00 ff ff ff ff 01 02 03      (flags 0, length 4294967295, 3 payload bytes)
//
// makes every streaming-framed handler (gRPC, gRPC-Web, Connect streaming; all
// four RPC kinds) allocate and zero a 4 GiB buffer.  Where 4 GiB can't be had,
// the Go runtime doesn't panic, it aborts: "fatal error: out of memory" is not
// recoverable, so net/http's per-connection recover doesn't help and the whole
// server process dies instead of answering "promised 4294967295 bytes in
// enveloped message, got 3 bytes" (invalid_argument).
//
// The test serves that request in a child process whose address space is
// limited to ~3 GB (ulimit -v), which stands in for any machine or container
// that can't hand out 4 GiB per request.
func TestAuditC07rFinding5(t *testing.T) {
	const childEnv = "AUDIT_C07R_FINDING5_CHILD"
	if os.Getenv(childEnv) == "1" {
		finding5Child()
		return
	}
	if _, err := exec.LookPath("sh"); err != nil {
		t.Skip("needs sh for ulimit -v")
	}
	cmd := exec.Command(
		"sh", "-c",
		`ulimit -v 3000000 || exit 97; exec "$0" -test.run='^TestAuditC07rFinding5$' -test.count=1`,
		os.Args[0],
	)
	cmd.Env = append(os.Environ(), childEnv+"=1")
	out, err := cmd.CombinedOutput()
	if cmd.ProcessState != nil && cmd.ProcessState.ExitCode() == 97 {
		t.Skip("ulimit -v not supported here")
	}
	output := string(out)
	if err != nil || !strings.Contains(output, "CHILD-RESULT grpc-status=3") {
		if len(output) > 1200 {
			output = output[:1200] + " [...]"
		}
		t.Errorf(
			"8-byte gRPC request body claiming a 4294967295-byte message (3 bytes follow), default handler options, process limited to ~3 GB of address space: "+
				"expected the handler to answer the malformed framing with grpc-status 3 (invalid_argument) and the server to live on; "+
				"observed: server process ended with %v, output:\n%s",
			err, output,
		)
	}
}

func finding5Child() {
	handler := NewClientStreamHandler(
		"/connect.ping.v1.PingService/Sum",
		func(_ context.Context, stream *ClientStream[pingv1.SumRequest]) (*Response[pingv1.SumResponse], error) {
			var sum int64
			for stream.Receive() {
				sum += stream.Msg().Number
			}
			if err := stream.Err(); err != nil {
				return nil, err
			}
			return NewResponse(&pingv1.SumResponse{Sum: sum}), nil
		},
	)
	server := httptest.NewServer(handler)
	defer server.Close()
	body := []byte{0x00, 0xff, 0xff, 0xff, 0xff, 1, 2, 3}
	req, err := http.NewRequest(http.MethodPost, server.URL+"/connect.ping.v1.PingService/Sum", bytes.NewReader(body))
	if err != nil {
		fmt.Println("CHILD-RESULT error", err)
		return
	}
	req.Header.Set("Content-Type", "application/grpc")
	res, err := server.Client().Do(req)
	if err != nil {
		fmt.Println("CHILD-RESULT error", err)
		return
	}
	_, _ = io.Copy(io.Discard, res.Body)
	res.Body.Close()
	fmt.Printf("CHILD-RESULT grpc-status=%s grpc-message=%q\n", res.Trailer.Get("Grpc-Status"), res.Trailer.Get("Grpc-Message"))
}
