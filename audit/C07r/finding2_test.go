package connect

import (
	"bytes"
	"context"
	"encoding/binary"
	"io"
	"net/http"
	"net/http/httptest"
	"sync/atomic"
	"testing"

	pingv1 "github.com/bufbuild/connect-go/internal/gen/connect/ping/v1"
	"google.golang.org/protobuf/proto"
)

// C07: "invalid timeouts ... reach the peer as the documented error codes,
// never as success."
//
// Both timeout grammars require at least one digit (Connect: "positive integer
// as ASCII string of at most 10 digits"; gRPC: at most 8 digits followed by a
// unit).  A timeout header that is present but has an empty value is therefore
// not a timeout.  Both SetTimeout implementations read the header with
// Header.Get and take "" to mean "the client sent no timeout": the request is
// served without a deadline and succeeds.
func TestAuditC07rFinding2(t *testing.T) {
	var calls, deadlines atomic.Int32
	handler := NewUnaryHandler(
		"/connect.ping.v1.PingService/Ping",
		func(ctx context.Context, r *Request[pingv1.PingRequest]) (*Response[pingv1.PingResponse], error) {
			calls.Add(1)
			if _, ok := ctx.Deadline(); ok {
				deadlines.Add(1)
			}
			return NewResponse(&pingv1.PingResponse{Number: r.Msg.Number}), nil
		},
	)
	// A real server and a real client: the header line "Connect-Timeout-Ms: "
	// travels over the wire and is parsed by net/http.
	server := httptest.NewServer(handler)
	defer server.Close()

	payload, err := proto.Marshal(&pingv1.PingRequest{Number: 42})
	if err != nil {
		t.Fatal(err)
	}
	enveloped := make([]byte, 5+len(payload))
	binary.BigEndian.PutUint32(enveloped[1:5], uint32(len(payload)))
	copy(enveloped[5:], payload)

	for _, tc := range []struct {
		contentType string
		header      string
		values      []string
		body        []byte
	}{
		// Present but empty.
		{"application/proto", "Connect-Timeout-Ms", []string{""}, payload},
		{"application/grpc", "Grpc-Timeout", []string{""}, enveloped},
		{"application/grpc-web", "Grpc-Timeout", []string{""}, enveloped},
		// Same root cause (Header.Get looks at the first field line only): an
		// empty first line hides whatever the second one says.
		{"application/proto", "Connect-Timeout-Ms", []string{"", "bogus"}, payload},
		{"application/grpc", "Grpc-Timeout", []string{"", "bogus"}, enveloped},
	} {
		calls.Store(0)
		deadlines.Store(0)
		req, err := http.NewRequest(http.MethodPost, server.URL+"/connect.ping.v1.PingService/Ping", bytes.NewReader(tc.body))
		if err != nil {
			t.Fatal(err)
		}
		req.Header.Set("Content-Type", tc.contentType)
		req.Header[tc.header] = tc.values
		res, err := server.Client().Do(req)
		if err != nil {
			t.Fatal(err)
		}
		resBody, _ := io.ReadAll(res.Body)
		res.Body.Close()
		var rejected bool
		var observed string
		if tc.contentType == "application/proto" {
			rejected = res.StatusCode == http.StatusBadRequest && bytes.Contains(resBody, []byte(`"invalid_argument"`))
			observed = res.Status + " " + string(resBody)
		} else {
			status := res.Trailer.Get("Grpc-Status")
			if status == "" {
				status = res.Header.Get("Grpc-Status")
			}
			if status == "" && bytes.Contains(resBody, []byte("grpc-status: 0\r\n")) {
				status = "0"
			}
			rejected = status == "3"
			observed = "grpc-status " + status
		}
		if !rejected || calls.Load() != 0 {
			t.Errorf(
				"%s with header %s: %q (present, empty value: not a valid timeout in the protocol's grammar): "+
					"expected invalid_argument and user code not to run; observed %q, user code ran %d time(s), %d of them with a deadline",
				tc.contentType, tc.header, tc.values, observed, calls.Load(), deadlines.Load(),
			)
		}
	}
}
