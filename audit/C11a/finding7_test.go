package connect_test

// Audit C11a, finding 7: gRPC-Web trailers are written into the body with
// http.Header.Write and parsed back with net/textproto, both of which strip
// leading and trailing spaces from values. A trailer (or error-metadata)
// value that starts or ends with a space - printable ASCII, and delivered
// unchanged by the Connect and gRPC protocols over the same HTTP/2 connection
// - arrives modified.

import (
	"context"
	"errors"
	"net/http"
	"net/http/httptest"
	"reflect"
	"testing"

	connect "github.com/bufbuild/connect-go"
	pingv1 "github.com/bufbuild/connect-go/internal/gen/connect/ping/v1"
	"github.com/bufbuild/connect-go/internal/gen/connect/ping/v1/pingv1connect"
)

type auditC11aF7Server struct {
	pingv1connect.UnimplementedPingServiceHandler
	values []string
	fail   bool
}

func (s *auditC11aF7Server) CountUp(_ context.Context, _ *connect.Request[pingv1.CountUpRequest], stream *connect.ServerStream[pingv1.CountUpResponse]) error {
	stream.ResponseHeader()["X-Hdr"] = s.values
	stream.ResponseTrailer()["X-Trl"] = s.values
	if err := stream.Send(&pingv1.CountUpResponse{Number: 1}); err != nil {
		return err
	}
	if s.fail {
		return connect.NewError(connect.CodeAborted, errors.New("boom"))
	}
	return nil
}

func TestAuditC11aFinding7(t *testing.T) {
	values := []string{" leading", "trailing ", "in ner"}
	protocols := []struct {
		name string
		opts []connect.ClientOption
	}{
		{"connect_control", nil},
		{"grpc_control", []connect.ClientOption{connect.WithGRPC()}},
		{"grpcweb", []connect.ClientOption{connect.WithGRPCWeb()}},
	}
	for _, protocol := range protocols {
		for _, fail := range []bool{false, true} {
			protocol, fail := protocol, fail
			name := protocol.name + "/success"
			if fail {
				name = protocol.name + "/error_after_message"
			}
			t.Run(name, func(t *testing.T) {
				mux := http.NewServeMux()
				mux.Handle(pingv1connect.NewPingServiceHandler(&auditC11aF7Server{values: values, fail: fail}))
				server := httptest.NewUnstartedServer(mux)
				server.EnableHTTP2 = true
				server.StartTLS()
				defer server.Close()
				client := pingv1connect.NewPingServiceClient(server.Client(), server.URL, protocol.opts...)
				stream, err := client.CountUp(context.Background(), connect.NewRequest(&pingv1.CountUpRequest{Number: 1}))
				if err != nil {
					t.Fatalf("call: %v", err)
				}
				defer stream.Close()
				for stream.Receive() {
				}
				if got := stream.ResponseHeader()["X-Hdr"]; !reflect.DeepEqual(got, values) {
					t.Errorf("(%s) header X-Hdr: handler set %q, client observed %q", name, values, got)
				}
				got := stream.ResponseTrailer()["X-Trl"]
				if fail {
					var connectErr *connect.Error
					if !errors.As(stream.Err(), &connectErr) {
						t.Fatalf("expected a *connect.Error, got %v", stream.Err())
					}
					got = connectErr.Meta()["X-Trl"]
				} else if stream.Err() != nil {
					t.Fatalf("unexpected error: %v", stream.Err())
				}
				if !reflect.DeepEqual(got, values) {
					t.Errorf("C11 violated (%s): handler set trailer X-Trl=%q (printable ASCII); property expects the client to observe the values unchanged, observed %q",
						name, values, got)
				}
			})
		}
	}
}
