package connect_test

// Audit C11a, finding 3: the client's WithReadMaxBytes limit (meant for
// messages) is also applied to the in-body metadata block (Connect
// end-of-stream message, gRPC-Web trailer frame). When the handler's trailers
// are larger than the limit the block is discarded: a successful call turns
// into invalid_argument with no trailers, and on failure the handler's error
// and all of its metadata (and the response headers) are lost.

import (
	"context"
	"errors"
	"net/http"
	"net/http/httptest"
	"reflect"
	"strings"
	"testing"

	connect "github.com/bufbuild/connect-go"
	pingv1 "github.com/bufbuild/connect-go/internal/gen/connect/ping/v1"
	"github.com/bufbuild/connect-go/internal/gen/connect/ping/v1/pingv1connect"
)

type auditC11aF3Server struct {
	pingv1connect.UnimplementedPingServiceHandler
	big  string
	fail bool
}

func (s *auditC11aF3Server) CountUp(_ context.Context, _ *connect.Request[pingv1.CountUpRequest], stream *connect.ServerStream[pingv1.CountUpResponse]) error {
	stream.ResponseHeader().Add("X-Hdr", "h1")
	stream.ResponseHeader().Add("X-Hdr", "h2")
	stream.ResponseTrailer().Add("X-Trl", s.big)
	stream.ResponseTrailer().Add("X-Trl", "t2")
	if err := stream.Send(&pingv1.CountUpResponse{Number: 1}); err != nil { // a tiny message
		return err
	}
	if s.fail {
		return connect.NewError(connect.CodeAborted, errors.New("boom"))
	}
	return nil
}

func TestAuditC11aFinding3(t *testing.T) {
	const readMax = 200
	big := strings.Repeat("v", 300) // printable ASCII, a perfectly valid header value
	wantTrailer := []string{big, "t2"}
	wantHeader := []string{"h1", "h2"}
	protocols := []struct {
		name string
		opts []connect.ClientOption
	}{
		{"connect", nil},
		{"grpcweb", []connect.ClientOption{connect.WithGRPCWeb()}},
	}
	for _, protocol := range protocols {
		for _, fail := range []bool{false, true} {
			protocol, fail := protocol, fail
			name := protocol.name + "/success"
			if fail {
				name = protocol.name + "/error_after_message"
			}
			t.Run(name, func(t *testing.T) {
				mux := http.NewServeMux()
				mux.Handle(pingv1connect.NewPingServiceHandler(&auditC11aF3Server{big: big, fail: fail}))
				server := httptest.NewUnstartedServer(mux)
				server.EnableHTTP2 = true
				server.StartTLS()
				defer server.Close()
				opts := append([]connect.ClientOption{connect.WithReadMaxBytes(readMax)}, protocol.opts...)
				client := pingv1connect.NewPingServiceClient(server.Client(), server.URL, opts...)
				stream, err := client.CountUp(context.Background(), connect.NewRequest(&pingv1.CountUpRequest{Number: 1}))
				if err != nil {
					t.Fatalf("call: %v", err)
				}
				defer stream.Close()
				messages := 0
				for stream.Receive() {
					messages++
				}
				if messages != 1 {
					t.Fatalf("expected to receive 1 message, got %d", messages)
				}
				if !fail {
					if got := stream.ResponseTrailer()["X-Trl"]; !reflect.DeepEqual(got, wantTrailer) {
						t.Errorf("C11 violated (%s): handler succeeded and set 2 values for trailer X-Trl (300 bytes + \"t2\"); property expects them among the client's trailers, observed %d values; stream.Err()=%v",
							name, len(got), stream.Err())
					}
					return
				}
				var connectErr *connect.Error
				if !errors.As(stream.Err(), &connectErr) {
					t.Fatalf("expected a *connect.Error, got %v", stream.Err())
				}
				if got := connectErr.Meta()["X-Trl"]; !reflect.DeepEqual(got, wantTrailer) {
					t.Errorf("C11 violated (%s): handler failed after setting trailer X-Trl (2 values); property expects them at least in the error's metadata, observed %d values; error=%v",
						name, len(got), connectErr)
				}
				if got := connectErr.Meta()["X-Hdr"]; !reflect.DeepEqual(got, wantHeader) {
					t.Errorf("C11 violated (%s): handler failed after setting header X-Hdr=%q; property expects it at least in the error's metadata, observed %q; error=%v",
						name, wantHeader, got, connectErr)
				}
			})
		}
	}
}
