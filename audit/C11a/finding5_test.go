package connect_test

// Audit C11a, finding 5: in gRPC and gRPC-Web, when the handler's error
// cannot be marshaled into a google.rpc.Status (here: the error message is
// not valid UTF-8), grpcErrorToTrailer replaces it by an "internal" status and
// returns before merging the error's metadata into the trailers. The metadata
// the handler attached to the error - the only way a unary handler can send
// headers on failure - never reaches the client.

import (
	"context"
	"errors"
	"net/http"
	"net/http/httptest"
	"reflect"
	"testing"

	connect "github.com/bufbuild/connect-go"
	pingv1 "github.com/bufbuild/connect-go/internal/gen/connect/ping/v1"
	"github.com/bufbuild/connect-go/internal/gen/connect/ping/v1/pingv1connect"
)

type auditC11aF5Server struct {
	pingv1connect.UnimplementedPingServiceHandler
}

func (auditC11aF5Server) newError() error {
	// e.g. an error message that quotes raw bytes received from somewhere
	err := connect.NewError(connect.CodeAborted, errors.New("bad input \xff\xfe"))
	err.Meta().Add("X-Meta", "m1")
	err.Meta().Add("X-Meta", "m2")
	err.Meta().Add("X-Meta-Bin", connect.EncodeBinaryHeader([]byte{0xff, 0xfe}))
	return err
}

func (s auditC11aF5Server) Ping(_ context.Context, _ *connect.Request[pingv1.PingRequest]) (*connect.Response[pingv1.PingResponse], error) {
	return nil, s.newError()
}

func (s auditC11aF5Server) CountUp(_ context.Context, _ *connect.Request[pingv1.CountUpRequest], stream *connect.ServerStream[pingv1.CountUpResponse]) error {
	if err := stream.Send(&pingv1.CountUpResponse{Number: 1}); err != nil {
		return err
	}
	return s.newError()
}

func TestAuditC11aFinding5(t *testing.T) {
	mux := http.NewServeMux()
	mux.Handle(pingv1connect.NewPingServiceHandler(auditC11aF5Server{}))
	server := httptest.NewUnstartedServer(mux)
	server.EnableHTTP2 = true
	server.StartTLS()
	defer server.Close()

	want := http.Header{
		"X-Meta":     {"m1", "m2"},
		"X-Meta-Bin": {connect.EncodeBinaryHeader([]byte{0xff, 0xfe})},
	}
	check := func(t *testing.T, what string, err error) {
		t.Helper()
		var connectErr *connect.Error
		if !errors.As(err, &connectErr) {
			t.Fatalf("%s: expected a *connect.Error, got %v", what, err)
		}
		for key, values := range want {
			if got := connectErr.Meta()[key]; !reflect.DeepEqual(got, values) {
				t.Errorf("C11 violated (%s): handler failed with error metadata %s=%q; property expects it in the client error's metadata, observed %q (client error: %v)",
					what, key, values, got, connectErr)
			}
		}
	}
	protocols := []struct {
		name string
		opt  connect.ClientOption
	}{
		{"grpc", connect.WithGRPC()},
		{"grpcweb", connect.WithGRPCWeb()},
	}
	for _, protocol := range protocols {
		protocol := protocol
		t.Run(protocol.name+"/unary_error_before_first_message", func(t *testing.T) {
			client := pingv1connect.NewPingServiceClient(server.Client(), server.URL, protocol.opt)
			_, err := client.Ping(context.Background(), connect.NewRequest(&pingv1.PingRequest{}))
			check(t, protocol.name+" unary", err)
		})
		t.Run(protocol.name+"/server_stream_error_after_message", func(t *testing.T) {
			client := pingv1connect.NewPingServiceClient(server.Client(), server.URL, protocol.opt)
			stream, err := client.CountUp(context.Background(), connect.NewRequest(&pingv1.CountUpRequest{Number: 1}))
			if err != nil {
				t.Fatalf("call: %v", err)
			}
			defer stream.Close()
			for stream.Receive() {
			}
			check(t, protocol.name+" server stream", stream.Err())
		})
	}
}
