package connect_test

// Audit C11a, finding 2: calling Receive again after the stream has ended
// re-merges the trailers, so every trailer value the handler set shows up
// twice (three times after another call, ...) in ResponseTrailer() and in the
// error's metadata.

import (
	"context"
	"errors"
	"net/http"
	"net/http/httptest"
	"reflect"
	"testing"

	connect "github.com/bufbuild/connect-go"
	pingv1 "github.com/bufbuild/connect-go/internal/gen/connect/ping/v1"
	"github.com/bufbuild/connect-go/internal/gen/connect/ping/v1/pingv1connect"
)

type auditC11aF2Server struct {
	pingv1connect.UnimplementedPingServiceHandler
	fail bool
}

func (s *auditC11aF2Server) CumSum(_ context.Context, stream *connect.BidiStream[pingv1.CumSumRequest, pingv1.CumSumResponse]) error {
	for {
		if _, err := stream.Receive(); err != nil {
			break
		}
	}
	stream.ResponseTrailer().Add("X-Trl", "t1")
	stream.ResponseTrailer().Add("X-Trl", "t2")
	if err := stream.Send(&pingv1.CumSumResponse{Sum: 1}); err != nil {
		return err
	}
	if s.fail {
		return connect.NewError(connect.CodeAborted, errors.New("boom"))
	}
	return nil
}

func TestAuditC11aFinding2(t *testing.T) {
	want := []string{"t1", "t2"}
	protocols := []struct {
		name string
		opts []connect.ClientOption
	}{
		{"connect", nil},
		{"grpc", []connect.ClientOption{connect.WithGRPC()}},
		{"grpcweb", []connect.ClientOption{connect.WithGRPCWeb()}},
	}
	for _, protocol := range protocols {
		for _, fail := range []bool{false, true} {
			protocol, fail := protocol, fail
			name := protocol.name + "/success"
			if fail {
				name = protocol.name + "/error_after_message"
			}
			t.Run(name, func(t *testing.T) {
				mux := http.NewServeMux()
				mux.Handle(pingv1connect.NewPingServiceHandler(&auditC11aF2Server{fail: fail}))
				server := httptest.NewUnstartedServer(mux)
				server.EnableHTTP2 = true
				server.StartTLS()
				defer server.Close()
				client := pingv1connect.NewPingServiceClient(server.Client(), server.URL, protocol.opts...)
				stream := client.CumSum(context.Background())
				if err := stream.Send(&pingv1.CumSumRequest{Number: 1}); err != nil {
					t.Fatalf("send: %v", err)
				}
				if err := stream.CloseRequest(); err != nil {
					t.Fatalf("close request: %v", err)
				}
				if _, err := stream.Receive(); err != nil {
					t.Fatalf("first receive: %v", err)
				}
				_, endErr := stream.Receive() // end of stream (EOF or the handler's error)
				if endErr == nil {
					t.Fatalf("expected the stream to end")
				}
				if got := stream.ResponseTrailer()["X-Trl"]; !reflect.DeepEqual(got, want) {
					t.Fatalf("after the stream ended: trailer X-Trl = %q, want %q", got, want)
				}
				// Asking again must not change what the handler sent.
				_, againErr := stream.Receive()
				if againErr == nil {
					t.Fatalf("expected an error from Receive after the end of the stream")
				}
				if got := stream.ResponseTrailer()["X-Trl"]; !reflect.DeepEqual(got, want) {
					t.Errorf("C11 violated (%s): handler set trailer X-Trl=%q; property expects the client to observe the values unchanged, but after one more Receive() ResponseTrailer()[X-Trl]=%q",
						name, want, got)
				}
				if fail {
					var connectErr *connect.Error
					if errors.As(againErr, &connectErr) && connectErr.Code() == connect.CodeAborted {
						if got := connectErr.Meta()["X-Trl"]; !reflect.DeepEqual(got, want) {
							t.Errorf("C11 violated (%s): error metadata X-Trl=%q, want %q", name, got, want)
						}
					}
				}
				_ = stream.CloseResponse()
			})
		}
	}
}
