package connect_test

// Audit C11a, finding 1: over gRPC on HTTP/2, response trailers (and error
// metadata, which gRPC carries as trailers) whose names are on net/http's
// "forbidden trailer" list are silently dropped by the handler side.

import (
	"context"
	"errors"
	"net/http"
	"net/http/httptest"
	"reflect"
	"testing"

	connect "github.com/bufbuild/connect-go"
	pingv1 "github.com/bufbuild/connect-go/internal/gen/connect/ping/v1"
	"github.com/bufbuild/connect-go/internal/gen/connect/ping/v1/pingv1connect"
)

type auditC11aF1Server struct {
	pingv1connect.UnimplementedPingServiceHandler
	trailer http.Header
	fail    bool
}

func (s *auditC11aF1Server) Ping(_ context.Context, _ *connect.Request[pingv1.PingRequest]) (*connect.Response[pingv1.PingResponse], error) {
	if s.fail {
		err := connect.NewError(connect.CodeUnauthenticated, errors.New("no token"))
		for k, vs := range s.trailer {
			for _, v := range vs {
				err.Meta().Add(k, v)
			}
		}
		return nil, err
	}
	res := connect.NewResponse(&pingv1.PingResponse{})
	for k, vs := range s.trailer {
		for _, v := range vs {
			res.Trailer().Add(k, v)
		}
	}
	return res, nil
}

func TestAuditC11aFinding1(t *testing.T) {
	// All valid header names, none under Connect-/Grpc-/Trailer- prefixes.
	want := http.Header{
		"Www-Authenticate": {"Bearer realm=x", "Basic"},
		"Cache-Control":    {"no-store"},
		"If-Match":         {"abc"},
		"X-Plain":          {"p1", "p2"}, // control: this one survives
	}
	for _, fail := range []bool{false, true} {
		fail := fail
		name := "success_trailers"
		if fail {
			name = "error_metadata"
		}
		t.Run(name, func(t *testing.T) {
			mux := http.NewServeMux()
			mux.Handle(pingv1connect.NewPingServiceHandler(&auditC11aF1Server{trailer: want, fail: fail}))
			server := httptest.NewUnstartedServer(mux)
			server.EnableHTTP2 = true
			server.StartTLS()
			defer server.Close()
			client := pingv1connect.NewPingServiceClient(server.Client(), server.URL, connect.WithGRPC())
			res, err := client.Ping(context.Background(), connect.NewRequest(&pingv1.PingRequest{}))
			var got http.Header
			if fail {
				var connectErr *connect.Error
				if !errors.As(err, &connectErr) {
					t.Fatalf("expected a *connect.Error, got %v", err)
				}
				got = connectErr.Meta()
			} else {
				if err != nil {
					t.Fatalf("unexpected error: %v", err)
				}
				got = res.Trailer()
			}
			for key, values := range want {
				if !reflect.DeepEqual(got[key], values) {
					t.Errorf("C11 violated (gRPC, unary, %s): handler set %s=%q; property expects the client to observe exactly these values, observed %q",
						name, key, values, got[key])
				}
			}
		})
	}
}
