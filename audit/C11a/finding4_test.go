package connect_test

// Audit C11a, finding 4: in the Connect protocol, an error carrying a detail
// whose Any type is not linked into the server binary (for example a detail
// relayed from another backend) cannot be serialized to JSON. The handler
// side then sends no error body / no end-of-stream message, and the client
// reports an error without any metadata: the response headers, trailers and
// error metadata that the handler set are not in the error's metadata. The
// same handler works over gRPC and gRPC-Web.

import (
	"context"
	"errors"
	"net/http"
	"net/http/httptest"
	"reflect"
	"testing"

	connect "github.com/bufbuild/connect-go"
	pingv1 "github.com/bufbuild/connect-go/internal/gen/connect/ping/v1"
	"github.com/bufbuild/connect-go/internal/gen/connect/ping/v1/pingv1connect"
	"google.golang.org/protobuf/types/known/anypb"
)

type auditC11aF4Server struct {
	pingv1connect.UnimplementedPingServiceHandler
}

func (auditC11aF4Server) newError() error {
	err := connect.NewError(connect.CodeAborted, errors.New("boom"))
	err.Meta().Add("X-Meta", "m1")
	err.Meta().Add("X-Meta", "m2")
	// *anypb.Any implements connect.ErrorDetail; the type is unknown to this
	// process's protobuf registry.
	err.AddDetail(&anypb.Any{TypeUrl: "type.googleapis.com/acme.other.v1.Thing", Value: []byte{8, 1}})
	return err
}

func (s auditC11aF4Server) Ping(_ context.Context, _ *connect.Request[pingv1.PingRequest]) (*connect.Response[pingv1.PingResponse], error) {
	return nil, s.newError()
}

func (s auditC11aF4Server) CountUp(_ context.Context, _ *connect.Request[pingv1.CountUpRequest], stream *connect.ServerStream[pingv1.CountUpResponse]) error {
	stream.ResponseHeader().Add("X-Hdr", "h1")
	stream.ResponseTrailer().Add("X-Trl", "t1")
	if err := stream.Send(&pingv1.CountUpResponse{Number: 1}); err != nil {
		return err
	}
	return s.newError()
}

func TestAuditC11aFinding4(t *testing.T) {
	mux := http.NewServeMux()
	mux.Handle(pingv1connect.NewPingServiceHandler(auditC11aF4Server{}))
	server := httptest.NewUnstartedServer(mux)
	server.EnableHTTP2 = true
	server.StartTLS()
	defer server.Close()

	check := func(t *testing.T, what string, err error, want http.Header) {
		t.Helper()
		var connectErr *connect.Error
		if !errors.As(err, &connectErr) {
			t.Fatalf("%s: expected a *connect.Error, got %v", what, err)
		}
		for key, values := range want {
			if got := connectErr.Meta()[key]; !reflect.DeepEqual(got, values) {
				t.Errorf("C11 violated (%s): handler failed after setting %s=%q; property expects it at least in the error's metadata, observed %q (client error: %v)",
					what, key, values, got, connectErr)
			}
		}
	}

	// Control: gRPC delivers everything.
	t.Run("grpc_control", func(t *testing.T) {
		client := pingv1connect.NewPingServiceClient(server.Client(), server.URL, connect.WithGRPC())
		_, err := client.Ping(context.Background(), connect.NewRequest(&pingv1.PingRequest{}))
		check(t, "grpc unary", err, http.Header{"X-Meta": {"m1", "m2"}})
	})
	t.Run("connect_unary_error_before_first_message", func(t *testing.T) {
		client := pingv1connect.NewPingServiceClient(server.Client(), server.URL)
		_, err := client.Ping(context.Background(), connect.NewRequest(&pingv1.PingRequest{}))
		check(t, "connect unary", err, http.Header{"X-Meta": {"m1", "m2"}})
	})
	t.Run("connect_server_stream_error_after_message", func(t *testing.T) {
		client := pingv1connect.NewPingServiceClient(server.Client(), server.URL)
		stream, err := client.CountUp(context.Background(), connect.NewRequest(&pingv1.CountUpRequest{Number: 1}))
		if err != nil {
			t.Fatalf("call: %v", err)
		}
		defer stream.Close()
		for stream.Receive() {
		}
		check(t, "connect server stream", stream.Err(), http.Header{
			"X-Meta": {"m1", "m2"},
			"X-Hdr":  {"h1"},
			"X-Trl":  {"t1"},
		})
	})
}
