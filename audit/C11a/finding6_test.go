package connect_test

// Audit C11a, finding 6: a User-Agent header attached by the caller is
// replaced by the library's own User-Agent for unary and server-streaming
// calls (and only for those: for client-streaming and bidi calls the caller's
// value wins), so the handler never sees the value the client attached.

import (
	"context"
	"net/http"
	"net/http/httptest"
	"reflect"
	"testing"

	connect "github.com/bufbuild/connect-go"
	pingv1 "github.com/bufbuild/connect-go/internal/gen/connect/ping/v1"
	"github.com/bufbuild/connect-go/internal/gen/connect/ping/v1/pingv1connect"
)

type auditC11aF6Server struct {
	pingv1connect.UnimplementedPingServiceHandler
	seen chan http.Header
}

func (s *auditC11aF6Server) Ping(_ context.Context, req *connect.Request[pingv1.PingRequest]) (*connect.Response[pingv1.PingResponse], error) {
	s.seen <- req.Header().Clone()
	return connect.NewResponse(&pingv1.PingResponse{}), nil
}

func (s *auditC11aF6Server) Sum(_ context.Context, stream *connect.ClientStream[pingv1.SumRequest]) (*connect.Response[pingv1.SumResponse], error) {
	s.seen <- stream.RequestHeader().Clone()
	for stream.Receive() {
	}
	return connect.NewResponse(&pingv1.SumResponse{}), nil
}

func (s *auditC11aF6Server) CountUp(_ context.Context, req *connect.Request[pingv1.CountUpRequest], _ *connect.ServerStream[pingv1.CountUpResponse]) error {
	s.seen <- req.Header().Clone()
	return nil
}

func TestAuditC11aFinding6(t *testing.T) {
	const userAgent = "my-agent/1.0"
	want := []string{userAgent}
	protocols := []struct {
		name string
		opts []connect.ClientOption
	}{
		{"connect", nil},
		{"grpc", []connect.ClientOption{connect.WithGRPC()}},
		{"grpcweb", []connect.ClientOption{connect.WithGRPCWeb()}},
	}
	for _, protocol := range protocols {
		protocol := protocol
		t.Run(protocol.name, func(t *testing.T) {
			handler := &auditC11aF6Server{seen: make(chan http.Header, 1)}
			mux := http.NewServeMux()
			mux.Handle(pingv1connect.NewPingServiceHandler(handler))
			server := httptest.NewUnstartedServer(mux)
			server.EnableHTTP2 = true
			server.StartTLS()
			defer server.Close()
			client := pingv1connect.NewPingServiceClient(server.Client(), server.URL, protocol.opts...)

			// Control: client streaming - the caller's value reaches the handler.
			clientStream := client.Sum(context.Background())
			clientStream.RequestHeader().Set("User-Agent", userAgent)
			clientStream.RequestHeader().Set("X-Other", "o")
			_ = clientStream.Send(&pingv1.SumRequest{})
			if _, err := clientStream.CloseAndReceive(); err != nil {
				t.Fatalf("client stream: %v", err)
			}
			if got := (<-handler.seen)["User-Agent"]; !reflect.DeepEqual(got, want) {
				t.Errorf("client stream (control): handler saw User-Agent=%q, want %q", got, want)
			}

			unary := connect.NewRequest(&pingv1.PingRequest{})
			unary.Header().Set("User-Agent", userAgent)
			unary.Header().Set("X-Other", "o")
			if _, err := client.Ping(context.Background(), unary); err != nil {
				t.Fatalf("unary: %v", err)
			}
			seen := <-handler.seen
			if seen.Get("X-Other") != "o" {
				t.Fatalf("unary: handler did not even see X-Other")
			}
			if got := seen["User-Agent"]; !reflect.DeepEqual(got, want) {
				t.Errorf("C11 violated (%s, unary): client attached User-Agent=%q; property expects the handler to see it, handler saw %q",
					protocol.name, want, got)
			}

			serverStream := connect.NewRequest(&pingv1.CountUpRequest{Number: 1})
			serverStream.Header().Set("User-Agent", userAgent)
			stream, err := client.CountUp(context.Background(), serverStream)
			if err != nil {
				t.Fatalf("server stream: %v", err)
			}
			for stream.Receive() {
			}
			_ = stream.Close()
			if got := (<-handler.seen)["User-Agent"]; !reflect.DeepEqual(got, want) {
				t.Errorf("C11 violated (%s, server stream): client attached User-Agent=%q; property expects the handler to see it, handler saw %q",
					protocol.name, want, got)
			}
		})
	}
}
