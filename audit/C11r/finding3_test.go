package connect_test

import (
	"context"
	"net/http"
	"net/http/httptest"
	"strings"
	"testing"

	"github.com/bufbuild/connect-go"
	pingv1 "github.com/bufbuild/connect-go/internal/gen/connect/ping/v1"
	"github.com/bufbuild/connect-go/internal/gen/connect/ping/v1/pingv1connect"
)

var auditC11rF3Value = strings.Repeat("v", 300)

type auditC11rF3Server struct {
	pingv1connect.UnimplementedPingServiceHandler
}

func (auditC11rF3Server) Ping(
	context.Context,
	*connect.Request[pingv1.PingRequest],
) (*connect.Response[pingv1.PingResponse], error) {
	response := connect.NewResponse(&pingv1.PingResponse{Number: 1})
	response.Trailer().Set("X-Trailer", auditC11rF3Value)
	return response, nil
}

func (auditC11rF3Server) CountUp(
	_ context.Context,
	_ *connect.Request[pingv1.CountUpRequest],
	stream *connect.ServerStream[pingv1.CountUpResponse],
) error {
	stream.ResponseTrailer().Set("X-Trailer", auditC11rF3Value)
	return stream.Send(&pingv1.CountUpResponse{Number: 1})
}

// C11: every trailer the handler sets is visible to the client in all
// protocols and RPC kinds. The client limits the size of the *messages* it is
// willing to read (WithReadMaxBytes(128)); every message of the response is 2
// bytes long. The handler sets one 300-byte trailer value.
func TestAuditC11rFinding3(t *testing.T) {
	mux := http.NewServeMux()
	mux.Handle(pingv1connect.NewPingServiceHandler(auditC11rF3Server{}))
	server := httptest.NewUnstartedServer(mux)
	server.EnableHTTP2 = true
	server.StartTLS()
	t.Cleanup(server.Close)
	for _, protocol := range []struct {
		name string
		opts []connect.ClientOption
	}{
		{"connect", nil},
		{"grpc", []connect.ClientOption{connect.WithGRPC()}},
		{"grpcweb", []connect.ClientOption{connect.WithGRPCWeb()}},
	} {
		protocol := protocol
		t.Run(protocol.name, func(t *testing.T) {
			opts := append([]connect.ClientOption{connect.WithReadMaxBytes(128)}, protocol.opts...)
			client := pingv1connect.NewPingServiceClient(server.Client(), server.URL, opts...)

			response, err := client.Ping(context.Background(), connect.NewRequest(&pingv1.PingRequest{}))
			if err != nil {
				t.Errorf("C11 violated: unary: expected success with trailer X-Trailer (300 bytes) visible; the call failed with %q and no trailers are available", err)
			} else if got := response.Trailer().Get("X-Trailer"); got != auditC11rF3Value {
				t.Errorf("C11 violated: unary: expected trailer X-Trailer of 300 bytes, got %q", got)
			}

			stream, err := client.CountUp(context.Background(), connect.NewRequest(&pingv1.CountUpRequest{Number: 1}))
			if err != nil {
				t.Fatal(err)
			}
			defer stream.Close()
			messages := 0
			for stream.Receive() {
				messages++
			}
			if messages != 1 {
				t.Errorf("server stream: expected 1 message, got %d", messages)
			}
			if got := stream.ResponseTrailer().Get("X-Trailer"); got != auditC11rF3Value {
				t.Errorf("C11 violated: server stream: the handler succeeded and set trailer X-Trailer (300 bytes); the client observes trailer %q and stream error %v", got, stream.Err())
			}
		})
	}
}
