package connect_test

import (
	"context"
	"errors"
	"net/http"
	"net/http/httptest"
	"testing"

	"github.com/bufbuild/connect-go"
	pingv1 "github.com/bufbuild/connect-go/internal/gen/connect/ping/v1"
	"github.com/bufbuild/connect-go/internal/gen/connect/ping/v1/pingv1connect"
)

// Valid header names, none of them under a prefix reserved by the Connect,
// gRPC or gRPC-Web protocols. X-Control is there to show that the test itself
// works.
var auditC11rF4Names = []string{"Www-Authenticate", "Cache-Control", "Authorization", "Pragma", "If-Match", "X-Control"}

type auditC11rF4Server struct {
	pingv1connect.UnimplementedPingServiceHandler
}

func (auditC11rF4Server) Ping(
	context.Context,
	*connect.Request[pingv1.PingRequest],
) (*connect.Response[pingv1.PingResponse], error) {
	err := connect.NewError(connect.CodeUnauthenticated, errors.New("who are you"))
	for _, name := range auditC11rF4Names {
		err.Meta().Set(name, "v")
	}
	return nil, err
}

func (auditC11rF4Server) CountUp(
	_ context.Context,
	_ *connect.Request[pingv1.CountUpRequest],
	stream *connect.ServerStream[pingv1.CountUpResponse],
) error {
	for _, name := range auditC11rF4Names {
		stream.ResponseTrailer().Set(name, "v")
	}
	return stream.Send(&pingv1.CountUpResponse{Number: 1})
}

// C11: every response header and trailer the handler sets is visible to the
// client in all protocols: on success among the trailers, on failure at least
// in the error's metadata.
func TestAuditC11rFinding4(t *testing.T) {
	mux := http.NewServeMux()
	mux.Handle(pingv1connect.NewPingServiceHandler(auditC11rF4Server{}))
	server := httptest.NewUnstartedServer(mux)
	server.EnableHTTP2 = true // gRPC's transport
	server.StartTLS()
	t.Cleanup(server.Close)
	for _, protocol := range []struct {
		name string
		opts []connect.ClientOption
	}{
		{"connect", nil},
		{"grpc", []connect.ClientOption{connect.WithGRPC()}},
		{"grpcweb", []connect.ClientOption{connect.WithGRPCWeb()}},
	} {
		protocol := protocol
		t.Run(protocol.name, func(t *testing.T) {
			client := pingv1connect.NewPingServiceClient(server.Client(), server.URL, protocol.opts...)

			_, err := client.Ping(context.Background(), connect.NewRequest(&pingv1.PingRequest{}))
			var connectErr *connect.Error
			if !errors.As(err, &connectErr) || connectErr.Code() != connect.CodeUnauthenticated {
				t.Fatalf("unary: expected the handler's error, got %v", err)
			}
			for _, name := range auditC11rF4Names {
				if got := connectErr.Meta().Values(name); len(got) != 1 || got[0] != "v" {
					t.Errorf("C11 violated: unary, failing: the handler's error carries %s: [v]; the metadata of the client's error has %s: %q", name, name, got)
				}
			}

			stream, err := client.CountUp(context.Background(), connect.NewRequest(&pingv1.CountUpRequest{Number: 1}))
			if err != nil {
				t.Fatal(err)
			}
			defer stream.Close()
			for stream.Receive() {
			}
			if err := stream.Err(); err != nil {
				t.Fatalf("server stream: %v", err)
			}
			for _, name := range auditC11rF4Names {
				if got := stream.ResponseTrailer().Values(name); len(got) != 1 || got[0] != "v" {
					t.Errorf("C11 violated: server stream, success: the handler set trailer %s: [v]; the client's trailers have %s: %q", name, name, got)
				}
			}
		})
	}
}
