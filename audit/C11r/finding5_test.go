package connect_test

import (
	"context"
	"net/http"
	"net/http/httptest"
	"sync"
	"testing"

	"github.com/bufbuild/connect-go"
	pingv1 "github.com/bufbuild/connect-go/internal/gen/connect/ping/v1"
	"github.com/bufbuild/connect-go/internal/gen/connect/ping/v1/pingv1connect"
)

type auditC11rF5Server struct {
	pingv1connect.UnimplementedPingServiceHandler

	mu   sync.Mutex
	seen []string
}

func (s *auditC11rF5Server) record(header http.Header) {
	s.mu.Lock()
	defer s.mu.Unlock()
	s.seen = header.Values("User-Agent")
}

func (s *auditC11rF5Server) last() []string {
	s.mu.Lock()
	defer s.mu.Unlock()
	return s.seen
}

func (s *auditC11rF5Server) Ping(
	_ context.Context,
	request *connect.Request[pingv1.PingRequest],
) (*connect.Response[pingv1.PingResponse], error) {
	s.record(request.Header())
	return connect.NewResponse(&pingv1.PingResponse{}), nil
}

func (s *auditC11rF5Server) CountUp(
	_ context.Context,
	request *connect.Request[pingv1.CountUpRequest],
	_ *connect.ServerStream[pingv1.CountUpResponse],
) error {
	s.record(request.Header())
	return nil
}

func (s *auditC11rF5Server) Sum(
	_ context.Context,
	stream *connect.ClientStream[pingv1.SumRequest],
) (*connect.Response[pingv1.SumResponse], error) {
	s.record(stream.RequestHeader())
	for stream.Receive() {
	}
	return connect.NewResponse(&pingv1.SumResponse{}), nil
}

// C11: "Every header a client attaches to a call is visible to the handler."
// User-Agent is a valid header name and not under a protocol-reserved prefix
// (Connect-, Grpc-, Trailer-).
func TestAuditC11rFinding5(t *testing.T) {
	const agent = "my-agent/1.0"
	svc := &auditC11rF5Server{}
	mux := http.NewServeMux()
	mux.Handle(pingv1connect.NewPingServiceHandler(svc))
	server := httptest.NewUnstartedServer(mux)
	server.EnableHTTP2 = true
	server.StartTLS()
	t.Cleanup(server.Close)
	contains := func(values []string) bool {
		for _, value := range values {
			if value == agent {
				return true
			}
		}
		return false
	}
	for _, protocol := range []struct {
		name string
		opts []connect.ClientOption
	}{
		{"connect", nil},
		{"grpc", []connect.ClientOption{connect.WithGRPC()}},
		{"grpcweb", []connect.ClientOption{connect.WithGRPCWeb()}},
	} {
		protocol := protocol
		t.Run(protocol.name, func(t *testing.T) {
			client := pingv1connect.NewPingServiceClient(server.Client(), server.URL, protocol.opts...)

			// Control: on a client stream the caller's value reaches the handler.
			clientStream := client.Sum(context.Background())
			clientStream.RequestHeader().Set("User-Agent", agent)
			_ = clientStream.Send(&pingv1.SumRequest{})
			if _, err := clientStream.CloseAndReceive(); err != nil {
				t.Fatal(err)
			}
			if got := svc.last(); !contains(got) {
				t.Errorf("client stream: expected the handler to see User-Agent %q, it saw %q", agent, got)
			}

			unary := connect.NewRequest(&pingv1.PingRequest{})
			unary.Header().Set("User-Agent", agent)
			if _, err := client.Ping(context.Background(), unary); err != nil {
				t.Fatal(err)
			}
			if got := svc.last(); !contains(got) {
				t.Errorf("C11 violated: unary: the client attached User-Agent: %q to the call; the handler sees User-Agent: %q", agent, got)
			}

			serverStream := connect.NewRequest(&pingv1.CountUpRequest{})
			serverStream.Header().Set("User-Agent", agent)
			stream, err := client.CountUp(context.Background(), serverStream)
			if err != nil {
				t.Fatal(err)
			}
			for stream.Receive() {
			}
			_ = stream.Close()
			if got := svc.last(); !contains(got) {
				t.Errorf("C11 violated: server stream: the client attached User-Agent: %q to the call; the handler sees User-Agent: %q", agent, got)
			}
		})
	}
}
