package connect_test

import (
	"context"
	"errors"
	"net/http"
	"net/http/httptest"
	"testing"

	"github.com/bufbuild/connect-go"
	pingv1 "github.com/bufbuild/connect-go/internal/gen/connect/ping/v1"
	"github.com/bufbuild/connect-go/internal/gen/connect/ping/v1/pingv1connect"
)

// Printable ASCII (0x20-0x7E), beginning and ending with a space.
const auditC11rF6Value = " a b "

type auditC11rF6Server struct {
	pingv1connect.UnimplementedPingServiceHandler

	fail bool
}

func (s *auditC11rF6Server) CountUp(
	_ context.Context,
	request *connect.Request[pingv1.CountUpRequest],
	stream *connect.ServerStream[pingv1.CountUpResponse],
) error {
	stream.ResponseHeader().Set("X-Header", auditC11rF6Value)
	stream.ResponseHeader().Set("X-Request-Echo", request.Header().Get("X-Request"))
	stream.ResponseTrailer().Set("X-Trailer", auditC11rF6Value)
	if err := stream.Send(&pingv1.CountUpResponse{Number: 1}); err != nil {
		return err
	}
	if s.fail {
		err := connect.NewError(connect.CodeAborted, errors.New("nope"))
		err.Meta().Set("X-Meta", auditC11rF6Value)
		return err
	}
	return nil
}

// C11: headers and trailers are visible "with values unchanged", for all
// printable-ASCII values, in all protocols. Over HTTP/2 a value that begins and
// ends with a space is carried unchanged in request headers, response headers,
// HTTP trailers (gRPC) and Connect's end-of-stream metadata - the test checks
// that - but not in gRPC-Web's trailers.
func TestAuditC11rFinding6(t *testing.T) {
	for _, fail := range []bool{false, true} {
		mux := http.NewServeMux()
		mux.Handle(pingv1connect.NewPingServiceHandler(&auditC11rF6Server{fail: fail}))
		server := httptest.NewUnstartedServer(mux)
		server.EnableHTTP2 = true
		server.StartTLS()
		t.Cleanup(server.Close)
		for _, protocol := range []struct {
			name string
			opts []connect.ClientOption
		}{
			{"connect", nil},
			{"grpc", []connect.ClientOption{connect.WithGRPC()}},
			{"grpcweb", []connect.ClientOption{connect.WithGRPCWeb()}},
		} {
			protocol := protocol
			name := protocol.name + "/success"
			if fail {
				name = protocol.name + "/error_after_message"
			}
			t.Run(name, func(t *testing.T) {
				client := pingv1connect.NewPingServiceClient(server.Client(), server.URL, protocol.opts...)
				request := connect.NewRequest(&pingv1.CountUpRequest{Number: 1})
				request.Header().Set("X-Request", auditC11rF6Value)
				stream, err := client.CountUp(context.Background(), request)
				if err != nil {
					t.Fatal(err)
				}
				defer stream.Close()
				for stream.Receive() {
				}
				if got := stream.ResponseHeader().Get("X-Request-Echo"); got != auditC11rF6Value {
					t.Errorf("request header: client attached %q, handler saw %q", auditC11rF6Value, got)
				}
				if got := stream.ResponseHeader().Get("X-Header"); got != auditC11rF6Value {
					t.Errorf("response header: handler set %q, client sees %q", auditC11rF6Value, got)
				}
				if got := stream.ResponseTrailer().Get("X-Trailer"); got != auditC11rF6Value {
					t.Errorf("C11 violated: the handler set trailer X-Trailer: %q; the client observes %q (values must be unchanged)", auditC11rF6Value, got)
				}
				if fail {
					var connectErr *connect.Error
					if !errors.As(stream.Err(), &connectErr) || connectErr.Code() != connect.CodeAborted {
						t.Fatalf("expected the handler's error, got %v", stream.Err())
					}
					if got := connectErr.Meta().Get("X-Meta"); got != auditC11rF6Value {
						t.Errorf("C11 violated: the handler's error carries X-Meta: %q; the client's error has %q (values must be unchanged)", auditC11rF6Value, got)
					}
				}
			})
		}
	}
}
