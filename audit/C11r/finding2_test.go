package connect_test

import (
	"context"
	"errors"
	"net/http"
	"net/http/httptest"
	"testing"

	"github.com/bufbuild/connect-go"
	pingv1 "github.com/bufbuild/connect-go/internal/gen/connect/ping/v1"
	"github.com/bufbuild/connect-go/internal/gen/connect/ping/v1/pingv1connect"
	"google.golang.org/protobuf/types/known/anypb"
)

// The handler fails with an error that carries metadata and one detail: an
// Any whose message type is not linked into this binary (as in a gateway that
// passes on the details it got from an upstream service).
func auditC11rF2Error() error {
	err := connect.NewError(connect.CodeFailedPrecondition, errors.New("boom"))
	err.Meta().Set("X-Meta", "m")
	err.AddDetail(&anypb.Any{
		TypeUrl: "type.googleapis.com/acme.upstream.v1.Thing",
		Value:   []byte{8, 1},
	})
	return err
}

type auditC11rF2Server struct {
	pingv1connect.UnimplementedPingServiceHandler
}

func (auditC11rF2Server) Ping(
	context.Context,
	*connect.Request[pingv1.PingRequest],
) (*connect.Response[pingv1.PingResponse], error) {
	return nil, auditC11rF2Error()
}

func (auditC11rF2Server) CountUp(
	_ context.Context,
	_ *connect.Request[pingv1.CountUpRequest],
	stream *connect.ServerStream[pingv1.CountUpResponse],
) error {
	stream.ResponseHeader().Set("X-Header", "h")
	stream.ResponseTrailer().Set("X-Trailer", "t")
	return auditC11rF2Error()
}

// C11: "every response header and trailer the handler sets ... is visible to
// the client ... in all protocols and RPC kinds: ... on failure at least in the
// error's metadata."
func TestAuditC11rFinding2(t *testing.T) {
	mux := http.NewServeMux()
	mux.Handle(pingv1connect.NewPingServiceHandler(auditC11rF2Server{}))
	// A peer that has the detail's type and therefore can write it in the
	// Connect protocol's JSON form; this client doesn't have the type.
	mux.HandleFunc("/peer/connect.ping.v1.PingService/Ping", func(w http.ResponseWriter, _ *http.Request) {
		w.Header().Set("Content-Type", "application/json")
		w.Header().Set("X-Meta", "m")
		w.WriteHeader(http.StatusPreconditionFailed)
		_, _ = w.Write([]byte(`{"code":"failed_precondition","message":"boom","details":[{"@type":"type.googleapis.com/acme.upstream.v1.Thing","number":"1"}]}`))
	})
	server := httptest.NewUnstartedServer(mux)
	server.EnableHTTP2 = true
	server.StartTLS()
	t.Cleanup(server.Close)

	check := func(t *testing.T, what string, err error, keys ...string) {
		t.Helper()
		var connectErr *connect.Error
		if !errors.As(err, &connectErr) {
			t.Fatalf("%s: expected a *connect.Error, got %v", what, err)
		}
		for _, key := range keys {
			if got := connectErr.Meta().Values(key); len(got) != 1 {
				t.Errorf("C11 violated: %s: the handler set %s on a failing call, expected it in the error's metadata; error is %q with metadata %v", what, key, err, connectErr.Meta())
			}
		}
	}
	for _, protocol := range []struct {
		name string
		opts []connect.ClientOption
	}{
		{"connect", nil},
		{"grpc", []connect.ClientOption{connect.WithGRPC()}},
		{"grpcweb", []connect.ClientOption{connect.WithGRPCWeb()}},
	} {
		protocol := protocol
		t.Run(protocol.name, func(t *testing.T) {
			client := pingv1connect.NewPingServiceClient(server.Client(), server.URL, protocol.opts...)
			_, err := client.Ping(context.Background(), connect.NewRequest(&pingv1.PingRequest{}))
			check(t, "unary", err, "X-Meta")

			stream, err := client.CountUp(context.Background(), connect.NewRequest(&pingv1.CountUpRequest{Number: 1}))
			if err != nil {
				t.Fatal(err)
			}
			defer stream.Close()
			for stream.Receive() {
			}
			check(t, "server stream, error before first message", stream.Err(), "X-Meta", "X-Header", "X-Trailer")
		})
	}
	t.Run("connect_client_without_the_detail_type", func(t *testing.T) {
		client := pingv1connect.NewPingServiceClient(server.Client(), server.URL+"/peer")
		_, err := client.Ping(context.Background(), connect.NewRequest(&pingv1.PingRequest{}))
		check(t, "unary", err, "X-Meta")
	})
}
