package connect_test

import (
	"context"
	"errors"
	"io"
	"net/http"
	"net/http/httptest"
	"reflect"
	"testing"

	"github.com/bufbuild/connect-go"
	pingv1 "github.com/bufbuild/connect-go/internal/gen/connect/ping/v1"
	"github.com/bufbuild/connect-go/internal/gen/connect/ping/v1/pingv1connect"
)

type auditC11rF1Server struct {
	pingv1connect.UnimplementedPingServiceHandler

	fail bool
}

func (s *auditC11rF1Server) CumSum(
	_ context.Context,
	stream *connect.BidiStream[pingv1.CumSumRequest, pingv1.CumSumResponse],
) error {
	stream.ResponseTrailer().Add("X-Trailer", "a")
	stream.ResponseTrailer().Add("X-Trailer", "b")
	if err := stream.Send(&pingv1.CumSumResponse{Sum: 1}); err != nil {
		return err
	}
	if s.fail {
		return connect.NewError(connect.CodeAborted, errors.New("nope"))
	}
	return nil
}

// C11: trailers set by the handler are visible to the client "with values
// unchanged". The handler sets X-Trailer: [a b]. The client reads the stream to
// its end and then calls Receive once more (which again reports the end of the
// stream): the trailers it observes must still be [a b].
func TestAuditC11rFinding1(t *testing.T) {
	want := []string{"a", "b"}
	for _, fail := range []bool{false, true} {
		mux := http.NewServeMux()
		mux.Handle(pingv1connect.NewPingServiceHandler(&auditC11rF1Server{fail: fail}))
		server := httptest.NewUnstartedServer(mux)
		server.EnableHTTP2 = true
		server.StartTLS()
		t.Cleanup(server.Close)
		for _, protocol := range []struct {
			name string
			opts []connect.ClientOption
		}{
			{"connect", nil},
			{"grpc", []connect.ClientOption{connect.WithGRPC()}},
			{"grpcweb", []connect.ClientOption{connect.WithGRPCWeb()}},
		} {
			protocol := protocol
			name := protocol.name + "/success"
			if fail {
				name = protocol.name + "/error_after_message"
			}
			t.Run(name, func(t *testing.T) {
				client := pingv1connect.NewPingServiceClient(server.Client(), server.URL, protocol.opts...)
				stream := client.CumSum(context.Background())
				_ = stream.Send(&pingv1.CumSumRequest{Number: 1})
				_ = stream.CloseRequest()
				defer stream.CloseResponse()
				if _, err := stream.Receive(); err != nil {
					t.Fatalf("first Receive: %v", err)
				}
				_, err := stream.Receive()
				if fail {
					if connect.CodeOf(err) != connect.CodeAborted {
						t.Fatalf("second Receive: expected the handler's error, got %v", err)
					}
				} else if !errors.Is(err, io.EOF) {
					t.Fatalf("second Receive: expected EOF, got %v", err)
				}
				if got := stream.ResponseTrailer().Values("X-Trailer"); !reflect.DeepEqual(got, want) {
					t.Fatalf("at the end of the stream: expected trailer X-Trailer %q, got %q", want, got)
				}
				// One more Receive after the end of the stream.
				_, err = stream.Receive()
				if err == nil {
					t.Fatalf("third Receive: expected an error")
				}
				if got := stream.ResponseTrailer().Values("X-Trailer"); !reflect.DeepEqual(got, want) {
					t.Errorf("C11 violated: handler set trailer X-Trailer %q; after one more Receive at the end of the stream the client observes %q (values must be unchanged)", want, got)
				}
				if fail {
					var connectErr *connect.Error
					if errors.As(err, &connectErr) && connectErr.Code() == connect.CodeAborted {
						if got := connectErr.Meta().Values("X-Trailer"); !reflect.DeepEqual(got, want) {
							t.Errorf("C11 violated: handler set trailer X-Trailer %q; the metadata of the error returned by one more Receive has %q", want, got)
						}
					}
				}
			})
		}
	}
}
