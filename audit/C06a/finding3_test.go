//go:build linux

package connect_test

import (
	"context"
	"errors"
	"fmt"
	"io"
	"net/http"
	"net/http/httptest"
	"os"
	"os/exec"
	"strings"
	"syscall"
	"testing"
	"time"

	connect "github.com/bufbuild/connect-go"
	pingv1 "github.com/bufbuild/connect-go/internal/gen/connect/ping/v1"
	"github.com/bufbuild/connect-go/internal/gen/connect/ping/v1/pingv1connect"
)

// C06: "For any HTTP response whatsoever - any status, headers, trailers and
// body bytes - every client call terminates without panicking and either
// succeeds or returns an error that can be inspected as a Connect error".
//
// envelopeReader.Read trusts the 4-byte length in an envelope prefix and, with
// the default (unlimited) ReadMaxBytes, calls bytes.Buffer.Grow(size) before
// any payload byte has arrived. A 7-byte response body 00 FF FF FF FF 01 02
// therefore makes every enveloped client call (Connect streaming, gRPC,
// gRPC-Web; all stream types) allocate 4 GiB. In a process that can't get
// 4 GiB (here: RLIMIT_AS of 3 GiB, set in a child process) the Go runtime
// aborts the whole process with "fatal error: out of memory", which can't be
// recovered - the call neither returns nor yields a coded error.
//
// The test re-executes the test binary as a child so that the address-space
// limit and the crash don't affect the rest of the test run. A control call
// under the same limit (truncated envelope announcing 16 bytes) shows that
// the limit alone is harmless.
func TestAuditC06aFinding3(t *testing.T) {
	const (
		envMode   = "AUDIT_C06A_FINDING3_CHILD"
		returned  = "CHILD-CALL-RETURNED"
		limitGiB  = 3
		limitByte = limitGiB << 30
	)
	if mode := os.Getenv(envMode); mode != "" {
		// Child process.
		limit := syscall.Rlimit{Cur: limitByte, Max: limitByte}
		if err := syscall.Setrlimit(syscall.RLIMIT_AS, &limit); err != nil {
			fmt.Println("CHILD-SETRLIMIT-FAILED:", err)
			return
		}
		body := []byte{0, 0xff, 0xff, 0xff, 0xff, 1, 2} // flags=0, size=4294967295, then 2 bytes
		if mode == "control" {
			body = []byte{0, 0, 0, 0, 16, 1, 2} // flags=0, size=16, then 2 bytes
		}
		server := httptest.NewServer(http.HandlerFunc(func(w http.ResponseWriter, r *http.Request) {
			_, _ = io.Copy(io.Discard, r.Body)
			w.Header().Set("Content-Type", "application/grpc-web+proto")
			w.WriteHeader(http.StatusOK)
			_, _ = w.Write(body)
		}))
		defer server.Close()
		client := pingv1connect.NewPingServiceClient(server.Client(), server.URL, connect.WithGRPCWeb())
		ctx, cancel := context.WithTimeout(context.Background(), 30*time.Second)
		defer cancel()
		_, err := client.Ping(ctx, connect.NewRequest(&pingv1.PingRequest{}))
		var connectErr *connect.Error
		coded := errors.As(err, &connectErr) && connectErr.Code() != 0
		fmt.Printf("%s success=%v codedNonOK=%v err=%v\n", returned, err == nil, coded, err)
		return
	}

	runChild := func(mode string) (string, error) {
		cmd := exec.Command(os.Args[0], "-test.run", "^TestAuditC06aFinding3$", "-test.v")
		cmd.Env = append(os.Environ(), envMode+"="+mode)
		out, err := cmd.CombinedOutput()
		return string(out), err
	}
	firstLines := func(s string, n int) string {
		lines := strings.Split(s, "\n")
		if len(lines) > n {
			lines = lines[:n]
		}
		return strings.Join(lines, "\n")
	}

	control, err := runChild("control")
	if strings.Contains(control, "CHILD-SETRLIMIT-FAILED") {
		t.Skipf("can't set RLIMIT_AS here: %s", control)
	}
	if err != nil || !strings.Contains(control, returned) {
		t.Skipf("control call under a %d GiB address-space limit didn't complete (%v), environment unsuitable:\n%s",
			limitGiB, err, firstLines(control, 8))
	}

	out, err := runChild("huge")
	if err != nil || !strings.Contains(out, returned+" ") {
		t.Fatalf(
			"gRPC-Web unary call, 200 response whose 7-byte body is 00 FF FF FF FF 01 02, process limited to %d GiB of address space: "+
				"property expects the call to return (success or a coded non-OK *connect.Error) without panicking; "+
				"observed: the client process died (%v) before the call returned. Child output:\n%s",
			limitGiB, err, firstLines(out, 24),
		)
	}
	if !strings.Contains(out, "success=true") && !strings.Contains(out, "codedNonOK=true") {
		t.Fatalf("property expects success or a coded non-OK error, child reported:\n%s", firstLines(out, 8))
	}
}
