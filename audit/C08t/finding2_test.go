package connect_test

import (
	"bytes"
	"context"
	"io"
	"net/http"
	"net/http/httptest"
	"strings"
	"testing"

	"github.com/bufbuild/connect-go"
	pingv1 "github.com/bufbuild/connect-go/internal/gen/connect/ping/v1"
	"google.golang.org/protobuf/proto"
)

// Property C08: a handler compresses responses only with an algorithm that the
// client used for its request or advertised. Connect unary negotiates with the
// standard HTTP Accept-Encoding header, whose grammar (RFC 9110, 12.4.2 and
// 12.5.3) is  codings [ OWS ";" OWS "q=" qvalue ]  and in which q=0 means "not
// acceptable". A client that sends "gzip ;q=0" has therefore advertised that
// it can NOT take gzip; it sent its request uncompressed. The handler splits
// the header at commas and spaces, sees the bare token "gzip", and gzips the
// response.
func TestAuditC08tFinding2(t *testing.T) {
	server := httptest.NewServer(connect.NewUnaryHandler("/ping",
		func(_ context.Context, r *connect.Request[pingv1.PingRequest]) (*connect.Response[pingv1.PingResponse], error) {
			return connect.NewResponse(&pingv1.PingResponse{Text: r.Msg.Text}), nil
		}))
	defer server.Close()
	message := &pingv1.PingRequest{Text: strings.Repeat("compressible ", 50)}
	body, err := proto.Marshal(message)
	if err != nil {
		t.Fatal(err)
	}
	for _, acceptEncoding := range []string{
		"gzip;q=0",            // same meaning, no optional whitespace: handled
		"gzip ;q=0",           // optional whitespace before ";"
		"gzip ;q=0, identity", // the same, explicitly asking for identity
	} {
		request, err := http.NewRequest(http.MethodPost, server.URL+"/ping", bytes.NewReader(body))
		if err != nil {
			t.Fatal(err)
		}
		request.Header.Set("Content-Type", "application/proto")
		request.Header.Set("Accept-Encoding", acceptEncoding) // set explicitly: the transport leaves the body alone
		response, err := http.DefaultTransport.RoundTrip(request)
		if err != nil {
			t.Fatal(err)
		}
		responseBody, _ := io.ReadAll(response.Body)
		response.Body.Close()
		if response.StatusCode != http.StatusOK {
			t.Fatalf("Accept-Encoding %q: HTTP %d", acceptEncoding, response.StatusCode)
		}
		encoding := response.Header.Get("Content-Encoding")
		var decoded pingv1.PingResponse
		decodeErr := proto.Unmarshal(responseBody, &decoded)
		if encoding != "" || decodeErr != nil || decoded.Text != message.Text {
			t.Errorf("request sent uncompressed with Accept-Encoding: %q (gzip refused with q=0): by C08 the handler may "+
				"only compress with an algorithm the client used or advertised, so the response must be uncompressed; "+
				"observed Content-Encoding: %q, body starts % x, decoding the body as an uncompressed message: err=%v",
				acceptEncoding, encoding, responseBody[:4], decodeErr)
		}
	}
}
