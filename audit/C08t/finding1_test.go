package connect_test

import (
	"compress/flate"
	"context"
	"io"
	"net/http"
	"net/http/httptest"
	"strings"
	"sync"
	"testing"

	"github.com/bufbuild/connect-go"
	pingv1 "github.com/bufbuild/connect-go/internal/gen/connect/ping/v1"
)

// A second algorithm next to the built-in gzip: raw DEFLATE.
type auditC08tF1FlateReader struct{ io.ReadCloser }

func (r *auditC08tF1FlateReader) Reset(src io.Reader) error {
	return r.ReadCloser.(flate.Resetter).Reset(src, nil)
}

func auditC08tF1NewDecompressor() connect.Decompressor {
	return &auditC08tF1FlateReader{flate.NewReader(strings.NewReader(""))}
}

func auditC08tF1NewCompressor() connect.Compressor {
	w, _ := flate.NewWriter(io.Discard, flate.DefaultCompression)
	return w
}

// Records the headers of the last exchange.
type auditC08tF1Recorder struct {
	base http.RoundTripper
	mu   sync.Mutex
	req  http.Header
	resp http.Header
}

func (r *auditC08tF1Recorder) RoundTrip(req *http.Request) (*http.Response, error) {
	r.mu.Lock()
	r.req = req.Header.Clone()
	r.mu.Unlock()
	resp, err := r.base.RoundTrip(req)
	if err == nil {
		r.mu.Lock()
		r.resp = resp.Header.Clone()
		r.mu.Unlock()
	}
	return resp, err
}

// Property C08: the handler compresses the response with "the client's
// most-preferred mutually supported" algorithm. The client below registers
// deflate after gzip, so deflate is its most preferred algorithm (it is sent
// first in the accept-encoding header), and the handler supports deflate too.
// As soon as the client compresses its *request* with gzip (which it may: it
// is free to pick any registered algorithm for sending), the handler answers
// in gzip - the client's least preferred algorithm - although the very same
// client, sending the same request uncompressed, is answered in deflate.
func TestAuditC08tFinding1(t *testing.T) {
	text := strings.Repeat("compressible ", 100)
	mux := http.NewServeMux()
	handlerOpt := connect.WithCompression("deflate", auditC08tF1NewDecompressor, auditC08tF1NewCompressor)
	mux.Handle("/unary", connect.NewUnaryHandler("/unary",
		func(_ context.Context, r *connect.Request[pingv1.PingRequest]) (*connect.Response[pingv1.PingResponse], error) {
			return connect.NewResponse(&pingv1.PingResponse{Text: r.Msg.Text}), nil
		}, handlerOpt))
	mux.Handle("/stream", connect.NewServerStreamHandler("/stream",
		func(_ context.Context, r *connect.Request[pingv1.PingRequest], s *connect.ServerStream[pingv1.PingResponse]) error {
			return s.Send(&pingv1.PingResponse{Text: r.Msg.Text})
		}, handlerOpt))
	server := httptest.NewUnstartedServer(mux)
	server.EnableHTTP2 = true
	server.StartTLS()
	defer server.Close()

	type variant struct {
		name           string
		path           string
		opt            connect.ClientOption
		acceptHeader   string
		encodingHeader string
	}
	variants := []variant{
		{"connect unary", "/unary", connect.WithClientOptions(), "Accept-Encoding", "Content-Encoding"},
		{"connect streaming", "/stream", connect.WithClientOptions(), "Connect-Accept-Encoding", "Connect-Content-Encoding"},
		{"grpc", "/unary", connect.WithGRPC(), "Grpc-Accept-Encoding", "Grpc-Encoding"},
		{"grpc-web", "/unary", connect.WithGRPCWeb(), "Grpc-Accept-Encoding", "Grpc-Encoding"},
	}
	for _, v := range variants {
		for _, sendGzip := range []bool{false, true} {
			recorder := &auditC08tF1Recorder{base: server.Client().Transport}
			opts := []connect.ClientOption{
				// gzip is registered by default; deflate is registered later and is
				// therefore the client's most preferred algorithm.
				connect.WithAcceptCompression("deflate", auditC08tF1NewDecompressor, auditC08tF1NewCompressor),
				v.opt,
			}
			if sendGzip {
				opts = append(opts, connect.WithSendGzip())
			}
			client := connect.NewClient[pingv1.PingRequest, pingv1.PingResponse](
				&http.Client{Transport: recorder}, server.URL+v.path, opts...)
			var got string
			if v.path == "/unary" {
				res, err := client.CallUnary(context.Background(), connect.NewRequest(&pingv1.PingRequest{Text: text}))
				if err != nil {
					t.Fatalf("%s: %v", v.name, err)
				}
				got = res.Msg.Text
			} else {
				stream, err := client.CallServerStream(context.Background(), connect.NewRequest(&pingv1.PingRequest{Text: text}))
				if err != nil {
					t.Fatalf("%s: %v", v.name, err)
				}
				for stream.Receive() {
					got = stream.Msg().Text
				}
				if err := stream.Err(); err != nil {
					t.Fatalf("%s: %v", v.name, err)
				}
				_ = stream.Close()
			}
			if got != text {
				t.Fatalf("%s: response text differs", v.name)
			}
			recorder.mu.Lock()
			accept := recorder.req.Get(v.acceptHeader)
			requestEncoding := recorder.req.Get(v.encodingHeader)
			responseEncoding := recorder.resp.Get(v.encodingHeader)
			recorder.mu.Unlock()
			if accept != "deflate,gzip" {
				t.Fatalf("%s: client advertised %q, the test expects \"deflate,gzip\" (deflate most preferred)", v.name, accept)
			}
			if responseEncoding != "deflate" {
				t.Errorf("%s, request encoding %q: the client advertised %s: %q (most preferred first) and the handler supports "+
					"both deflate and gzip, so by C08 the response must use the client's most-preferred mutually supported "+
					"algorithm \"deflate\"; observed response %s: %q",
					v.name, requestEncoding, v.acceptHeader, accept, v.encodingHeader, responseEncoding)
			}
		}
	}
}
