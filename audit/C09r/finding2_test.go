package connect_test

import (
	"context"
	"net/http"
	"net/http/httptest"
	"strings"
	"testing"

	"github.com/bufbuild/connect-go"
	pingv1 "github.com/bufbuild/connect-go/internal/gen/connect/ping/v1"
	"github.com/bufbuild/connect-go/internal/gen/connect/ping/v1/pingv1connect"
)

type auditC09rF2PingServer struct {
	pingv1connect.UnimplementedPingServiceHandler

	trailerSize int
}

func (s auditC09rF2PingServer) Ping(
	_ context.Context,
	request *connect.Request[pingv1.PingRequest],
) (*connect.Response[pingv1.PingResponse], error) {
	response := connect.NewResponse(&pingv1.PingResponse{Number: request.Msg.Number})
	response.Trailer().Set("X-Audit-Trailer", strings.Repeat("t", s.trailerSize))
	return response, nil
}

func (s auditC09rF2PingServer) Sum(
	_ context.Context,
	stream *connect.ClientStream[pingv1.SumRequest],
) (*connect.Response[pingv1.SumResponse], error) {
	var sum int64
	for stream.Receive() {
		sum += stream.Msg().Number
	}
	if stream.Err() != nil {
		return nil, stream.Err()
	}
	response := connect.NewResponse(&pingv1.SumResponse{Sum: sum})
	response.Trailer().Set("X-Audit-Trailer", strings.Repeat("t", s.trailerSize))
	return response, nil
}

func (s auditC09rF2PingServer) CountUp(
	_ context.Context,
	request *connect.Request[pingv1.CountUpRequest],
	stream *connect.ServerStream[pingv1.CountUpResponse],
) error {
	stream.ResponseTrailer().Set("X-Audit-Trailer", strings.Repeat("t", s.trailerSize))
	for i := int64(1); i <= request.Msg.Number; i++ {
		if err := stream.Send(&pingv1.CountUpResponse{Number: i}); err != nil {
			return err
		}
	}
	return nil
}

// TestAuditC09rFinding2: the read limit is also applied to the frame that
// carries no message at all - the Connect end-of-stream envelope and the
// gRPC-Web trailers envelope. A response whose every message is a few bytes
// long is rejected with "message size ... is larger than configured max", and
// for unary-shaped calls the (tiny) response message is withheld from the
// application. The same call over gRPC (HTTP trailers) succeeds.
func TestAuditC09rFinding2(t *testing.T) {
	t.Parallel()
	const (
		readMaxBytes = 1024
		trailerSize  = 2 * readMaxBytes
	)
	mux := http.NewServeMux()
	mux.Handle(pingv1connect.NewPingServiceHandler(auditC09rF2PingServer{trailerSize: trailerSize}))
	server := httptest.NewUnstartedServer(mux)
	server.EnableHTTP2 = true
	server.StartTLS()
	t.Cleanup(server.Close)

	protocols := []struct {
		name    string
		options []connect.ClientOption
	}{
		{"connect", nil},
		{"grpc", []connect.ClientOption{connect.WithGRPC()}},
		{"grpcweb", []connect.ClientOption{connect.WithGRPCWeb()}},
	}
	for _, protocol := range protocols {
		protocol := protocol
		options := append([]connect.ClientOption{connect.WithReadMaxBytes(readMaxBytes)}, protocol.options...)
		client := pingv1connect.NewPingServiceClient(server.Client(), server.URL, options...)

		t.Run(protocol.name+"/unary", func(t *testing.T) {
			t.Parallel()
			response, err := client.Ping(context.Background(), connect.NewRequest(&pingv1.PingRequest{Number: 42}))
			if err != nil {
				t.Errorf(
					"C09 violated (%s client, unary): expected that with WithReadMaxBytes(%d) a response message of 2 bytes "+
						"(<= N) is accepted and delivered; observed: the call failed with %v: %v "+
						"(the limit was applied to the trailers frame, not to a message)",
					protocol.name, readMaxBytes, connect.CodeOf(err), err,
				)
				return
			}
			if response.Msg.Number != 42 {
				t.Errorf("unexpected response %v", response.Msg)
			}
		})
		t.Run(protocol.name+"/client_stream", func(t *testing.T) {
			t.Parallel()
			stream := client.Sum(context.Background())
			if err := stream.Send(&pingv1.SumRequest{Number: 42}); err != nil {
				t.Fatalf("send: %v", err)
			}
			response, err := stream.CloseAndReceive()
			if err != nil {
				t.Errorf(
					"C09 violated (%s client, client-streaming response): expected that with WithReadMaxBytes(%d) a response message of 2 bytes "+
						"(<= N) is accepted and delivered; observed: the call failed with %v: %v "+
						"(the limit was applied to the end-of-stream/trailers frame, not to a message)",
					protocol.name, readMaxBytes, connect.CodeOf(err), err,
				)
				return
			}
			if response.Msg.Sum != 42 {
				t.Errorf("unexpected response %v", response.Msg)
			}
		})
		t.Run(protocol.name+"/server_stream", func(t *testing.T) {
			t.Parallel()
			stream, err := client.CountUp(context.Background(), connect.NewRequest(&pingv1.CountUpRequest{Number: 3}))
			if err != nil {
				t.Fatalf("call: %v", err)
			}
			var received int
			for stream.Receive() {
				received++
			}
			if err := stream.Err(); err != nil {
				t.Errorf(
					"C09 violated (%s client, server stream): expected that with WithReadMaxBytes(%d) a stream of three 2-byte messages "+
						"(all <= N) is accepted and ends cleanly; observed: after %d messages the stream failed with %v: %v "+
						"although no message exceeded the limit",
					protocol.name, readMaxBytes, received, connect.CodeOf(err), err,
				)
			}
			_ = stream.Close()
		})
	}
}
