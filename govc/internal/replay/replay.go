package replay

import (
	"bufio"
	"bytes"
	"encoding/json"
	"fmt"
	"go/constant"
	"go/token"
	"go/types"
	"math/big"
	"os"
	"os/exec"
	"path/filepath"
	"sort"
	"strconv"
	"strings"
	"time"

	"golang.org/x/tools/go/ssa"

	"govc/internal/spec"
	"govc/internal/vc"
)

// Outcome of one replay attempt.
type Outcome struct {
	Found        bool              `json:"found"`
	Input        map[string]string `json:"input,omitempty"`
	Observed     string            `json:"observed,omitempty"`
	TestFile     string            `json:"test_file,omitempty"`
	Command      string            `json:"command,omitempty"`
	Tried        int               `json:"candidates_run,omitempty"`
	Skipped      int               `json:"candidates_outside_requires,omitempty"`
	Inconclusive int               `json:"candidates_inconclusive,omitempty"`
	ClauseEvals  int               `json:"clause_evaluations_conclusive,omitempty"`
	ClauseSkips  int               `json:"clause_evaluations_inconclusive,omitempty"`
	Reason       string            `json:"reason,omitempty"` // why no replay was possible / nothing was found
	Seconds      float64           `json:"seconds,omitempty"`
}

type paramKind int

const (
	pkInt paramKind = iota
	pkBool
	pkString
	pkBytes
	pkPtrInt  // pointer to an integer type: a zero variable is allocated, its final value reported
	pkBufPool // *bufferPool: newBufferPool()
)

type param struct {
	name   string // contract name
	kind   paramKind
	goType string // as written inside the package
	lo, hi *big.Int
}

type resKind int

const (
	rkInt resKind = iota
	rkBool
	rkString
	rkBytes
	rkError
	rkErrPtr  // *Error
	rkNilness // other references: only nil-ness is observed
)

type result struct {
	name string
	kind resKind
}

func intRange(b *types.Basic) (lo, hi *big.Int, ok bool) {
	two := func(n uint) *big.Int { return new(big.Int).Lsh(big.NewInt(1), n) }
	switch b.Kind() {
	case types.Int8:
		return big.NewInt(-128), big.NewInt(127), true
	case types.Int16:
		return big.NewInt(-32768), big.NewInt(32767), true
	case types.Int32:
		return new(big.Int).Neg(two(31)), new(big.Int).Sub(two(31), big.NewInt(1)), true
	case types.Int, types.Int64:
		return new(big.Int).Neg(two(63)), new(big.Int).Sub(two(63), big.NewInt(1)), true
	case types.Uint8:
		return big.NewInt(0), big.NewInt(255), true
	case types.Uint16:
		return big.NewInt(0), big.NewInt(65535), true
	case types.Uint32:
		return big.NewInt(0), new(big.Int).Sub(two(32), big.NewInt(1)), true
	case types.Uint, types.Uint64, types.Uintptr:
		return big.NewInt(0), new(big.Int).Sub(two(64), big.NewInt(1)), true
	}
	return nil, nil, false
}

// Try looks for a concrete input on which the real function violates the
// failed obligation ob. repo is the tree under verification, work a scratch
// directory for the generated test (nothing is written to repo).
func Try(p *vc.Program, repo, work string, ob vc.OblResult) (out Outcome) {
	start := time.Now()
	defer func() { out.Seconds = time.Since(start).Seconds() }()
	defer func() {
		// the replay only decorates a report: it must never take the check down
		if r := recover(); r != nil {
			out = Outcome{Reason: fmt.Sprintf("replay gave up (internal error: %v)", r)}
		}
	}()
	fn := p.Funcs[ob.Fn]
	cs := p.Contract[ob.Fn]
	if fn == nil || cs == nil {
		out.Reason = "no function / contract"
		return
	}
	if p.FuncPkg[fn] == nil || fn.Parent() != nil || fn.Signature.TypeParams().Len() > 0 {
		out.Reason = "only top-level, non-generic functions of the verified packages are replayed"
		return
	}
	pkgDir := filepath.Dir(p.Prog.Fset.Position(fn.Pos()).Filename)
	thisPkg := p.FuncPkg[fn].Pkg
	var clause spec.Expr
	var allEnsures []spec.Clause
	switch {
	case ob.Kind == "ensures":
		for _, e := range cs.Ensures {
			if e.Text == ob.Text && e.Label == ob.Label {
				clause = e.E
			}
		}
		if clause == nil {
			out.Reason = "clause not found in the contract"
			return
		}
	case strings.HasPrefix(ob.Kind, "safety") || ob.Kind == "bounds" || ob.Kind == "nil" || ob.Kind == "div":
		// a panic on an input satisfying the requires clauses is the failing behaviour
	default:
		// an obligation inside the function (invariant, call-site assertion, frame): look for an
		// input on which the function as a whole breaks its contract - any ensures clause, or a panic
		for _, e := range cs.Ensures {
			allEnsures = append(allEnsures, e)
		}
		if len(allEnsures) == 0 {
			out.Reason = "obligations of kind " + ob.Kind + " are replayed through the function's ensures clauses, and it has none"
			return
		}
	}
	qual := func(other *types.Package) string {
		if other == thisPkg {
			return ""
		}
		return other.Name()
	}
	// parameters
	var params []param
	for i, sp := range fn.Params {
		name := sp.Name()
		if i < len(cs.Params) {
			name = cs.Params[i]
		}
		t := sp.Type()
		pr := param{name: name, goType: types.TypeString(t, qual)}
		switch u := t.Underlying().(type) {
		case *types.Basic:
			switch {
			case u.Info()&types.IsInteger != 0:
				lo, hi, ok := intRange(u)
				if !ok {
					out.Reason = "unsupported integer type " + pr.goType
					return
				}
				pr.kind, pr.lo, pr.hi = pkInt, lo, hi
			case u.Info()&types.IsBoolean != 0:
				pr.kind = pkBool
			case u.Info()&types.IsString != 0:
				pr.kind = pkString
			default:
				out.Reason = "unsupported parameter type " + pr.goType
				return
			}
		case *types.Slice:
			if b, ok := u.Elem().Underlying().(*types.Basic); ok && b.Kind() == types.Uint8 {
				pr.kind = pkBytes
			} else {
				out.Reason = "unsupported parameter type " + pr.goType
				return
			}
		case *types.Pointer:
			if pr.goType == "*bufferPool" {
				pr.kind = pkBufPool
			} else if b, ok := u.Elem().Underlying().(*types.Basic); ok && b.Info()&types.IsInteger != 0 {
				lo, hi, _ := intRange(b)
				pr.kind, pr.lo, pr.hi = pkPtrInt, lo, hi
				pr.goType = types.TypeString(u.Elem(), qual)
			} else {
				out.Reason = "unsupported parameter type " + pr.goType
				return
			}
		default:
			out.Reason = "unsupported parameter type " + pr.goType
			return
		}
		params = append(params, pr)
	}
	// results
	var results []result
	rs := fn.Signature.Results()
	for i := 0; i < rs.Len(); i++ {
		name := fmt.Sprintf("res%d", i)
		if i < len(cs.Results) {
			name = cs.Results[i]
		}
		t := rs.At(i).Type()
		r := result{name: name}
		ts := types.TypeString(t, qual)
		switch u := t.Underlying().(type) {
		case *types.Basic:
			switch {
			case u.Info()&types.IsInteger != 0:
				r.kind = rkInt
			case u.Info()&types.IsBoolean != 0:
				r.kind = rkBool
			case u.Info()&types.IsString != 0:
				r.kind = rkString
			default:
				out.Reason = "unsupported result type " + ts
				return
			}
		case *types.Slice:
			if b, ok := u.Elem().Underlying().(*types.Basic); ok && b.Kind() == types.Uint8 {
				r.kind = rkBytes
			} else {
				r.kind = rkNilness
			}
		case *types.Interface:
			if ts == "error" {
				r.kind = rkError
			} else {
				r.kind = rkNilness
			}
		case *types.Pointer:
			if ts == "*Error" {
				r.kind = rkErrPtr
			} else {
				r.kind = rkNilness
			}
		default:
			out.Reason = "unsupported result type " + ts
			return
		}
		results = append(results, r)
	}
	// sentinels the harness reports on
	sentinels := []string{"io.EOF", "io.ErrUnexpectedEOF", "context.Canceled", "context.DeadlineExceeded"}
	for name := range p.Sentinel {
		if strings.Contains(name, ".") {
			continue
		}
		if v, ok := thisPkg.Scope().Lookup(name).(*types.Var); ok && types.TypeString(v.Type(), qual) == "error" {
			sentinels = append(sentinels, name)
		}
	}
	sort.Strings(sentinels)

	cands := candidates(p, fn, cs, params)
	if len(cands) == 0 {
		out.Reason = "no candidates"
		return
	}
	_, hasErr := thisPkg.Scope().Lookup("Error").(*types.TypeName)
	src := harness(fn, params, results, sentinels, cands, hasErr)
	if err := os.MkdirAll(work, 0o755); err != nil {
		out.Reason = err.Error()
		return
	}
	testFile := filepath.Join(work, "zz_govc_replay_"+sanitize(ob.Fn)+"_test.go")
	if err := os.WriteFile(testFile, []byte(src), 0o644); err != nil {
		out.Reason = err.Error()
		return
	}
	ov := map[string]map[string]string{"Replace": {filepath.Join(pkgDir, "zz_govc_replay_test.go"): testFile}}
	ovData, _ := json.Marshal(ov)
	ovFile := filepath.Join(work, "overlay_"+sanitize(ob.Fn)+".json")
	_ = os.WriteFile(ovFile, ovData, 0o644)
	cmd := exec.Command("go", "test", "-overlay", ovFile, "-vet=off", "-count=1", "-v", "-timeout", "120s", "-run", "^TestGovcReplay$", ".")
	cmd.Dir = pkgDir
	cmd.Env = append(os.Environ(), "GOFLAGS=-mod=mod", "GOPROXY=off", "GOSUMDB=off", "GOTOOLCHAIN=local")
	out.TestFile = testFile
	out.Command = "cd " + pkgDir + " && GOFLAGS=-mod=mod GOPROXY=off go test -overlay " + ovFile + " -vet=off -count=1 -v -run '^TestGovcReplay$' ."
	raw, _ := cmd.CombinedOutput()
	type errJ struct {
		Nil   bool
		Text  string
		Coded bool
		Code  int64
		Is    map[string]bool
		Eq    map[string]bool
	}
	type lineJ struct {
		I     int
		Panic string
		Res   []json.RawMessage
		Deref map[string]string
	}
	var samples []*big.Int
	for _, s := range []int64{0, 1, 2, 3, 4, 5, 8, 13, 16, 17, 255, 256, 4294967295} {
		samples = append(samples, big.NewInt(s))
	}
	sc := bufio.NewScanner(bytes.NewReader(raw))
	sc.Buffer(make([]byte, 1<<20), 1<<26)
	seen := false
	for sc.Scan() {
		line := sc.Text()
		if !strings.HasPrefix(line, "GOVCR ") {
			continue
		}
		seen = true
		var lj lineJ
		if err := json.Unmarshal([]byte(line[6:]), &lj); err != nil || lj.I >= len(cands) {
			continue
		}
		out.Tried++
		c := cands[lj.I]
		env := map[string]value{}
		for _, s := range sentinels {
			env[s] = sentinelVal{s}
		}
		for k, pr := range params {
			switch pr.kind {
			case pkInt:
				env[pr.name] = c[k].n
				env[pr.name+"0"] = c[k].n
			case pkBool:
				env[pr.name] = c[k].b
			case pkString, pkBytes:
				env[pr.name] = []byte(c[k].s)
				env[pr.name+"0"] = []byte(c[k].s)
			case pkPtrInt:
				env[pr.name] = sentinelVal{"&" + pr.name} // a non-nil reference
				if d, ok := lj.Deref[pr.name]; ok {
					if n, ok := new(big.Int).SetString(d, 10); ok {
						env["*"+pr.name] = n
					}
				}
			case pkBufPool:
				env[pr.name] = sentinelVal{"&" + pr.name}
			}
		}
		in := &interp{specFns: p.SpecFn, env: env, samples: samples}
		okReq, conclusive := evalBool(in, requiresOf(cs))
		if !conclusive {
			out.Inconclusive++
			continue
		}
		if !okReq {
			out.Skipped++
			continue
		}
		describe := func() map[string]string {
			m := map[string]string{}
			for k, pr := range params {
				switch pr.kind {
				case pkInt:
					m[pr.name] = c[k].n.String()
				case pkBool:
					m[pr.name] = fmt.Sprint(c[k].b)
				case pkString, pkBytes:
					m[pr.name] = strconv.Quote(c[k].s)
				}
			}
			return m
		}
		if lj.Panic != "" {
			if clause == nil {
				out.Found, out.Input, out.Observed = true, describe(), "panic: "+lj.Panic
				return
			}
			continue // an ensures clause speaks of normal returns only
		}
		if clause == nil && len(allEnsures) == 0 {
			continue
		}
		if len(lj.Res) != len(results) {
			continue
		}
		var shown []string
		bad := false
		for k, r := range results {
			switch r.kind {
			case rkInt:
				var s string
				_ = json.Unmarshal(lj.Res[k], &s)
				n, ok := new(big.Int).SetString(s, 10)
				if !ok {
					bad = true
				}
				env[r.name] = n
				shown = append(shown, r.name+"="+s)
			case rkBool:
				var b bool
				_ = json.Unmarshal(lj.Res[k], &b)
				env[r.name] = b
				shown = append(shown, fmt.Sprintf("%s=%v", r.name, b))
			case rkString, rkBytes:
				var b []byte
				_ = json.Unmarshal(lj.Res[k], &b)
				env[r.name] = b
				shown = append(shown, r.name+"="+strconv.Quote(string(b)))
			case rkError, rkErrPtr, rkNilness:
				var e errJ
				_ = json.Unmarshal(lj.Res[k], &e)
				env[r.name] = errVal{Nil: e.Nil, Text: e.Text, Coded: e.Coded, Code: e.Code, Is: e.Is, Eq: e.Eq}
				if e.Nil {
					shown = append(shown, r.name+"=nil")
				} else {
					shown = append(shown, r.name+"="+strconv.Quote(e.Text))
				}
			}
		}
		if bad {
			continue
		}
		if clause != nil {
			holds, conclusive := evalBool(in, clause)
			if !conclusive {
				out.Inconclusive++
				continue
			}
			if !holds {
				out.Found, out.Input, out.Observed = true, describe(), strings.Join(shown, ", ")
				return
			}
			continue
		}
		for _, e := range allEnsures {
			holds, conclusive := evalBool(in, e.E)
			if conclusive {
				out.ClauseEvals++
			} else {
				out.ClauseSkips++
			}
			if conclusive && !holds {
				out.Found, out.Input = true, describe()
				out.Observed = strings.Join(shown, ", ") + "  (violates the function's ensures clause " + e.Label + ": " + e.Text + ")"
				return
			}
		}
	}
	if !seen {
		out.Reason = "the replay harness did not run: " + firstLines(string(raw), 6)
		return
	}
	out.Reason = "no candidate violated the clause"
	return
}

func requiresOf(cs *spec.FuncSpec) spec.Expr {
	var e spec.Expr = &spec.BoolLit{Val: true}
	for _, r := range cs.Requires {
		e = &spec.Binary{Op: "&&", X: e, Y: r.E}
	}
	return e
}

func evalBool(in *interp, e spec.Expr) (v bool, conclusive bool) {
	defer func() {
		if r := recover(); r != nil {
			if _, ok := r.(inconclusive); ok {
				v, conclusive = false, false
				return
			}
			panic(r)
		}
	}()
	return in.boolean(e), true
}

func firstLines(s string, n int) string {
	ls := strings.Split(s, "\n")
	if len(ls) > n {
		ls = ls[:n]
	}
	return strings.Join(ls, " | ")
}

func sanitize(s string) string {
	var b strings.Builder
	for _, r := range s {
		if (r >= 'a' && r <= 'z') || (r >= 'A' && r <= 'Z') || (r >= '0' && r <= '9') {
			b.WriteRune(r)
		} else {
			b.WriteByte('_')
		}
	}
	return b.String()
}

// ---- candidates --------------------------------------------------------------

type cval struct {
	n *big.Int
	b bool
	s string
}

// candidates builds inputs from the constants of the function and of its
// contract (and their neighbours), boundary values of the parameter types and
// all short strings over an alphabet mined from the same sources.
func candidates(p *vc.Program, fn *ssa.Function, cs *spec.FuncSpec, params []param) [][]cval {
	ints := map[string]*big.Int{}
	strs := map[string]bool{}
	alpha := map[byte]bool{}
	nearAlpha := map[byte]bool{} // neighbours of byte constants the code compares against
	addInt := func(n *big.Int) {
		for d := int64(-1); d <= 1; d++ {
			m := new(big.Int).Add(n, big.NewInt(d))
			ints[m.String()] = m
		}
	}
	seenFn := map[*ssa.Function]bool{}
	var mine func(f *ssa.Function, depth int)
	mine = func(f *ssa.Function, depth int) {
		if f == nil || seenFn[f] || f.Blocks == nil {
			return
		}
		seenFn[f] = true
		for _, b := range f.Blocks {
			for _, in := range b.Instrs {
				for _, op := range in.Operands(nil) {
					c, ok := (*op).(*ssa.Const)
					if !ok || c.Value == nil {
						continue
					}
					switch c.Value.Kind() {
					case constant.Int:
						if n, ok := new(big.Int).SetString(c.Value.ExactString(), 10); ok {
							addInt(n)
							if n.IsInt64() && n.Int64() >= 0 && n.Int64() <= 255 {
								alpha[byte(n.Int64())] = true
								if n.Int64() > 0 {
									nearAlpha[byte(n.Int64()-1)] = true
								}
								if n.Int64() < 255 {
									nearAlpha[byte(n.Int64()+1)] = true
								}
							}
						}
					case constant.String:
						s := constant.StringVal(c.Value)
						if len(s) <= 40 {
							strs[s] = true
						}
					}
				}
				if call, ok := in.(*ssa.Call); ok && depth > 0 {
					if callee := call.Call.StaticCallee(); callee != nil && p.FuncPkg[callee] != nil {
						mine(callee, depth-1)
					}
				}
			}
		}
	}
	mine(fn, 1)
	var walk func(e spec.Expr)
	walk = func(e spec.Expr) {
		switch x := e.(type) {
		case *spec.IntLit:
			if n, ok := new(big.Int).SetString(x.Val, 10); ok {
				addInt(n)
				if n.IsInt64() && n.Int64() >= 32 && n.Int64() <= 126 {
					alpha[byte(n.Int64())] = true
				}
			}
		case *spec.StrLit:
			strs[x.Val] = true
		case *spec.Binary:
			walk(x.X)
			walk(x.Y)
		case *spec.Unary:
			walk(x.X)
		case *spec.Call:
			for _, a := range x.Args {
				walk(a)
			}
			if f, ok := p.SpecFn[x.Fun]; ok && f.Body != nil && len(x.Args) > 0 {
				walk(f.Body)
			}
		case *spec.Index:
			walk(x.X)
			walk(x.I)
		case *spec.SliceE:
			walk(x.X)
			if x.Lo != nil {
				walk(x.Lo)
			}
			if x.Hi != nil {
				walk(x.Hi)
			}
		case *spec.Len:
			walk(x.X)
		case *spec.Old:
			walk(x.X)
		case *spec.Quant:
			walk(x.Body)
		case *spec.Cond:
			walk(x.C)
			walk(x.A)
			walk(x.B)
		case *spec.Let:
			walk(x.Val)
			walk(x.Body)
		}
	}
	seenSpec := map[string]bool{}
	_ = seenSpec
	for _, c := range cs.Requires {
		walk(c.E)
	}
	for _, c := range cs.Ensures {
		walk(c.E)
	}
	for _, n := range []int64{0, 1, 2, 7, 8, 16, 17, 100, 255, 256, 65535, 65536, 99999999, 100000000} {
		addInt(big.NewInt(n))
	}
	for _, sh := range []uint{31, 32, 63, 64} {
		addInt(new(big.Int).Lsh(big.NewInt(1), sh))
		addInt(new(big.Int).Neg(new(big.Int).Lsh(big.NewInt(1), sh)))
	}
	// alphabet: mined characters first, then defaults, at most 7
	var alphabet []byte
	var mined []int
	for c := range alpha {
		mined = append(mined, int(c))
	}
	sort.Ints(mined)
	for s := range strs {
		for i := 0; i < len(s) && i < 2; i++ {
			if !alpha[s[i]] {
				alpha[s[i]] = true
				mined = append(mined, int(s[i]))
			}
		}
	}
	prio := []byte{'%', '0', '9', 'a', 'F', ' ', 0xff, 'S', '-', '=', 'z'}
	have := map[byte]bool{}
	for _, c := range mined {
		if len(alphabet) < 4 && !have[byte(c)] && c >= 32 {
			alphabet = append(alphabet, byte(c))
			have[byte(c)] = true
		}
	}
	var near []int
	for c := range nearAlpha {
		near = append(near, int(c))
	}
	sort.Sort(sort.Reverse(sort.IntSlice(near)))
	for _, c := range near {
		// boundary bytes just outside the printable range are the interesting ones
		if len(alphabet) < 7 && !have[byte(c)] && (c < 32 || c > 126) {
			alphabet = append(alphabet, byte(c))
			have[byte(c)] = true
		}
	}
	for _, c := range prio {
		if len(alphabet) < 9 && !have[c] {
			alphabet = append(alphabet, c)
			have[c] = true
		}
	}
	// strings
	var pool []string
	addS := func(s string) { pool = append(pool, s) }
	var lits []string
	for s := range strs {
		lits = append(lits, s)
	}
	sort.Strings(lits)
	for _, s := range lits {
		addS(s)
		addS(s + "x")
		addS("x" + s)
		if len(s) > 0 && len(s) <= 12 {
			addS(s + "17")
			addS(s + s + "17")
			addS(s + s[len(s)-1:] + "17")
			addS(s + "0")
		}
		if len(s) > 0 {
			addS(s[:len(s)-1])
			addS(s[1:])
		}
	}
	for _, w := range []string{"import", "Import", "type", "Type", "go", "Go", "func", "Func", "range", "Range", "select", "Select", "default", "Default", "Ping", "x"} {
		addS(w)
	}
	// decimal numbers with the mined characters as suffix/prefix (grammars like "<digits><unit>")
	for _, n := range []string{"0", "1", "9", "12345678", "99999999", "100000000", "123456789", "2562047", "2562048"} {
		addS(n)
		for _, c := range alphabet {
			addS(n + string(c))
			addS(string(c) + n)
			addS("-" + n + string(c))
		}
	}
	var gen func(prefix string, left int)
	gen = func(prefix string, left int) {
		addS(prefix)
		if left == 0 {
			return
		}
		for _, c := range alphabet {
			gen(prefix+string(c), left-1)
		}
	}
	nStr := 0
	for _, pr := range params {
		if pr.kind == pkString || pr.kind == pkBytes {
			nStr++
		}
	}
	maxLen := 4
	if nStr > 1 {
		maxLen = 2
	}
	gen("", maxLen)
	// a deterministic sample of longer strings
	seed := uint64(88172645463325252)
	next := func() uint64 { seed ^= seed << 13; seed ^= seed >> 7; seed ^= seed << 17; return seed }
	extra := 1500
	if nStr > 1 {
		extra = 100
	}
	for i := 0; i < extra; i++ {
		l := 5 + int(next()%3)
		b := make([]byte, l)
		for j := range b {
			b[j] = alphabet[next()%uint64(len(alphabet))]
		}
		addS(string(b))
	}
	seenS := map[string]bool{}
	var spool []string
	for _, s := range pool {
		if !seenS[s] {
			seenS[s] = true
			spool = append(spool, s)
		}
	}
	// integer pool sorted by magnitude
	var ipool []*big.Int
	for _, n := range ints {
		ipool = append(ipool, n)
	}
	sort.Slice(ipool, func(i, j int) bool {
		a, b := new(big.Int).Abs(ipool[i]), new(big.Int).Abs(ipool[j])
		if c := a.Cmp(b); c != 0 {
			return c < 0
		}
		return ipool[i].Cmp(ipool[j]) < 0
	})
	perParam := make([][]cval, len(params))
	for k, pr := range params {
		switch pr.kind {
		case pkInt:
			for _, n := range ipool {
				if n.Cmp(pr.lo) >= 0 && n.Cmp(pr.hi) <= 0 {
					perParam[k] = append(perParam[k], cval{n: n})
				}
			}
			if len(perParam[k]) > 60 {
				perParam[k] = perParam[k][:60]
			}
		case pkBool:
			perParam[k] = []cval{{b: false}, {b: true}}
		case pkString, pkBytes:
			for _, s := range spool {
				perParam[k] = append(perParam[k], cval{s: s})
			}
		default:
			perParam[k] = []cval{{}}
		}
	}
	// cartesian product, capped
	const cap = 30000
	total := 1
	for _, pp := range perParam {
		total *= len(pp)
		if total > 1<<40 {
			break
		}
	}
	for total > cap {
		// thin the largest pool
		big := 0
		for k := range perParam {
			if len(perParam[k]) > len(perParam[big]) {
				big = k
			}
		}
		if len(perParam[big]) <= 2 {
			break
		}
		var thin []cval
		for i, v := range perParam[big] {
			if i%2 == 0 || i < 20 {
				thin = append(thin, v)
			}
		}
		if len(thin) == len(perParam[big]) {
			thin = thin[:len(thin)/2]
		}
		perParam[big] = thin
		total = 1
		for _, pp := range perParam {
			total *= len(pp)
		}
	}
	var out [][]cval
	idx := make([]int, len(params))
	for {
		row := make([]cval, len(params))
		for k := range params {
			row[k] = perParam[k][idx[k]]
		}
		out = append(out, row)
		k := len(params) - 1
		for k >= 0 {
			idx[k]++
			if idx[k] < len(perParam[k]) {
				break
			}
			idx[k] = 0
			k--
		}
		if k < 0 || len(out) >= cap {
			break
		}
	}
	return out
}

// ---- harness -----------------------------------------------------------------

func harness(fn *ssa.Function, params []param, results []result, sentinels []string, cands [][]cval, hasErrorType bool) string {
	var b strings.Builder
	b.WriteString("// Code generated by govc (replay of a failed proof obligation); not part of the repository.\n")
	fmt.Fprintf(&b, "package %s\n\n", fn.Pkg.Pkg.Name())
	imports := map[string]bool{"context": true, "encoding/json": true, "errors": true, "fmt": true, "io": true, "testing": true}
	for _, sp := range fn.Params {
		t := sp.Type()
		if pt, ok := t.(*types.Pointer); ok {
			t = pt.Elem()
		}
		if nt, ok := t.(*types.Named); ok && nt.Obj().Pkg() != nil && nt.Obj().Pkg() != fn.Pkg.Pkg {
			imports[nt.Obj().Pkg().Path()] = true
		}
	}
	var imps []string
	for i := range imports {
		imps = append(imps, i)
	}
	sort.Strings(imps)
	b.WriteString("import (\n")
	for _, i := range imps {
		fmt.Fprintf(&b, "\t%q\n", i)
	}
	b.WriteString(")\n\n")
	b.WriteString("var _ = io.EOF\nvar _ = context.Canceled\n\n")
	b.WriteString("type govcErr struct {\n\tNil bool\n\tText string\n\tCoded bool\n\tCode int64\n\tIs map[string]bool\n\tEq map[string]bool\n}\n\n")
	b.WriteString("func govcDescribe(err error) govcErr {\n\tif err == nil {\n\t\treturn govcErr{Nil: true}\n\t}\n\td := govcErr{Text: err.Error(), Is: map[string]bool{}, Eq: map[string]bool{}}\n")
	if hasErrorType {
		b.WriteString("\tvar ce *Error\n\tif errors.As(err, &ce) {\n\t\td.Coded = true\n\t\td.Code = int64(ce.Code())\n\t}\n")
	} else {
		b.WriteString("\t_ = errors.Is\n")
	}
	for _, s := range sentinels {
		fmt.Fprintf(&b, "\td.Is[%q] = errors.Is(err, %s)\n\td.Eq[%q] = err == %s\n", s, s, s, s)
	}
	b.WriteString("\treturn d\n}\n\n")
	b.WriteString("type govcOut struct {\n\tI int\n\tPanic string\n\tRes []any\n\tDeref map[string]string\n}\n\n")
	// candidates
	b.WriteString("type govcIn struct {\n")
	for k, pr := range params {
		switch pr.kind {
		case pkInt:
			fmt.Fprintf(&b, "\tP%d %s\n", k, pr.goType)
		case pkBool:
			fmt.Fprintf(&b, "\tP%d bool\n", k)
		case pkString, pkBytes:
			fmt.Fprintf(&b, "\tP%d string\n", k)
		}
	}
	b.WriteString("}\n\nvar govcCands = []govcIn{\n")
	for _, c := range cands {
		b.WriteString("\t{")
		first := true
		for k, pr := range params {
			var lit string
			switch pr.kind {
			case pkInt:
				lit = c[k].n.String()
			case pkBool:
				lit = fmt.Sprint(c[k].b)
			case pkString, pkBytes:
				lit = strconv.Quote(c[k].s)
			default:
				continue
			}
			if !first {
				b.WriteString(", ")
			}
			first = false
			b.WriteString(lit)
		}
		b.WriteString("},\n")
	}
	b.WriteString("}\n\n")
	b.WriteString("func TestGovcReplay(t *testing.T) {\n\tfor i := range govcCands {\n\t\tout := govcCall(i)\n\t\tdata, err := json.Marshal(out)\n\t\tif err != nil {\n\t\t\tcontinue\n\t\t}\n\t\tfmt.Printf(\"GOVCR %s\\n\", data)\n\t}\n}\n\n")
	b.WriteString("func govcCall(i int) (out govcOut) {\n\tout.I = i\n\tdefer func() {\n\t\tif r := recover(); r != nil {\n\t\t\tout.Panic = fmt.Sprint(r)\n\t\t}\n\t}()\n\tc := govcCands[i]\n\t_ = c\n")
	// arguments
	var args []string
	for k, pr := range params {
		switch pr.kind {
		case pkInt, pkBool:
			args = append(args, fmt.Sprintf("c.P%d", k))
		case pkString:
			if pr.goType == "string" {
				args = append(args, fmt.Sprintf("c.P%d", k))
			} else {
				args = append(args, fmt.Sprintf("%s(c.P%d)", pr.goType, k))
			}
		case pkBytes:
			args = append(args, fmt.Sprintf("[]byte(c.P%d)", k))
		case pkPtrInt:
			fmt.Fprintf(&b, "\tvar v%d %s\n", k, pr.goType)
			args = append(args, fmt.Sprintf("&v%d", k))
		case pkBufPool:
			args = append(args, "newBufferPool()")
		}
	}
	var call string
	if fn.Signature.Recv() != nil {
		call = fmt.Sprintf("(%s).%s(%s)", args[0], fn.Name(), strings.Join(args[1:], ", "))
	} else {
		call = fmt.Sprintf("%s(%s)", fn.Name(), strings.Join(args, ", "))
	}
	var lhs []string
	for k := range results {
		lhs = append(lhs, fmt.Sprintf("r%d", k))
	}
	if len(lhs) > 0 {
		fmt.Fprintf(&b, "\t%s := %s\n", strings.Join(lhs, ", "), call)
	} else {
		fmt.Fprintf(&b, "\t%s\n", call)
	}
	for k, r := range results {
		switch r.kind {
		case rkInt:
			fmt.Fprintf(&b, "\tout.Res = append(out.Res, fmt.Sprintf(\"%%d\", r%d))\n", k)
		case rkBool:
			fmt.Fprintf(&b, "\tout.Res = append(out.Res, bool(r%d))\n", k)
		case rkString:
			fmt.Fprintf(&b, "\tout.Res = append(out.Res, []byte(r%d))\n", k)
		case rkBytes:
			fmt.Fprintf(&b, "\tout.Res = append(out.Res, []byte(r%d))\n", k)
		case rkError:
			fmt.Fprintf(&b, "\tout.Res = append(out.Res, govcDescribe(r%d))\n", k)
		case rkErrPtr:
			fmt.Fprintf(&b, "\tif r%d == nil {\n\t\tout.Res = append(out.Res, govcErr{Nil: true})\n\t} else {\n\t\tout.Res = append(out.Res, govcDescribe(r%d))\n\t}\n", k, k)
		case rkNilness:
			fmt.Fprintf(&b, "\tout.Res = append(out.Res, govcErr{Nil: r%d == nil})\n", k)
		}
	}
	b.WriteString("\tout.Deref = map[string]string{}\n")
	for k, pr := range params {
		if pr.kind == pkPtrInt {
			fmt.Fprintf(&b, "\tout.Deref[%q] = fmt.Sprintf(\"%%d\", v%d)\n", pr.name, k)
		}
	}
	b.WriteString("\treturn out\n}\n")
	_ = token.NoPos
	return b.String()
}
