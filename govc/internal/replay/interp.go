// Package replay looks for a concrete failing input of a failed obligation
// by running the real function (in-package test injected with go test
// -overlay) on candidate inputs and evaluating the contract clause on the
// observed results. It never decides a property: the verifier does. It only
// upgrades the report of a failed obligation from "no failing input found" to
// a concrete input that makes the real code violate the clause.
package replay

import (
	"encoding/base64"
	"go/token"
	"fmt"
	"math/big"
	"net/textproto"
	"strconv"
	"strings"

	"govc/internal/spec"
)

// value is a concrete spec value: *big.Int, bool, []byte (seq), errVal, nilVal.
type value interface{}

type errVal struct {
	Nil   bool
	Text  string
	Coded bool
	Code  int64
	Is    map[string]bool // errors.Is(err, sentinel) by qualified sentinel name
	Eq    map[string]bool // err == sentinel
}

// sentinelVal is a named sentinel error (io.EOF, errNoTimeout, ...).
type sentinelVal struct{ Name string }

// inconclusive aborts the evaluation of a clause on one candidate: the clause
// uses something the interpreter has no executable meaning for, or leaves the
// defined domain (index out of range, quantifier over an unbounded range
// without a falsifying sample). No claim is made for that candidate.
type inconclusive struct{ why string }

func giveUp(format string, a ...any) { panic(inconclusive{fmt.Sprintf(format, a...)}) }

type interp struct {
	specFns map[string]*spec.SpecFn
	env     map[string]value
	samples []*big.Int // integers to try for quantified variables without a small range
	depth   int
}

func (in *interp) with(name string, v value) *interp {
	n := *in
	n.env = map[string]value{}
	for k, x := range in.env {
		n.env[k] = x
	}
	n.env[name] = v
	return &n
}

func bi(n int64) *big.Int { return big.NewInt(n) }

func (in *interp) boolean(e spec.Expr) bool {
	v := in.eval(e)
	b, ok := v.(bool)
	if !ok {
		giveUp("not a boolean: %s", e)
	}
	return b
}

func (in *interp) integer(e spec.Expr) *big.Int {
	v := in.eval(e)
	n, ok := v.(*big.Int)
	if !ok {
		giveUp("not an integer: %s", e)
	}
	return n
}

func (in *interp) seq(e spec.Expr) []byte {
	v := in.eval(e)
	s, ok := v.([]byte)
	if !ok {
		giveUp("not a byte sequence: %s", e)
	}
	return s
}

func equal(a, b value) bool {
	switch x := a.(type) {
	case *big.Int:
		y, ok := b.(*big.Int)
		if !ok || x == nil || y == nil {
			giveUp("comparison of different kinds")
		}
		return x.Cmp(y) == 0
	case bool:
		y, ok := b.(bool)
		if !ok {
			giveUp("comparison of different kinds")
		}
		return x == y
	case []byte:
		y, ok := b.([]byte)
		if !ok {
			giveUp("comparison of different kinds")
		}
		return string(x) == string(y)
	case errVal:
		switch y := b.(type) {
		case nil:
			return x.Nil
		case errVal:
			if x.Nil || y.Nil {
				return x.Nil == y.Nil
			}
		case sentinelVal:
			if x.Nil {
				return false
			}
			if v, ok := x.Eq[y.Name]; ok {
				return v
			}
		}
		giveUp("comparison of two non-nil errors")
	case sentinelVal:
		switch y := b.(type) {
		case errVal:
			return equal(y, x)
		case sentinelVal:
			return x.Name == y.Name
		case nil:
			return false
		}
		giveUp("comparison of a sentinel")
	case nil:
		switch y := b.(type) {
		case nil:
			return true
		case errVal:
			return y.Nil
		case sentinelVal:
			return false
		}
		giveUp("comparison of nil with a non-reference")
	}
	giveUp("comparison of unsupported values")
	return false
}

func (in *interp) eval(e spec.Expr) value {
	in.depth++
	defer func() { in.depth-- }()
	if in.depth > 400 {
		giveUp("evaluation too deep")
	}
	switch x := e.(type) {
	case *spec.Ident:
		if v, ok := in.env[x.Name]; ok {
			return v
		}
		giveUp("unknown identifier %s", x.Name)
	case *spec.Sel:
		// qualified sentinel: io.EOF, context.Canceled
		if v, ok := in.env[x.String()]; ok {
			return v
		}
		giveUp("unsupported selection %s", x)
	case *spec.IntLit:
		n, ok := new(big.Int).SetString(x.Val, 10)
		if !ok {
			giveUp("bad integer literal %s", x.Val)
		}
		return n
	case *spec.StrLit:
		return []byte(x.Val)
	case *spec.BoolLit:
		return x.Val
	case *spec.NilLit:
		return nil
	case *spec.Old:
		return in.eval(x.X) // parameters are passed by value: old(p) == p
	case *spec.Len:
		return bi(int64(len(in.seq(x.X))))
	case *spec.Index:
		s := in.seq(x.X)
		i := in.integer(x.I)
		if !i.IsInt64() || i.Int64() < 0 || i.Int64() >= int64(len(s)) {
			giveUp("index out of range in %s", e)
		}
		return bi(int64(s[i.Int64()]))
	case *spec.SliceE:
		s := in.seq(x.X)
		lo, hi := int64(0), int64(len(s))
		if x.Lo != nil {
			n := in.integer(x.Lo)
			if !n.IsInt64() {
				giveUp("slice bound")
			}
			lo = n.Int64()
		}
		if x.Hi != nil {
			n := in.integer(x.Hi)
			if !n.IsInt64() {
				giveUp("slice bound")
			}
			hi = n.Int64()
		}
		if lo < 0 || hi > int64(len(s)) || lo > hi {
			giveUp("slice out of range in %s", e)
		}
		return append([]byte{}, s[lo:hi]...)
	case *spec.Unary:
		switch x.Op {
		case "!":
			return !in.boolean(x.X)
		case "-":
			return new(big.Int).Neg(in.integer(x.X))
		}
	case *spec.Cond:
		if in.boolean(x.C) {
			return in.eval(x.A)
		}
		return in.eval(x.B)
	case *spec.Let:
		return in.with(x.Name, in.eval(x.Val)).eval(x.Body)
	case *spec.SeqLit:
		var out []byte
		for _, el := range x.Elems {
			n := in.integer(el)
			if !n.IsInt64() || n.Int64() < 0 || n.Int64() > 255 {
				giveUp("sequence literal element")
			}
			out = append(out, byte(n.Int64()))
		}
		return out
	case *spec.Binary:
		return in.binary(x)
	case *spec.Quant:
		return in.quant(x)
	case *spec.Call:
		return in.call(x)
	}
	giveUp("unsupported expression %s", e)
	return nil
}

func (in *interp) binary(x *spec.Binary) value {
	switch x.Op {
	case "&&":
		return in.boolean(x.X) && in.boolean(x.Y)
	case "||":
		return in.boolean(x.X) || in.boolean(x.Y)
	case "==>":
		return !in.boolean(x.X) || in.boolean(x.Y)
	case "<==>":
		return in.boolean(x.X) == in.boolean(x.Y)
	case "==":
		return equal(in.eval(x.X), in.eval(x.Y))
	case "!=":
		return !equal(in.eval(x.X), in.eval(x.Y))
	case "++":
		return append(append([]byte{}, in.seq(x.X)...), in.seq(x.Y)...)
	}
	a, b := in.integer(x.X), in.integer(x.Y)
	switch x.Op {
	case "+":
		return new(big.Int).Add(a, b)
	case "-":
		return new(big.Int).Sub(a, b)
	case "*":
		return new(big.Int).Mul(a, b)
	case "/":
		if b.Sign() == 0 {
			giveUp("division by zero")
		}
		return new(big.Int).Quo(a, b) // Go division truncates toward zero
	case "%":
		if b.Sign() == 0 {
			giveUp("division by zero")
		}
		return new(big.Int).Rem(a, b)
	case "<":
		return a.Cmp(b) < 0
	case "<=":
		return a.Cmp(b) <= 0
	case ">":
		return a.Cmp(b) > 0
	case ">=":
		return a.Cmp(b) >= 0
	}
	giveUp("unsupported operator %s", x.Op)
	return nil
}

// bounds looks for lo <= v, lo < v, v < hi, v <= hi among the conjuncts of g.
func (in *interp) bounds(g spec.Expr, v string) (lo, hi *big.Int) {
	var conj func(e spec.Expr)
	mentions := func(e spec.Expr) bool { return strings.Contains(" "+e.String()+" ", v) }
	conj = func(e spec.Expr) {
		b, ok := e.(*spec.Binary)
		if !ok {
			return
		}
		if b.Op == "&&" {
			conj(b.X)
			conj(b.Y)
			return
		}
		idL, isL := b.X.(*spec.Ident)
		idR, isR := b.Y.(*spec.Ident)
		try := func(f func() *big.Int) (n *big.Int) {
			defer func() {
				if r := recover(); r != nil {
					if _, ok := r.(inconclusive); ok {
						n = nil
						return
					}
					panic(r)
				}
			}()
			return f()
		}
		switch {
		case isR && idR.Name == v && !mentions(b.X) && (b.Op == "<=" || b.Op == "<"):
			if n := try(func() *big.Int { return in.integer(b.X) }); n != nil {
				if b.Op == "<" {
					n = new(big.Int).Add(n, bi(1))
				}
				if lo == nil || n.Cmp(lo) > 0 {
					lo = n
				}
			}
		case isL && idL.Name == v && !mentions(b.Y) && (b.Op == "<=" || b.Op == "<"):
			if n := try(func() *big.Int { return in.integer(b.Y) }); n != nil {
				if b.Op == "<" {
					n = new(big.Int).Sub(n, bi(1))
				}
				if hi == nil || n.Cmp(hi) < 0 {
					hi = n
				}
			}
		}
	}
	conj(g)
	return
}

func (in *interp) quant(q *spec.Quant) value {
	if len(q.Vars) != 1 || q.Vars[0].Type != "int" {
		giveUp("quantifier over %d variables / non-integers", len(q.Vars))
	}
	v := q.Vars[0].Name
	guard := q.Body
	if b, ok := q.Body.(*spec.Binary); ok && ((q.Kind == "forall" && b.Op == "==>") || (q.Kind == "exists" && b.Op == "&&")) {
		guard = b.X
	}
	lo, hi := in.bounds(guard, v)
	var domain []*big.Int
	exhaustive := false
	if lo != nil && hi != nil && new(big.Int).Sub(hi, lo).Cmp(bi(4096)) <= 0 {
		exhaustive = true
		for n := new(big.Int).Set(lo); n.Cmp(hi) <= 0; n = new(big.Int).Add(n, bi(1)) {
			domain = append(domain, n)
		}
	} else {
		for _, s := range in.samples {
			if (lo == nil || s.Cmp(lo) >= 0) && (hi == nil || s.Cmp(hi) <= 0) {
				domain = append(domain, s)
			}
		}
	}
	for _, n := range domain {
		var b bool
		func() {
			defer func() {
				if r := recover(); r != nil {
					if _, ok := r.(inconclusive); ok && !exhaustive {
						b = q.Kind == "forall" // skip this sample
						return
					}
					panic(r)
				}
			}()
			b = in.with(v, n).boolean(q.Body)
		}()
		if q.Kind == "forall" && !b {
			return false
		}
		if q.Kind == "exists" && b {
			return true
		}
	}
	if !exhaustive {
		giveUp("quantifier over a large range without a deciding sample")
	}
	return q.Kind == "forall"
}

func (in *interp) call(c *spec.Call) value {
	args := func(i int) spec.Expr {
		if i >= len(c.Args) {
			giveUp("missing argument in %s", c)
		}
		return c.Args[i]
	}
	switch c.Fun {
	case "len":
		return bi(int64(len(in.seq(args(0)))))
	case "seq", "old":
		return in.eval(args(0))
	case "deref":
		if id, ok := args(0).(*spec.Ident); ok {
			if v, ok := in.env["*"+id.Name]; ok {
				return v
			}
		}
		giveUp("deref of %s", args(0))
	case "min", "max":
		a, b := in.integer(args(0)), in.integer(args(1))
		if (a.Cmp(b) < 0) == (c.Fun == "min") {
			return a
		}
		return b
	case "coded", "codeOf", "Is", "asErr":
		ev, ok := in.eval(args(0)).(errVal)
		if !ok {
			giveUp("%s of a non-error", c.Fun)
		}
		switch c.Fun {
		case "coded":
			return !ev.Nil && ev.Coded
		case "codeOf":
			if ev.Nil || !ev.Coded {
				giveUp("codeOf an uncoded error")
			}
			return bi(ev.Code)
		case "Is":
			if ev.Nil {
				return false
			}
			if v, ok := ev.Is[args(1).String()]; ok {
				return v
			}
		}
		giveUp("%s", c)
	case "band", "bor":
		a, b := in.integer(args(0)), in.integer(args(1))
		if a.Sign() < 0 || b.Sign() < 0 {
			giveUp("bit operation on a negative number")
		}
		if c.Fun == "band" {
			return new(big.Int).And(a, b)
		}
		return new(big.Int).Or(a, b)
	case "bit":
		a, b := in.integer(args(0)), in.integer(args(1))
		if a.Sign() < 0 || b.Sign() < 0 {
			giveUp("bit operation on a negative number")
		}
		return new(big.Int).And(a, b).Sign() != 0
	}
	if f, ok := in.specFns[c.Fun]; ok && f.Body != nil {
		if len(f.Params) != len(c.Args) {
			giveUp("arity of %s", c.Fun)
		}
		n := &interp{specFns: in.specFns, env: map[string]value{}, samples: in.samples, depth: in.depth}
		for i, p := range f.Params {
			n.env[p.Name] = in.eval(c.Args[i])
		}
		return n.eval(f.Body)
	}
	if nat, ok := natives[c.Fun]; ok {
		vals := make([]value, len(c.Args))
		for i, a := range c.Args {
			vals[i] = in.eval(a)
		}
		return nat(vals)
	}
	giveUp("no executable meaning for %s", c.Fun)
	return nil
}

func asSeq(v value) []byte {
	s, ok := v.([]byte)
	if !ok {
		giveUp("native: expected a byte sequence")
	}
	return s
}

func asInt(v value) *big.Int {
	n, ok := v.(*big.Int)
	if !ok {
		giveUp("native: expected an integer")
	}
	return n
}

func isNum10(s []byte) bool {
	if len(s) == 0 {
		return false
	}
	for _, c := range s {
		if c < '0' || c > '9' {
			return false
		}
	}
	return true
}

// natives: the executable meaning of the uninterpreted spec functions whose
// axioms describe a standard-library function (cited in the spec files) or a
// recursion over a sequence. They are used by the replay oracle only.
var natives = map[string]func([]value) value{
	"dec": func(a []value) value { return []byte(asInt(a[0]).String()) },
	"isNum10": func(a []value) value { return isNum10(asSeq(a[0])) },
	"val10": func(a []value) value {
		s := asSeq(a[0])
		if !isNum10(s) {
			giveUp("val10 of a non-number")
		}
		n, _ := new(big.Int).SetString(string(s), 10)
		return n
	},
	"hex2": func(a []value) value {
		n := asInt(a[0])
		if !n.IsInt64() || n.Int64() < 0 || n.Int64() > 255 {
			giveUp("hex2 of a non-byte")
		}
		return []byte(fmt.Sprintf("%02X", n.Int64()))
	},
	"hexval": func(a []value) value {
		n, err := strconv.ParseUint(string(asSeq(a[0])), 16, 64)
		if err != nil {
			giveUp("hexval of a non-hex string")
		}
		return new(big.Int).SetUint64(n)
	},
	"canon":  func(a []value) value { return []byte(textproto.CanonicalMIMEHeaderKey(string(asSeq(a[0])))) },
	"b64raw": func(a []value) value { return []byte(base64.RawStdEncoding.EncodeToString(asSeq(a[0]))) },
	"b64pad": func(a []value) value { return []byte(base64.StdEncoding.EncodeToString(asSeq(a[0]))) },
	"isB64raw": func(a []value) value {
		s := string(asSeq(a[0]))
		_, err := base64.RawStdEncoding.DecodeString(s)
		return err == nil && !strings.ContainsAny(s, "\r\n")
	},
	"isB64pad": func(a []value) value {
		s := string(asSeq(a[0]))
		_, err := base64.StdEncoding.DecodeString(s)
		return err == nil && !strings.ContainsAny(s, "\r\n")
	},
	"unb64raw": func(a []value) value {
		b, err := base64.RawStdEncoding.DecodeString(string(asSeq(a[0])))
		if err != nil {
			giveUp("unb64raw outside its domain")
		}
		return b
	},
	"unb64pad": func(a []value) value {
		b, err := base64.StdEncoding.DecodeString(string(asSeq(a[0])))
		if err != nil {
			giveUp("unb64pad outside its domain")
		}
		return b
	},
	"isGoKeyword": func(a []value) value { return token.IsKeyword(string(asSeq(a[0]))) },
	"utf8enc": func(a []value) value {
		n := asInt(a[0])
		if !n.IsInt64() || n.Int64() < 0 || n.Int64() > 0x10FFFF {
			giveUp("utf8enc outside its domain")
		}
		return []byte(string(rune(n.Int64())))
	},
	// pdec(s, i): axiom pdec_def (the decoder's meaning of s[i:])
	"pdec": func(a []value) value {
		s := asSeq(a[0])
		i := asInt(a[1])
		if !i.IsInt64() {
			giveUp("pdec index")
		}
		var out []byte
		isHexDigit := func(c byte) bool {
			return ('0' <= c && c <= '9') || ('a' <= c && c <= 'f') || ('A' <= c && c <= 'F')
		}
		for k := i.Int64(); k >= 0 && k < int64(len(s)); {
			if s[k] == '%' && k+2 < int64(len(s)) {
				if isHexDigit(s[k+1]) && isHexDigit(s[k+2]) {
					n, _ := strconv.ParseUint(string(s[k+1:k+3]), 16, 8)
					out = append(out, byte(n))
				} else {
					out = append(out, 0xEF, 0xBF, 0xBD)
				}
				k += 3
			} else {
				out = append(out, s[k])
				k++
			}
		}
		return out
	},
	// off(m, i): offset of the encoding of m[i] in the percent-encoding of m
	// (axioms off_zero / off_step: 3 bytes for an escaped byte, 1 otherwise; a byte
	// is escaped per escAt: outside %x20-%x7E, '%', or a blank at either end of m)
	"off": func(a []value) value {
		m := asSeq(a[0])
		i := asInt(a[1])
		if !i.IsInt64() || i.Int64() < 0 || i.Int64() > int64(len(m)) {
			giveUp("off outside its domain")
		}
		o := int64(0)
		for j := int64(0); j < i.Int64(); j++ {
			if c := m[j]; c < 32 || c > 126 || c == 37 || (c == 32 && (j == 0 || j == int64(len(m))-1)) {
				o += 3
			} else {
				o++
			}
		}
		return bi(o)
	},
}
