// Package spec parses the contract language (Gobra-style //@ comment lines).
package spec

import (
	"fmt"
	"strings"
)

type Expr interface{ String() string }

type (
	Ident   struct{ Name string }
	IntLit  struct{ Val string } // decimal text
	StrLit  struct{ Val string }
	BoolLit struct{ Val bool }
	NilLit  struct{}
	Sel     struct {
		X    Expr
		Name string
	}
	Call struct {
		Fun  string
		Args []Expr
	}
	Index struct{ X, I Expr }
	SliceE struct{ X, Lo, Hi Expr } // Lo/Hi may be nil
	Len    struct{ X Expr }
	Unary  struct {
		Op string
		X  Expr
	}
	Binary struct {
		Op   string
		X, Y Expr
	}
	Old   struct{ X Expr }
	Quant struct {
		Kind     string // forall | exists
		Vars     []Param
		Triggers [][]Expr
		Body     Expr
	}
	Cond   struct{ C, A, B Expr }
	Let    struct {
		Name string
		Val  Expr
		Body Expr
	}
	SeqLit struct{ Elems []Expr }
)

type Param struct {
	Name string
	Type string
}

func (e *Ident) String() string   { return e.Name }
func (e *IntLit) String() string  { return e.Val }
func (e *StrLit) String() string  { return fmt.Sprintf("%q", e.Val) }
func (e *BoolLit) String() string { return fmt.Sprint(e.Val) }
func (e *NilLit) String() string  { return "nil" }
func (e *Sel) String() string     { return e.X.String() + "." + e.Name }
func (e *Call) String() string    { return e.Fun + "(" + joinE(e.Args) + ")" }
func (e *Index) String() string   { return e.X.String() + "[" + e.I.String() + "]" }
func (e *SliceE) String() string {
	lo, hi := "", ""
	if e.Lo != nil {
		lo = e.Lo.String()
	}
	if e.Hi != nil {
		hi = e.Hi.String()
	}
	return e.X.String() + "[" + lo + ":" + hi + "]"
}
func (e *Len) String() string    { return "|" + e.X.String() + "|" }
func (e *Unary) String() string  { return e.Op + e.X.String() }
func (e *Binary) String() string { return "(" + e.X.String() + " " + e.Op + " " + e.Y.String() + ")" }
func (e *Old) String() string    { return "old(" + e.X.String() + ")" }
func (e *Quant) String() string {
	vs := make([]string, len(e.Vars))
	for i, v := range e.Vars {
		vs[i] = v.Name + " " + v.Type
	}
	return "(" + e.Kind + " " + strings.Join(vs, ", ") + " :: " + e.Body.String() + ")"
}
func (e *Cond) String() string   { return "(if " + e.C.String() + " then " + e.A.String() + " else " + e.B.String() + ")" }
func (e *Let) String() string    { return "(let " + e.Name + " := " + e.Val.String() + " in " + e.Body.String() + ")" }
func (e *SeqLit) String() string { return "[" + joinE(e.Elems) + "]" }

func joinE(es []Expr) string {
	ss := make([]string, len(es))
	for i, e := range es {
		ss[i] = e.String()
	}
	return strings.Join(ss, ", ")
}

// ---- declarations -----------------------------------------------------------

type Clause struct {
	E     Expr
	Label string
	Tags  []string
	File  string
	Line  int
	Text  string
}

type GhostVar struct {
	Name string
	Type string
	Init Expr
	Step Expr
}

type LoopSpec struct {
	Invariants []Clause
	Decreases  Expr
	Assigns    []Expr
	Ghosts     []GhostVar
}

type CallAssert struct {
	Callee string // as printed for the call site, e.g. (*bytes.Buffer).Grow
	Ord    int    // 1-based ordinal among calls to Callee in dominator order; 0 = all
	Before bool   // evaluated before the call (default) or after
	Clause Clause
}

type FuncSpec struct {
	Name     string
	Trusted  bool
	Params   []string
	Results  []string
	Tags     []string
	Requires []Clause
	Ensures  []Clause
	Assigns  []Expr
	HasAssigns bool
	Loops    map[int]*LoopSpec
	NamedLoops map[string]*LoopSpec // bound to the loop that carries the named variable
	CallAsserts []CallAssert
	Pure     bool
	Panics   bool // the callee may panic; callers get an exceptional edge
	NoSafety bool // do not emit automatic safety obligations (trusted bodies)
	CheckSafety bool // trusted contract of a module function whose body is nevertheless checked for panics (its ensures stay assumed)
	NoSafetyKinds []string // safety kinds not checked in this function (documented in the contract)
	UseLemmas []string // lemmas / global invariants assumed in this function's proof
	Establishes []string // global invariants this (init) function proves on return
	PanicEnsures []Clause // obligations of an exit by panic (panicvalue = the value)
	Defines  []Clause // definitional equations for ghost functions of a freshly constructed result (assumed at return; see DESIGN)
	Implements []string // interface-method contracts whose ensures this function must also satisfy
	Anchor     string   // closures only: text on the source line where the function literal starts; the contract binds to the closure found there, whatever its ordinal
	AnchorErr  string   // set at load time when the anchor matches no closure, or several
	Split []Expr // case split over the parameters: every obligation is discharged once per case (and once for 'none')
	Unroll   map[int]int
	Doc      string
	File     string
	Line     int
}

type SpecFn struct {
	Name   string
	Params []Param
	Ret    string
	Body   Expr // nil => uninterpreted
	Macro  bool // expanded at each use in the current state (may read the heap)
	File   string
	Line   int
}

type Axiom struct {
	Name string
	E    Expr
	Doc  string
	File string
	Line int
}

type Lemma struct {
	Name   string
	Params []Param
	E      Expr
	Induct string   // variable of induction ("" = direct)
	Lo, Hi Expr     // induction range [Lo, Hi]
	Down   bool     // downward induction (from Hi to Lo)
	Uses   []Expr   // instances of other lemmas to assume: name(args)
	Triggers [][]Expr // patterns when the lemma is used as a quantified fact
	Measure Expr // induction on the value of this expression (the induction variable is then implicit)
	Generalizing []string // parameters universally quantified in the induction hypothesis
	Hints []Expr // boolean facts (e.g. ground instances of definitions) proved first, then assumed
	Tags   []string
	File   string
	Line   int
}

type GhostField struct {
	Name string
	Type string // value sort: int | bool | seq | ref
	Global bool // a single global cell rather than a per-object map
	Index string // optional second index sort (seq | int): a map per object
	Guard string // ownership ghost: the frame of this field only covers objects whose guard held at entry
}

// GlobalInv is an invariant over immutable globals, established by an init
// function (which proves it as a postcondition) and assumed where used.
type GlobalInv struct {
	Name string
	E    Expr
	Text string
	File string
	Line int
}

// TypeInv is an invariant of every object of a struct type, established by
// its only constructor and assumed for parameters of that type elsewhere.
type TypeInv struct {
	Type  string // e.g. *chain
	Var   string
	Ctor  string // the only function that allocates the type
	E     Expr
	Text  string
	File  string
	Line  int
}

type File struct {
	Funcs     []*FuncSpec
	SpecFns   []*SpecFn
	Axioms    []*Axiom
	Lemmas    []*Lemma
	Ghosts    []*GhostField
	Sentinels []string // immutable, pairwise distinct, non-nil global values (qualified names)
	Immutable []string // globals never written outside init (checked by scan)
	TypeInvs []*TypeInv
	StoredOnlyIn [][]string // field key followed by the functions allowed to store to it
	ConstFields []string // struct fields written only while constructing a fresh object (scan)
	OnlyCalledFrom [][2]string // (callee name, caller): mechanical call-site scan
	ConstTables []string // globals whose composite-literal initialiser is read from the source
	GlobalInvs []*GlobalInv
	Deterministic [][2]string // (package name, function whose report carries the scan): no map iteration and no clock / randomness / environment reads anywhere in the package
	OverridesAll [][3]string // (Type, embedded field, function whose report carries the scan): the type declares every error-returning method of the embedded interface itself
	FieldIs [][2]string // (Type.field, function): the function-valued field only ever holds this function (scan)
}

func (f *File) Merge(g *File) {
	f.Funcs = append(f.Funcs, g.Funcs...)
	f.SpecFns = append(f.SpecFns, g.SpecFns...)
	f.Axioms = append(f.Axioms, g.Axioms...)
	f.Lemmas = append(f.Lemmas, g.Lemmas...)
	f.Ghosts = append(f.Ghosts, g.Ghosts...)
	f.Sentinels = append(f.Sentinels, g.Sentinels...)
	f.Immutable = append(f.Immutable, g.Immutable...)
	f.ConstTables = append(f.ConstTables, g.ConstTables...)
	f.OnlyCalledFrom = append(f.OnlyCalledFrom, g.OnlyCalledFrom...)
	f.ConstFields = append(f.ConstFields, g.ConstFields...)
	f.TypeInvs = append(f.TypeInvs, g.TypeInvs...)
	f.StoredOnlyIn = append(f.StoredOnlyIn, g.StoredOnlyIn...)
	f.GlobalInvs = append(f.GlobalInvs, g.GlobalInvs...)
	f.FieldIs = append(f.FieldIs, g.FieldIs...)
	f.OverridesAll = append(f.OverridesAll, g.OverridesAll...)
	f.Deterministic = append(f.Deterministic, g.Deterministic...)
}
